"""C14 -- what is written to disk reads back unchanged and never overwrites earlier output.

Tie A (regenerated on every run): Gen/Files.v (get_new_file_name), Gen/Backup.v (create_backup),
Gen/Params.v (parse_boolean, boolean coding of generate_document, value branch of import_document),
Gen/Reports.v (row loops of the report writers), Gen/Results.v (attributes read / assigned by
_calculate_stats, write_pickle), plus a static scan that every writer of results.py / biogeme.py /
database.py obtains its file name from get_new_file_name.
Tie B / property oracles: streams names, backup, boolean, history, toml, reports, pickle."""
import ast
import json
import math
import re
import struct
from fractions import Fraction

import py2v
from py2v import Untranslatable, simple
from common import coq_string, coq_list, coq_bool, parse_bools, parse_marked, REPO, VERIF

ASSUME = [
    'a directory is modelled as the list of names of its regular files; Path(x).is_file() / os.path.exists(x) is membership',
    'open(name, "w") on a name returned by get_new_file_name creates exactly that file (no TOCTOU: '
    'concurrent creation between is_file() and open() is a runtime fact outside the model -- partial)',
    'os.rename(a, b) / shutil.copy(a, b) with b absent move / copy the content of a to b and touch nothing else',
    'tomlkit: parse(dumps(doc)) visits the same (section, entry, value) triples, integers / floats (bit-for-bit) / strings '
    'unchanged (Section hypotheses tk_entries, tk_nodup of T14d); checked on every case of stream toml',
    'pickle: load(dump(x)) has the same attributes with the same values (Section hypothesis loads_dumps of T14e); '
    'checked on every case of stream pickle',
    'pandas: DataFrame.loc[label] = row appends / replaces one row; Styler.to_latex renders one line per row; '
    'Python format() of a float with the specifications found in the source prints the value to that precision',
    'parameter values are Python bool / int / float / str (default_parameters.ParameterValue) of the declared type '
    '(well_typed); parameter names and file names are ASCII',
    'Parameters.dump_file(name) and the default biogeme.toml are configuration files, sample_and_merge writes to a '
    'name chosen by the caller, __<model>.iter is the restart file of C15: none is a "result, report or data-dump file"',
]


def U(n):
    return ast.unparse(n)


def UN(n):
    return ast.unparse(n).replace(' ', '').replace('\n', '').replace('(', '').replace(')', '')


def need(cond, msg):
    if not cond:
        raise Untranslatable(msg)


def _dotted(n):
    if isinstance(n, ast.Name):
        return n.id
    if isinstance(n, ast.Attribute):
        b = _dotted(n.value)
        return None if b is None else b + '.' + n.attr
    return None


def gen_files(ctx):
    """tie A: filenames.get_new_file_name"""
    ext = {
        'Path': simple('py_path', ['string'], 'string', 'Path(x): a path is its string'),
        '.is_file()': simple('is_file fs', ['string'], 'bool', 'p.is_file(): membership in the directory model'),
    }
    tr = py2v.load('src/biogeme/filenames.py', externals=ext, formats={('Z', '02d'): 'fmt02d'})
    d1 = tr.function('get_new_file_name', {'name': 'string', 'ext': 'string'}, 'string', partial=True)
    text = (
        'From BV Require Import Model.PyBase.\nOpen Scope Z_scope.\n'
        'Definition py_path (s : string) : string := s.\n'
        'Section WithFS.\nVariable fs : list string.\n' + d1 + 'End WithFS.\n'
    )
    ctx.gen('Files', text)



def gen_backup_text():
    ext = {
        'os.path.splitext': simple('splitext', ['string'], '(string * string)'),
        'os.path.exists': simple('path_exists fs', ['string'], 'bool'),
        'fs_rename': simple('FsRename', ['string','string'], 'fs_effect'),
        'fs_copy': simple('FsCopy', ['string','string'], 'fs_effect'),
    }
    tr = py2v.load('src/biogeme/tools/files.py', externals=ext, formats={('Z',''): 'string_of_Z'})
    fd = tr.find('create_backup')
    # --- fail-closed rewriting of the two side effects into a returned effect value
    EFFECTS = {'os.rename': 'fs_rename', 'shutil.copy': 'fs_copy'}
    n_eff = [0]
    class RW(ast.NodeTransformer):
        def visit_Expr(self, node):
            if isinstance(node.value, ast.Call):
                d = _dotted(node.value.func)
                if d in EFFECTS:
                    if len(node.value.args) != 2 or node.value.keywords:
                        raise Untranslatable(f'create_backup: unexpected arguments of {d}')
                    n_eff[0] += 1
                    new = ast.Assign(targets=[ast.Name(id='effect', ctx=ast.Store())],
                                     value=ast.Call(func=ast.Name(id=EFFECTS[d], ctx=ast.Load()), args=node.value.args, keywords=[]))
                    return ast.copy_location(new, node)
            return node
    fd2 = RW().visit(fd)
    if n_eff[0] != 2:
        raise Untranslatable(f'create_backup: expected exactly one os.rename and one shutil.copy, found {n_eff[0]} effects')
    # returns: `return new_name` -> `return (effect, new_name)`; falling off the end -> `return None`
    nret = 0
    for n in ast.walk(fd2):
        if isinstance(n, ast.Return):
            nret += 1
            if not (isinstance(n.value, ast.Name)):
                raise Untranslatable('create_backup: unexpected return value')
            n.value = ast.Tuple(elts=[ast.Name(id='effect', ctx=ast.Load()), n.value], ctx=ast.Load())
    if nret != 1:
        raise Untranslatable(f'create_backup: expected one return, found {nret}')
    if isinstance(fd2.body[-1], (ast.Return, ast.Raise)):
        raise Untranslatable('create_backup: expected the function to fall off its end when the file does not exist')
    fd2.body.append(ast.Return(value=ast.Constant(value=None)))
    # `while True:` whose first statement assigns the loop-carried name: give it a (dead) initial value
    for parent in ast.walk(fd2):
        body = getattr(parent, 'body', None)
        if not isinstance(body, list): continue
        for i, s in enumerate(list(body)):
            if isinstance(s, ast.While):
                first = s.body[0]
                if not (isinstance(s.test, ast.Constant) and s.test.value is True and isinstance(first, ast.Assign)
                        and len(first.targets) == 1 and isinstance(first.targets[0], ast.Name)):
                    raise Untranslatable('create_backup: loop shape changed')
                v = first.targets[0].id
                # the initial value is dead only if the first statement does not read the variable
                if any(isinstance(x, ast.Name) and x.id == v for x in ast.walk(first.value)):
                    raise Untranslatable('create_backup: loop variable read before assignment')
                body.insert(i, ast.Assign(targets=[ast.Name(id=v, ctx=ast.Store())], value=ast.Constant(value='')))
                break
    ast.fix_missing_locations(fd2)
    d = tr.function('create_backup', {'filename': 'string', 'rename': 'bool'}, 'option (fs_effect * string)', partial=True)
    return d


def gen_backup(ctx):
    """tie A: tools.files.create_backup"""
    txt = gen_backup_text().replace(': option option (fs_effect * string) :=', ': option (option (fs_effect * string)) :=')
    ctx.gen('Backup', 'From BV Require Import Model.PyBase Model.FsOps.\nOpen Scope Z_scope.\n'
            'Section WithFS.\nVariable fs : list string.\n' + txt + 'End WithFS.\n')


def gen_params_text():
    tr = py2v.load('src/biogeme/parameters.py')
    consts = {}
    for n in tr.tree.body:
        if isinstance(n, ast.Assign) and len(n.targets) == 1 and isinstance(n.targets[0], ast.Name) \
                and n.targets[0].id in ('TRUE_STR', 'FALSE_STR'):
            need(isinstance(n.value, ast.Tuple) and all(isinstance(e, ast.Constant) and isinstance(e.value, str) for e in n.value.elts),
                 f'parameters.py: {n.targets[0].id} is not a tuple of string literals')
            consts[n.targets[0].id] = [e.value for e in n.value.elts]
    need(set(consts) == {'TRUE_STR', 'FALSE_STR'}, 'parameters.py: TRUE_STR / FALSE_STR not found')
    out = []
    for k in ('TRUE_STR', 'FALSE_STR'):
        out.append(f'Definition {k} : list string := {coq_list([coq_string(s) + "%string" for s in consts[k]])}.\n')
        tr.attrs[k] = (k, 'list string')
    tr.externals['in:list string'] = simple('str_in', ['string', 'list string'], 'bool')
    out.append(tr.function('parse_boolean', {'value': 'string'}, 'bool', partial=True))
    # ---- generate_document: the boolean coding
    gd = tr.find('Parameters.generate_document')
    loops = [s for s in gd.body if isinstance(s, ast.For)]
    need(len(loops) == 2, 'generate_document: expected two for loops')
    lp = loops[0]
    need(U(lp.target) == 'parameter' and U(lp.iter) == 'self.all_parameters_dict.values()',
         'generate_document: the first loop is not over all the parameters')
    need(not any(isinstance(x, (ast.Break, ast.Continue, ast.Return)) for x in ast.walk(lp)), 'generate_document: exit inside the loop')
    st = lp.body
    need(len(st) >= 2 and isinstance(st[0], ast.If) and U(st[0].test) == 'isinstance(parameter.value, bool)',
         'generate_document: boolean test changed')
    b, o = st[0].body, st[0].orelse
    need(len(b) == 1 and isinstance(b[0], ast.Assign) and U(b[0].targets[0]) == 'value' and isinstance(b[0].value, ast.IfExp)
         and U(b[0].value.test) == 'parameter.value'
         and isinstance(b[0].value.body, ast.Constant) and isinstance(b[0].value.body.value, str)
         and isinstance(b[0].value.orelse, ast.Constant) and isinstance(b[0].value.orelse.value, str),
         'generate_document: boolean coding changed')
    need(len(o) == 1 and U(o[0]) == 'value = parameter.value', 'generate_document: non-boolean branch changed')
    need(U(st[1]) == 'tables[parameter.section].add(parameter.name, value)', 'generate_document: the entry is not added as (name, value)')
    for s in st[2:]:   # the rest may only attach the comment
        need(not any(isinstance(x, ast.Name) and x.id == 'value' and isinstance(x.ctx, ast.Store) for x in ast.walk(s))
             and '.add(' not in U(s) and 'remove' not in U(s) and 'del ' not in U(s), 'generate_document: unexpected statement after add')
    need(U(loops[1]).replace('\n', ' ').split() == 'for s, t in tables.items(): doc[s] = t'.split(), 'generate_document: tables are not all stored in the document')
    t_s, f_s = b[0].value.body.value, b[0].value.orelse.value
    out.append('(* from src/biogeme/parameters.py:%d Parameters.generate_document (value coding) *)\n' % st[0].lineno +
               'Definition encode_value (v : pvalue) : tvalue :=\n  match v with\n'
               f'  | PBool b => tv_of_pvalue (PStr (if b then {coq_string(t_s)} else {coq_string(f_s)}))\n'
               '  | _ => tv_of_pvalue v\n  end.\n')
    # ---- import_document: the value branch
    im = tr.find('Parameters.import_document')
    body = [s for s in im.body if not tr.ignorable(s)]
    need(len(body) == 1 and isinstance(body[0], ast.For) and U(body[0].target).strip('()') == 'section_name, entries'
         and U(body[0].iter) == 'self.document.items()', 'import_document: outer loop changed')
    inner = body[0].body
    need(len(inner) == 1 and isinstance(inner[0], ast.For) and U(inner[0].target).strip('()') == 'entry_name, entry_value'
         and U(inner[0].iter) == 'entries.items()', 'import_document: inner loop changed')
    ib = inner[0].body
    need(len(ib) == 6, f'import_document: loop body has {len(ib)} statements, expected 6')
    need(U(ib[0]) == 'key = NameSectionTuple(name=entry_name, section=section_name)', 'import_document: key changed')
    need(U(ib[1]) == 'default = self.all_parameters_dict.get(key)', 'import_document: default lookup changed')
    need(isinstance(ib[2], ast.If) and U(ib[2].test) == 'default is None' and isinstance(ib[2].body[-1], ast.Continue)
         and not ib[2].orelse and all(tr.ignorable(s) or isinstance(s, (ast.Assign, ast.Continue)) for s in ib[2].body),
         'import_document: unknown-entry branch changed')
    c = ib[3]
    need(isinstance(c, ast.If) and U(c.test) == 'entry_value is None' and [U(s) for s in c.body] == ['value = default.value']
         and len(c.orelse) == 1 and isinstance(c.orelse[0], ast.If), 'import_document: None branch changed')
    c2 = c.orelse[0]
    need(U(c2.test) == 'default.type is bool' and [U(s) for s in c2.orelse] == ['value = entry_value'], 'import_document: type test changed')
    need(len(c2.body) == 1 and isinstance(c2.body[0], ast.Try), 'import_document: boolean branch changed')
    t = c2.body[0]
    need([U(s) for s in t.body] == ['value = parse_boolean(entry_value)'] and len(t.handlers) == 1
         and U(t.handlers[0].type) == 'excep.BiogemeError' and isinstance(t.handlers[0].body[-1], ast.Raise)
         and U(t.handlers[0].body[-1].exc).startswith('excep.BiogemeError(') and not t.orelse and not t.finalbody,
         'import_document: parse_boolean call / error handling changed')
    need(U(ib[4]).replace('\n', '').replace(' ', '') ==
         'the_parameter=ParameterTuple(name=entry_name,value=value,type=default.type,section=section_name,'
         'description=default.description,check=default.check)', 'import_document: rebuilt tuple changed')
    need(U(ib[5]) == 'self.add_parameter(the_parameter)', 'import_document: add_parameter call changed')
    out.append('(* from src/biogeme/parameters.py:%d Parameters.import_document (value branch) *)\n' % c.lineno +
               'Definition decode_value (default_type : ptype) (default_value : pvalue) (entry_value : option tvalue) : option pvalue :=\n'
               '  match entry_value with\n  | None => Some default_value\n'
               '  | Some ev => if ptype_is_bool default_type then option_map PBool (on_str parse_boolean ev)\n'
               '               else Some (pv_of_tvalue ev)\n  end.\n')
    # add_parameter: checks first, then store under the key
    ap = tr.find('Parameters.add_parameter')
    ab = [U(s).replace('\n', '').replace(' ', '') for s in ap.body if not tr.ignorable(s)]
    need(ab == ['key=NameSectionTuple(name=parameter_tuple.name,section=parameter_tuple.section)',
                'ok,messages=self.check_parameter_value(parameter_tuple)',
                'ifnotok:raiseexcep.BiogemeError(messages)',
                'already_there=self.all_parameters_dict.get(key)',
                'self.all_parameters_dict[key]=parameter_tuple'], 'add_parameter: shape changed: ' + repr(ab))
    # ---- dump_file: which document is stored in self.document and written
    df = tr.find('Parameters.dump_file')
    need([a.arg for a in df.args.args] == ['self', 'file_name'], 'dump_file: signature changed')
    body = [st_ for st_ in df.body if not tr.ignorable(st_)]
    wi = [i for i, st_ in enumerate(body) if isinstance(st_, ast.With)]
    need(len(wi) == 1 and wi[0] == len(body) - 1, 'dump_file: expected the file to be written by one final with-statement')
    w = body[-1]
    need(len(w.items) == 1 and isinstance(w.items[0].context_expr, ast.Call) and U(w.items[0].context_expr.func) == 'open'
         and U(w.items[0].context_expr.args[0]) == 'file_name' and U(w.items[0].context_expr.args[1]) == "'w'"
         and [U(x) for x in w.body] == ['print(tk.dumps(self.document), file=f)'], 'dump_file: what is written changed')

    def doc_block(stmts):
        """statements updating self.document -> Gallina expression (option tdoc) over `document` / `generated`"""
        code = 'document'
        for st_ in reversed([x for x in stmts if not tr.ignorable(x)]):
            if isinstance(st_, ast.Assign) and U(st_.targets[0]) == 'self.document' and len(st_.targets) == 1:
                need(U(st_.value) == 'self.generate_document()', 'dump_file: self.document assigned from ' + U(st_.value))
                code = f'(let document := Some generated in {code})'
            elif isinstance(st_, ast.If) and UN(st_.test) in ('self.documentisNone', 'self.documentisnotNone'):
                a, b = doc_block(st_.body), doc_block(st_.orelse)
                if UN(st_.test) == 'self.documentisnotNone':
                    a, b = b, a
                code = f'(let document := match document with None => {a} | Some _ => {b} end in {code})'
            else:
                raise Untranslatable('dump_file: unsupported statement before the file is written: ' + U(st_)[:80])
        return code

    out.append(f'(* from src/biogeme/parameters.py:{df.lineno} Parameters.dump_file: the document stored in self.document and written *)\n'
               'Definition dump_file_document (document : option tdoc) (generated : tdoc) : option tdoc :=\n'
               f'  {doc_block(body[:-1])}.\n')
    # read_file: an existing file is parsed into self.document and imported; a missing one is created by dump_file
    rf = tr.find('Parameters.read_file')
    trys = [x for x in rf.body if isinstance(x, ast.Try)]
    need(len(trys) == 1 and len(trys[0].handlers) == 1 and U(trys[0].handlers[0].type) == 'FileNotFoundError'
         and [U(x) for x in trys[0].handlers[0].body if not tr.ignorable(x) and not isinstance(x, ast.Assign)] == ['self.dump_file(self.file_name)'],
         'read_file: handling of a missing file changed')
    rd = [U(x) for x in ast.walk(trys[0].body[0]) if isinstance(x, (ast.Assign, ast.Expr)) and 'self.' in U(x) and not U(x).startswith('logger')]
    need('self.document = tk.parse(content)' in rd and 'self.import_document()' in rd
         and rd.index('self.document = tk.parse(content)') < rd.index('self.import_document()'), 'read_file: parse / import changed: ' + repr(rd))
    sv = tr.find('Parameters.set_value')
    svb = [U(x).replace('\n', '').replace(' ', '') for x in sv.body if not tr.ignorable(x)]
    need(svb == ['the_tuple=self.get_param_tuple(name,section)',
                 'the_parameter=ParameterTuple(name=the_tuple.name,value=value,type=the_tuple.type,section=the_tuple.section,'
                 'description=the_tuple.description,check=the_tuple.check)',
                 'self.add_parameter(the_parameter)'], 'set_value: shape changed: ' + repr(svb))
    return ('From BV Require Import Model.PyBase Model.Params.\nOpen Scope Z_scope.\nOpen Scope string_scope.\n' + ''.join(out))

def gen_params(ctx):
    """tie A: parameters.parse_boolean + boolean coding + import branch"""
    ctx.gen('Params', gen_params_text())


FIELDS = {'b.value': 'FValue', '{True: 1.0, False: 0.0}[b.is_bound_active()]': 'FActive',
          'b.stdErr': 'FStdErr', 'b.tTest': 'FTTest', 'b.pValue': 'FPValue',
          'b.robust_stdErr': 'FRobStdErr', 'b.robust_tTest': 'FRobTTest', 'b.robust_pValue': 'FRobPValue',
          'b.bootstrap_stdErr': 'FBootStdErr', 'b.bootstrap_tTest': 'FBootTTest', 'b.bootstrap_pValue': 'FBootPValue'}

def _colname(k):
    if isinstance(k, ast.Constant) and isinstance(k.value, str):
        return coq_string(k.value)
    if isinstance(k, ast.JoinedStr):
        parts = []
        for v in k.values:
            if isinstance(v, ast.Constant):
                parts.append(coq_string(v.value))
            elif isinstance(v, ast.FormattedValue) and U(v.value) == 'len(self.data.bootstrap)' and v.format_spec is None and v.conversion == -1:
                parts.append('nboot')
            else:
                raise Untranslatable('get_estimated_parameters: unexpected column name ' + U(k))
        return '(' + ' ++ '.join(parts) + ')%string'
    raise Untranslatable('get_estimated_parameters: unexpected column name ' + U(k))

def _field(v):
    u = U(v)
    need(u in FIELDS, 'get_estimated_parameters: unexpected cell ' + u)
    return FIELDS[u]

def _arow(stmts, what):
    """an if-tree whose leaves are `arow = {...}` -> Gallina expression of type list (string * field)"""
    need(len(stmts) == 1, f'{what}: unexpected statements')
    s = stmts[0]
    if isinstance(s, ast.If):
        need(U(s.test) in ('any_active_bound', 'only_robust'), f'{what}: unexpected test {U(s.test)}')
        return f'(if {U(s.test)} then {_arow(s.body, what)} else {_arow(s.orelse, what)})'
    need(isinstance(s, ast.Assign) and U(s.targets[0]) == 'arow' and isinstance(s.value, ast.Dict), f'{what}: unexpected statement {U(s)[:60]}')
    return coq_list([f'({_colname(k)}, {_field(v)})' for k, v in zip(s.value.keys, s.value.values)])

def _spec(fv):
    if fv.format_spec is None:
        return ''
    need(all(isinstance(x, ast.Constant) for x in fv.format_spec.values), 'dynamic format specification')
    return ''.join(x.value for x in fv.format_spec.values)

def _single_fv(js, what):
    need(isinstance(js, ast.JoinedStr), f'{what}: not an f-string')
    fvs = [v for v in js.values if isinstance(v, ast.FormattedValue)]
    need(len(fvs) == 1 and fvs[0].conversion == -1, f'{what}: expected one formatted value')
    return fvs[0]

def no_exit(loop, what):
    need(not any(isinstance(x, (ast.Break, ast.Continue, ast.Return, ast.Raise)) for x in ast.walk(loop)) and not loop.orelse,
         f'{what}: exit inside the row loop')

def gen_reports_text():
    tr = py2v.load('src/biogeme/results.py')
    out = ['From BV Require Import Model.PyBase Model.FsOps Model.Reports.\nOpen Scope string_scope.\n']
    # ------------------------------------------------ get_estimated_parameters
    fd = tr.find('bioResults.get_estimated_parameters')
    loops = [s for s in fd.body if isinstance(s, ast.For)]
    need(len(loops) == 2 and all(U(l.target) == 'b' and U(l.iter) == 'self.data.betas' for l in loops),
         'get_estimated_parameters: expected two loops over self.data.betas')
    need(isinstance(fd.body[-1], ast.Return) and U(fd.body[-1].value) == 'table' and fd.body[-2] is loops[1],
         'get_estimated_parameters: the table is not returned right after the row loop')
    tb = [s for s in fd.body if isinstance(s, ast.Assign) and U(s.targets[0]) == 'table']
    need(len(tb) == 1 and U(tb[0].value) == 'pd.DataFrame(columns=columns)', 'get_estimated_parameters: table creation changed')
    lp = loops[1]
    no_exit(lp, 'get_estimated_parameters')
    need(len(lp.body) == 3, 'get_estimated_parameters: row loop body changed')
    base = _arow(lp.body[:1], 'get_estimated_parameters')
    bs = lp.body[1]
    need(isinstance(bs, ast.If) and UN(bs.test) == 'self.data.bootstrapisnotNoneandnotonly_robust' and not bs.orelse,
         'get_estimated_parameters: bootstrap test changed')
    extra = []
    for s in bs.body:
        need(isinstance(s, ast.Assign) and isinstance(s.targets[0], ast.Subscript) and U(s.targets[0].value) == 'arow',
             'get_estimated_parameters: unexpected statement in the bootstrap branch')
        extra.append(f'({_colname(s.targets[0].slice)}, {_field(s.value)})')
    need(U(lp.body[2]) == 'table.loc[b.name] = pd.Series(arow)', 'get_estimated_parameters: the row is not stored under b.name')
    out.append(f'(* from src/biogeme/results.py:{lp.lineno} bioResults.get_estimated_parameters (row loop) *)\n'
               'Definition gep_columns (any_active_bound only_robust with_bootstrap : bool) (nboot : string) : list (string * field) :=\n'
               f'  ({base}\n   ++ (if with_bootstrap && negb only_robust then {coq_list(extra)} else []))%list.\n'
               'Definition gep_table {B} (b_name : B -> string) (any_active_bound only_robust with_bootstrap : bool) (nboot : string)\n'
               '    (data_betas : list B) : table (row B) :=\n'
               '  estimated_parameters_table b_name (gep_columns any_active_bound only_robust with_bootstrap nboot) data_betas.\n')
    # ------------------------------------------------ get_html
    fd = tr.find('bioResults.get_html')
    idx = [i for i, s in enumerate(fd.body) if isinstance(s, ast.Assign) and U(s.targets[0]) == 'table']
    need(len(idx) == 2 and U(fd.body[idx[0]].value) == 'self.get_estimated_parameters(only_robust)', 'get_html: source of the parameter table changed')
    seg = fd.body[idx[0] + 1: idx[1]]
    loops = [s for s in seg if isinstance(s, ast.For) and U(s.iter) == 'table.iterrows()']
    need(len(loops) == 1 and UN(loops[0].target) == 'name,values', 'get_html: parameter row loop changed')
    lp = loops[0]
    no_exit(lp, 'get_html')
    need(len(lp.body) == 3 and all(isinstance(s, ast.AugAssign) and U(s.target) == 'html' and isinstance(s.op, ast.Add) for s in (lp.body[0], lp.body[2]))
         and isinstance(lp.body[1], ast.For), 'get_html: parameter row body changed')
    fv = _single_fv(lp.body[0].value, 'get_html name cell')
    need(U(fv.value) == 'name' and _spec(fv) == '', 'get_html: the name cell does not show the name')
    inner = lp.body[1]
    need(UN(inner.target) == 'key,value' and U(inner.iter) == 'values.items()' and len(inner.body) == 1
         and isinstance(inner.body[0], ast.AugAssign) and U(inner.body[0].target) == 'html', 'get_html: cell loop changed')
    no_exit(inner, 'get_html')
    fv = _single_fv(inner.body[0].value, 'get_html value cell')
    need(U(fv.value) == 'value', 'get_html: the value cell does not show the value')
    html_spec = _spec(fv)
    out.append(f'(* from src/biogeme/results.py:{lp.lineno} bioResults.get_html (parameter rows) *)\n'
               'Definition html_rows {C} (t : table (list (string * C))) : list (string * list (string * C)) :=\n'
               f"  map (fun '(name, values) => (name, map (fun '(key, value) => ({coq_string(html_spec)}, value)) values)) t.\n")
    # ------------------------------------------------ get_latex
    fd = tr.find('bioResults.get_latex')
    idx = [i for i, s in enumerate(fd.body) if isinstance(s, ast.Assign) and U(s.targets[0]) == 'table']
    need(len(idx) == 2 and U(fd.body[idx[0]].value) == 'self.get_estimated_parameters(only_robust)', 'get_latex: source of the parameter table changed')
    seg = fd.body[idx[0] + 1: idx[1]]
    trys = [s for s in seg if isinstance(s, ast.Try)]
    need(len(trys) == 1 and [U(s) for s in trys[0].body] == ['latex += table.style.format(formatting).to_latex()']
         and len(trys[0].handlers) == 1 and [U(s) for s in trys[0].handlers[0].body] == ['latex += table.to_latex(float_format=formatting)'],
         'get_latex: rendering of the parameter table changed')
    fm = [s for s in seg if isinstance(s, ast.FunctionDef) and s.name == 'formatting']
    need(len(fm) == 1, 'get_latex: formatting function not found')
    fb = [s for s in fm[0].body if not tr.ignorable(s)]
    need(isinstance(fb[0], ast.Assign) and U(fb[0].targets[0]) == 'res', 'get_latex: formatting changed')
    fv = _single_fv(fb[0].value, 'get_latex formatting')
    need(U(fv.value) == 'x', 'get_latex: formatting does not format its argument')
    out.append(f'(* from src/biogeme/results.py:{fm[0].lineno} bioResults.get_latex (formatting handed to pandas to_latex) *)\n'
               f'Definition latex_value_spec : string := {coq_string(_spec(fv))}.\n')
    # ------------------------------------------------ get_f12
    fd = tr.find('bioResults.get_f12')
    pre = {U(s.targets[0]): U(s.value) for s in fd.body if isinstance(s, ast.Assign) and len(s.targets) == 1}
    need(pre.get('table') == 'self.get_estimated_parameters(only_robust=False)' and pre.get('coef_names') == 'table.index.to_list()',
         'get_f12: source of the coefficient names changed')
    loops = [s for s in fd.body if isinstance(s, ast.For) and U(s.iter) == 'coef_names' and U(s.target) == 'name']
    need(len(loops) == 1, 'get_f12: coefficient loop changed')
    lp = loops[0]
    no_exit(lp, 'get_f12')
    need(U(lp.body[0]) == 'values = table.loc[name]', 'get_f12: row lookup changed')
    label = value = None
    for s in lp.body[1:]:
        need(isinstance(s, (ast.AugAssign, ast.If)), 'get_f12: unexpected statement in the coefficient loop')
        if isinstance(s, ast.AugAssign) and isinstance(s.value, ast.JoinedStr):
            fv = _single_fv(s.value, 'get_f12')
            if isinstance(fv.value, ast.Subscript) and U(fv.value.value) == 'name':
                sl = fv.value.slice
                need(isinstance(sl, ast.Slice) and sl.lower is None and sl.step is None and isinstance(sl.upper, ast.Constant)
                     and isinstance(sl.upper.value, int) and sl.upper.value >= 0 and label is None, 'get_f12: label slice changed')
                label = (sl.upper.value, _spec(fv))
            elif U(fv.value) in ("values['Value']", 'values["Value"]'):
                need(value is None, 'get_f12: value printed twice')
                value = _spec(fv)
    need(label is not None and value is not None, 'get_f12: label or value cell not found')
    out.append(f'(* from src/biogeme/results.py:{lp.lineno} bioResults.get_f12 (coefficient lines) *)\n'
               'Definition f12_rows {C} (t : table (list (string * C))) : list (string * string * option (string * C)) :=\n'
               f'  map (fun name => (str_take {label[0]} name, {coq_string(label[1])},\n'
               f'                    match table_loc t name with\n'
               f'                    | Some values => option_map (fun v => ({coq_string(value)}, v)) (series_get values "Value")\n'
               f'                    | None => None end)) (map fst t).\n')
    # ------------------------------------------------ __str__
    fd = tr.find('bioResults.__str__')
    joins = [s for s in fd.body if isinstance(s, ast.AugAssign) and U(s.target) == 'text'
             and UN(s.value) == UN(ast.parse("'\\n'.join([f'{b}' for b in self.data.betas])").body[0].value)]
    need(len(joins) == 1, '__str__: the list of parameters is not printed as one line per Beta')
    bs = tr.find('Beta.__str__')
    bb = [s for s in bs.body if not tr.ignorable(s)]
    need(isinstance(bb[0], ast.Assign) and U(bb[0].targets[0]) == 'text' and isinstance(bb[0].value, ast.JoinedStr)
         and isinstance(bb[-1], ast.Return) and U(bb[-1].value) == 'text', 'Beta.__str__: shape changed')
    for s in bb[1:-1]:
        for x in ast.walk(s):
            need(not (isinstance(x, ast.Assign) and any(U(t) == 'text' for t in x.targets)), 'Beta.__str__: text reassigned')
    fvs = [v for v in bb[0].value.values if isinstance(v, ast.FormattedValue)]
    need(len(fvs) == 2 and U(fvs[0].value) == 'self.name' and U(fvs[1].value) == 'self.value', 'Beta.__str__: name/value not printed first')
    out.append(f'(* from src/biogeme/results.py:{bs.lineno} Beta.__str__ and :{joins[0].lineno} bioResults.__str__ *)\n'
               'Definition str_rows {B} (b_name : B -> string) (data_betas : list B) : list (string * string * (string * (field * B))) :=\n'
               f'  map (fun b => (b_name b, {coq_string(_spec(fvs[0]))}, ({coq_string(_spec(fvs[1]))}, (FValue, b)))) data_betas.\n')
    return ''.join(out)


def gen_reports(ctx):
    """tie A (specialised extractor): row loops of the report writers"""
    ctx.gen('Reports', gen_reports_text())


class _Attrs(ast.NodeVisitor):
    """Accesses to attributes of `base` (e.g. self.data / self) in evaluation order."""
    def __init__(self, base, on_call=None):
        self.base, self.events, self.on_call = base, [], on_call
    def visit_Assign(self, n):
        self.visit(n.value)
        for t in n.targets: self.visit(t)
    def visit_AnnAssign(self, n):
        if n.value is not None: self.visit(n.value)
        self.visit(n.target)
    def visit_AugAssign(self, n):
        self.visit(n.value)
        if isinstance(n.target, ast.Attribute) and U(n.target.value) == self.base:
            self.events.append((n.target.attr, 'load'))
        self.visit(n.target)
    def visit_Attribute(self, n):
        if U(n.value) == self.base:
            self.events.append((n.attr, 'store' if isinstance(n.ctx, (ast.Store, ast.Del)) else 'load'))
        else:
            self.generic_visit(n)
    def visit_Call(self, n):
        for a in n.args: self.visit(a)
        for k in n.keywords: self.visit(k.value)
        self.visit(n.func)
        if self.on_call: self.on_call(self, n)

def gen_results_text():
    tr = py2v.load('src/biogeme/results.py')
    beta_methods = {}
    for m in ('set_std_err', 'set_robust_std_err', 'set_bootstrap_std_err'):
        v = _Attrs('self'); v.visit(tr.find('Beta.' + m)); beta_methods[m] = v.events
    ct = _Attrs('self.data'); ct.visit(tr.find('bioResults._calculate_test'))
    need(all(k == 'load' for _, k in ct.events), '_calculate_test assigns attributes of the record')
    def on_call(v, n):
        f = n.func
        if isinstance(f, ast.Attribute) and U(f.value).startswith('self.data.betas['):
            need(f.attr in beta_methods, f'_calculate_stats: unexpected method {f.attr} on a Beta object')
            for a, k in beta_methods[f.attr]:
                v.events.append(('betas[].' + a, k))
        elif U(f) == 'self._calculate_test':
            v.events += ct.events
        elif U(f) == 'self._clear_stats' and not n.args and not n.keywords:
            clear_calls.append(n)       # analysed separately (clear_attrs): position and content checked below
        elif U(f).startswith('self.') and not U(f).startswith('self.data.'):
            raise Untranslatable(f'_calculate_stats: call to unanalysed method {U(f)}')
    cs = tr.find('bioResults._calculate_stats')
    clear_calls = []
    v = _Attrs('self.data', on_call); v.visit(cs)
    # _clear_stats(): may only be called once, as the first statement after `if self.data is None: return`, and may
    # only reset attributes (set to None / delete) -- which ones is generated and proved to be derived attributes only
    cleared = []
    if clear_calls:
        body = [x for x in cs.body if not tr.ignorable(x)]
        need(len(clear_calls) == 1 and len(body) >= 2 and isinstance(body[0], ast.If) and U(body[0].test) == 'self.data is None'
             and [U(x) for x in body[0].body] == ['return'] and not body[0].orelse
             and isinstance(body[1], ast.Expr) and body[1].value is clear_calls[0],
             '_calculate_stats: _clear_stats() is not the first statement after the guard')
        cl = tr.find('bioResults._clear_stats')
        need([a.arg for a in cl.args.args] == ['self'], '_clear_stats: signature changed')
        for st_ in [x for x in cl.body if not tr.ignorable(x)]:
            if isinstance(st_, ast.Assign) and all(isinstance(t, ast.Attribute) and U(t.value) == 'self.data' for t in st_.targets) \
                    and isinstance(st_.value, ast.Constant) and st_.value.value is None:
                cleared += [t.attr for t in st_.targets]
            elif isinstance(st_, ast.For) and U(st_.target) == 'b' and U(st_.iter) == 'self.data.betas' and not st_.orelse:
                for x in st_.body:
                    need(isinstance(x, ast.Assign) and isinstance(x.value, ast.Constant) and x.value.value is None
                         and all(isinstance(t, ast.Attribute) and U(t.value) == 'b' for t in x.targets),
                         '_clear_stats: unexpected statement on a Beta object: ' + U(x)[:80])
                    cleared += ['betas[].' + t.attr for t in x.targets]
            elif isinstance(st_, ast.For) and isinstance(st_.target, ast.Name) and isinstance(st_.iter, ast.Tuple) and not st_.orelse \
                    and all(isinstance(e, ast.Constant) and isinstance(e.value, str) for e in st_.iter.elts):
                nm = st_.target.id
                need(len(st_.body) == 1 and isinstance(st_.body[0], ast.If) and U(st_.body[0].test) == f'hasattr(self.data, {nm})'
                     and [U(x) for x in st_.body[0].body] == [f'delattr(self.data, {nm})'] and not st_.body[0].orelse,
                     '_clear_stats: unexpected loop body: ' + U(st_)[:120])
                cleared += [e.value for e in st_.iter.elts]
            else:
                raise Untranslatable('_clear_stats: unsupported statement: ' + U(st_)[:100])
        need(len(cleared) == len(set(cleared)) and cleared, '_clear_stats: attribute cleared twice / nothing cleared')
    first, stored = {}, []
    for a, k in v.events:
        first.setdefault(a, k)
        if k == 'store' and a not in stored: stored.append(a)
    ins = [a for a in first if first[a] == 'load']
    need(ins and stored, '_calculate_stats: no inputs / outputs found')
    # constructor: both branches store the record in self.data, then _calculate_stats() unconditionally
    init = tr.find('bioResults.__init__')
    ib = [s for s in init.body if not tr.ignorable(s)]
    need(U(ib[-1]) == 'self._calculate_stats()', 'bioResults.__init__: statistics are not recomputed at the end of the constructor')
    stores = [U(s) for s in ast.walk(init) if isinstance(s, ast.Assign) and U(s.targets[0]) == 'self.data']
    need(sorted(set(stores)) == sorted({'self.data = the_raw_results', 'self.data = pickle.load(p)', 'self.data = pickle.load(f)', 'self.data = None'}),
         'bioResults.__init__: unexpected assignment of self.data: ' + repr(stores))
    wp = tr.find('bioResults.write_pickle')
    wb = [s for s in wp.body if not tr.ignorable(s)]
    need(len(wb) == 3 and isinstance(wb[0], ast.Assign) and U(wb[0].targets[0]).startswith('self.data.')
         and isinstance(wb[0].value, ast.Call) and U(wb[0].value.func) == 'bf.get_new_file_name'
         and U(wb[0].value.args[0]) == 'self.data.modelName' and isinstance(wb[0].value.args[1], ast.Constant),
         'write_pickle: naming changed')
    name_attr = wb[0].targets[0].attr
    need(isinstance(wb[1], ast.With) and U(wb[1].items[0].context_expr) == f"open(self.data.{name_attr}, 'wb')"
         and [U(s) for s in wb[1].body] == ['pickle.dump(self.data, f)'] and U(wb[2]) == f'return self.data.{name_attr}',
         'write_pickle: what is dumped changed')
    S = lambda l: coq_list([coq_string(a) + '%string' for a in l], ';\n   ')
    return ('From BV Require Import Model.PyBase.\n'
            f'(* from src/biogeme/results.py:{cs.lineno} bioResults._calculate_stats (+ Beta.set_*_std_err, _calculate_test):\n'
            '   attributes of self.data whose first access is a read / attributes that are assigned *)\n'
            f'Definition stats_inputs : list string :=\n  {S(ins)}.\n'
            f'Definition stats_outputs : list string :=\n  {S(stored)}.\n'
            '(* attributes reset (set to None / deleted) by _clear_stats(), called first by _calculate_stats *)\n'
            f'Definition stats_cleared : list string :=\n  {S(cleared) if cleared else "nil"}.\n'
            f'(* from src/biogeme/results.py:{wp.lineno} bioResults.write_pickle *)\n'
            f'Definition pickle_name_attr : string := {coq_string(name_attr)}.\n'
            f'Definition pickle_ext : string := {coq_string(wb[0].value.args[1].value)}.\n')


def gen_results(ctx):
    """tie A (specialised extractor): attribute sets of _calculate_stats, write_pickle"""
    ctx.gen('Results', gen_results_text())



# ---------------------------------------------------------------------------- writer scan
SCAN_FILES = ['src/biogeme/results.py', 'src/biogeme/biogeme.py', 'src/biogeme/database.py']
# writers that are deliberately not "result / report / data-dump" writers
SCAN_EXEMPT = {('src/biogeme/biogeme.py', 'calculate_likelihood_and_derivatives'):
               'restart file __<model>.iter written to <name>.tmp then os.replace (property C15)'}
PATH_SINKS = {'to_csv', 'to_pickle', 'to_excel', 'to_json', 'to_html', 'to_latex', 'to_hdf', 'to_parquet',
              'to_feather', 'to_stata', 'savefig', 'save', 'savetxt', 'savez', 'write_text', 'write_bytes'}
MOVE_SINKS = {'os.rename', 'os.replace', 'shutil.copy', 'shutil.copyfile', 'shutil.copy2', 'shutil.move'}


def scan_writers():
    """Every call that creates / truncates a file in the scanned modules must receive a name that was
    assigned, in the same function, from get_new_file_name(...).  Returns the writer table
    [(file, function, base expression, extension)]; raises Untranslatable otherwise."""
    table = []
    for rel in SCAN_FILES:
        try:
            tree = ast.parse((REPO / rel).read_text())
        except Exception as e:  # noqa
            raise Untranslatable(f'{rel}: cannot parse: {e}')
        for fn in [n for n in ast.walk(tree) if isinstance(n, ast.FunctionDef)]:
            fresh = {}   # expression text -> (base, ext) assigned from get_new_file_name
            for n in ast.walk(fn):
                if isinstance(n, ast.Assign) and isinstance(n.value, ast.Call) and \
                        (_dotted(n.value.func) or '').split('.')[-1] == 'get_new_file_name' and len(n.value.args) == 2:
                    ext = n.value.args[1]
                    need(isinstance(ext, ast.Constant) and isinstance(ext.value, str), f'{rel}:{n.lineno}: extension is not a literal')
                    fresh[U(n.targets[0])] = (U(n.value.args[0]), ext.value)
            for n in ast.walk(fn):
                if not isinstance(n, ast.Call):
                    continue
                d = _dotted(n.func) or ''
                path = None
                if d == 'open' and n.args:
                    mode = n.args[1] if len(n.args) > 1 else next((k.value for k in n.keywords if k.arg == 'mode'), None)
                    if mode is None:
                        continue
                    need(isinstance(mode, ast.Constant), f'{rel}:{n.lineno}: open() with a computed mode')
                    if not any(c in str(mode.value) for c in 'wax+'):
                        continue
                    path = n.args[0]
                elif isinstance(n.func, ast.Attribute) and n.func.attr in PATH_SINKS:
                    cands = list(n.args[:1]) + [k.value for k in n.keywords if k.arg in ('path_or_buf', 'path', 'buf', 'fname', 'file')]
                    if not cands:
                        continue   # e.g. to_latex() returning a string
                    path = cands[0]
                elif d in MOVE_SINKS:
                    path = n.args[1] if len(n.args) > 1 else None
                    need(path is not None, f'{rel}:{n.lineno}: {d} without destination')
                else:
                    continue
                if (rel, fn.name) in SCAN_EXEMPT:
                    continue
                need(U(path) in fresh,
                     f'{rel}:{n.lineno} {fn.name}: file written under a name not obtained from get_new_file_name: {U(n)[:90]}')
                table.append((rel, fn.name, fresh[U(path)][0], fresh[U(path)][1]))
    need(len(table) >= 6, f'writer scan found only {len(table)} writers')
    return sorted(set(table))


def cand(name, ext, k):
    return f'{name}.{ext}' if k == 0 else f'{name}~{k - 1:02d}.{ext}'


def gen_name_cases(rng, n):
    cases = []
    bases = ['m', 'model', 'b_1', 'my model', 'a~00', 'x.y']
    exts = ['html', 'pickle', 'tex', 'F12', 'iter', 'log']
    for i in range(n):
        name, ext = rng.choice(bases), rng.choice(exts)
        kind = rng.random()
        files, dirs = set(), []
        if kind < 0.15:
            k = 0
        elif kind < 0.7:
            k = rng.randint(1, 6)
        elif kind < 0.9:
            k = rng.randint(7, 14)
        else:
            k = rng.choice([100, 101, 102, 105])  # beyond two digits: ~100, ~101 ...
        for j in range(k):
            files.add(cand(name, ext, j))
        # decoys after a gap, other bases/extensions, near-miss spellings
        for _ in range(rng.randint(0, 4)):
            files.add(cand(name, ext, k + rng.randint(1, 5)))
        for _ in range(rng.randint(0, 3)):
            files.add(cand(rng.choice(bases), rng.choice(exts), rng.randint(0, 3)))
        if k >= 1 and rng.random() < 0.3:
            files.add(f'{name}~{k - 1}.{ext}')  # unpadded spelling is a different file
        if rng.random() < 0.2:
            d = cand(name, ext, k)  # a directory with the candidate's name is not a file
            if d not in files:
                dirs.append(d)
        files = sorted(files - set(dirs))
        cases.append({'name': name, 'ext': ext, 'files': files, 'dirs': dirs})
    return cases


def coq_case(c, observed):
    fs = coq_list([coq_string(f) for f in c['files']])
    return f'({fs}, {coq_string(c["name"])}, {coq_string(c["ext"])}, {coq_string(observed)})'


def stream_names(ctx, only=None):
    st = ctx.stream('names', 'directories with 0-105 taken candidates, gaps, decoys of other bases/extensions, '
                    'unpadded near-misses and same-named directories; non-trivial = at least one candidate taken; '
                    'distinct by (files, dirs, name, ext)')
    cases = only if only is not None else gen_name_cases(ctx.sub_rng('names'), ctx.n(150, 3000))
    res = ctx.impl('c14_names.py', cases)
    items = []
    for c, r in zip(cases, res):
        st.record(c, nontrivial=cand(c['name'], c['ext'], 0) in c['files'])
        # property oracle, directly on the implementation
        if skipped(r):
            continue
        if not r['ok']:
            ctx.violation('C14/names/exception', 'get_new_file_name raised', c, 'a fresh name', r)
            continue
        if r['name'] in c['files']:  # (a same-named *directory* is not a file: open() would fail, nothing is replaced)
            ctx.violation('C14/names/not-fresh', 'get_new_file_name returned the name of an existing file',
                          c, 'a name that does not exist', r,
                          how='create the listed files in an empty directory and call get_new_file_name(name, ext)')
        if not r['unchanged']:
            ctx.violation('C14/names/side-effect', 'get_new_file_name changed the directory', c, None, r)
        items.append(coq_case(c, r['name']))
    if not items:
        return
    files = {}
    B = 250
    for i in range(0, len(items), B):
        chunk = items[i:i + B]
        files[f'names_{i // B}'] = (
            'From BV Require Import Model.PyBase Gen.Files.\nOpen Scope string_scope.\n'
            'Definition chk (c : list string * string * string * string) : bool :=\n'
            "  let '(fs, name, ext, obs) := c in\n"
            '  match get_new_file_name fs (S (List.length fs)) name ext with Some n => String.eqb n obs | None => false end.\n'
            'Definition mdl (c : list string * string * string * string) : string :=\n'
            "  let '(fs, name, ext, obs) := c in\n"
            '  match get_new_file_name fs (S (List.length fs)) name ext with Some n => "@R" ++ n | None => "@Rnone" end.\n'
            'Definition cases : list (list string * string * string * string) := ' + coq_list(chunk, ';\n') + '.\n'
            'Eval vm_compute in (List.map chk cases).\n'
        )
    outs = ctx.coq_eval_many(files)
    for k in sorted(files, key=lambda s: int(s.split('_')[1])):
        ok, out = outs[k]
        i0 = int(k.split('_')[1]) * B
        if not ok:
            ctx.stream_broken('names', 'model evaluation failed: ' + out[-600:])
            continue
        bs = parse_bools(out)
        n_here = len(items[i0:i0 + B])
        if len(bs) != n_here:
            ctx.stream_broken('names', f'could not parse model output ({len(bs)} results for {n_here} cases)')
            continue
        for j, b in enumerate(bs):
            if not b:
                c = cases[i0 + j]
                st.disagree(c, 'model (generated from source) differs', res[i0 + j])
    if st.disagreements:
        ctx.stream_broken('names', f'{len(st.disagreements)} disagreements, first: {st.disagreements[0]}')




# ---------------------------------------------------------------------------- Coq batch helper
def coq_check_batches(ctx, stream, st, prefix, header, chk_def, items, cases, results, B=200, ctype=None):
    """items[i]: Gallina term of case i; chk_def defines `chk : <case> -> bool`.  Records a
    disagreement for every case whose check evaluates to false."""
    if not items:
        return
    files = {}
    for i in range(0, len(items), B):
        files[f'{prefix}_{i // B}'] = (header + chk_def + 'Definition cases' + (f' : list ({ctype})' if ctype else '') + ' := ' +
                                       coq_list(items[i:i + B], ';\n') +
                                       '.\nEval vm_compute in (List.map chk cases).\n')
    outs = ctx.coq_eval_many(files)
    for k in sorted(files, key=lambda s: int(s.rsplit('_', 1)[1])):
        ok, out = outs[k]
        i0 = int(k.rsplit('_', 1)[1]) * B
        n_here = len(items[i0:i0 + B])
        if not ok:
            ctx.stream_broken(stream, 'model evaluation failed: ' + out[-600:])
            continue
        bs = parse_bools(out)
        if len(bs) != n_here:
            ctx.stream_broken(stream, f'could not parse model output ({len(bs)} results for {n_here} cases)')
            continue
        for j, b in enumerate(bs):
            if not b:
                st.disagree(cases[i0 + j], 'model (generated from source) differs', results[i0 + j])


def run_chunks(ctx, script, cases, nproc, wrap=None, timeout=1500):
    """run the implementation on `cases` split over nproc subprocesses (each pays the 2-3 s import of biogeme);
    returns the results in case order"""
    nproc = max(1, min(nproc, len(cases)))
    chunks = [cases[i::nproc] for i in range(nproc)]
    res_chunks = ctx.impl_parallel(script, [wrap(ch) if wrap else ch for ch in chunks], timeout=timeout)
    res = [None] * len(cases)
    for ci, rc in enumerate(res_chunks):
        if not isinstance(rc, list) or len(rc) != len(chunks[ci]):
            raise RuntimeError(f'{script}: malformed result for chunk {ci}: {str(rc)[:200]}')
        for j, r in enumerate(rc):
            res[ci + nproc * j] = r
    return res


def skipped(r):
    """the runner gave up after repeated timeouts: this case was not evaluated (the timeouts themselves are reported)"""
    m = (r.get('fatal') or r) if isinstance(r, dict) else {}
    return str((m or {}).get('msg', '')).startswith('skipped after')


def finish_stream(ctx, name, st):
    if st.disagreements:
        d = st.disagreements[0]
        ctx.stream_broken(name, f'{len(st.disagreements)} disagreements, first: ' + json.dumps(d, default=str)[:1500])


def is_ascii(s):
    return all(32 <= ord(c) < 127 for c in s)


SOB = ('Fixpoint sob (l : list nat) : string := match l with nil => EmptyString | cons n r => '
       'String (Ascii.ascii_of_nat n) (sob r) end.\n')


def cstr(s):
    """Gallina string for arbitrary text (UTF-8 bytes); needs SOB in the header when not printable ASCII"""
    if is_ascii(s):
        return coq_string(s)
    return '(sob [' + '; '.join(str(b) for b in s.encode('utf-8')) + ']%nat)'


# ---------------------------------------------------------------------------- stream backup
def py_splitext(p):
    """posixpath.splitext, re-implemented for the case generator only"""
    sep = p.rfind('/')
    dot = p.rfind('.')
    if dot > sep:
        i = sep + 1
        while i < dot:
            if p[i] != '.':
                return p[:dot], p[dot:]
            i += 1
    return p, ''


def bcand(target, k):
    r, e = py_splitext(target)
    return f'{r}_{k}{e}'


BACKUP_TARGETS = ['m.html', 'model.pickle', 'a.tar.gz', 'noext', '.hidden', '..x', 'x.', 'sub.d/file',
                  'sub.d/f.txt', 'my file.txt', 'a~00.html', 'b_1.txt', '...', 'dir.v2/.rc', 'p.q.r', '_1']


def gen_backup_cases(rng, n):
    cases = []
    for i in range(n):
        t = BACKUP_TARGETS[i % len(BACKUP_TARGETS)] if i < 2 * len(BACKUP_TARGETS) else rng.choice(BACKUP_TARGETS)
        present = rng.random() < 0.85
        kind = rng.random()
        k = 0 if kind < 0.2 else rng.randint(1, 6) if kind < 0.85 else rng.choice([9, 10, 11, 12])
        files, dirs = set(), set()
        if present:
            files.add(t)
        for j in range(1, k + 1):
            (dirs if rng.random() < 0.1 else files).add(bcand(t, j))
        for _ in range(rng.randint(0, 3)):
            files.add(bcand(t, k + 1 + rng.randint(1, 4)))          # beyond a gap
        for _ in range(rng.randint(0, 3)):
            files.add(bcand(rng.choice(BACKUP_TARGETS), rng.randint(1, 3)))
        if rng.random() < 0.3 and k >= 1:
            r, e = py_splitext(t)
            files.add(f'{r}_0{k}{e}')                                 # zero padded near-miss
        if rng.random() < 0.3:
            r, e = py_splitext(t)
            files.add(f'{r}~00{e}')
        if not present:
            files.discard(t)
        dirs -= files
        if '/' in t:
            dirs.add(t.split('/')[0])
        cases.append({'files': sorted(files), 'dirs': sorted(dirs), 'target': t, 'rename': rng.random() < 0.5})
    return cases


def stream_backup(ctx, n=None, with_model=True, only=None):
    st = ctx.stream('backup', 'create_backup on directories with 0-12 taken backup names (some taken by directories), gaps, '
                    'near-misses, targets with no / several / leading dots and sub-directories, absent targets; '
                    'non-trivial = target present and first backup name taken; distinct by case')
    cases = only if only is not None else gen_backup_cases(ctx.sub_rng('backup'), n or ctx.n(120, 2500))
    res = run_chunks(ctx, 'c14_backup.py', cases, ctx.n(2, 16))
    items, icases, ires = [], [], []
    for c, r in zip(cases, res):
        present = c['target'] in c['files']
        st.record(c, nontrivial=present and bcand(c['target'], 1) in (set(c['files']) | set(c['dirs'])))
        how = 'create the listed files/directories in an empty directory and call biogeme.tools.files.create_backup(target, rename)'
        if skipped(r):
            continue
        if not r.get('ok'):
            ctx.violation('C14/backup/exception', 'create_backup raised', c, 'a backup copy', r, how)
            continue
        before, after, ret, t = r['before'], r['after'], r['ret'], c['target']
        if not present:
            if ret is not None or before != after:
                ctx.violation('C14/backup/absent-side-effect', 'create_backup on a missing file changed the directory', c, 'nothing', r, how)
        else:
            bad = None
            if ret is None or ret in before:
                bad = 'backup name is not fresh'
            elif ret not in after or after[ret][0] != before[t][0]:
                bad = 'backup does not hold the original content'
            elif any(p not in after or after[p] != before[p] for p in before if p != t):
                bad = 'another file changed'
            elif set(after) - set(before) != {ret}:
                bad = 'unexpected new files'
            elif c['rename'] and t in after:
                bad = 'original still present after rename'
            elif not c['rename'] and after.get(t) != before[t]:
                bad = 'original changed by copy'
            if bad:
                ctx.violation('C14/backup/' + bad.replace(' ', '-'), 'create_backup: ' + bad, c, 'fresh name holding the original content; nothing else changed', r, how)
        if with_model and all(is_ascii(p) for p in before) and (ret is None or is_ascii(ret)):
            fs = coq_list([coq_string(p) for p in sorted(before)])
            obs = 'None' if ret is None else f'(Some {coq_string(ret)})'
            items.append(f'({fs}, {coq_string(t)}, {coq_bool(c["rename"])}, {obs}, ({coq_string(r["splitext"][0])}, {coq_string(r["splitext"][1])}))')
            icases.append(c)
            ires.append({'ret': ret, 'splitext': r['splitext']})
    if with_model:
        chk = ('Definition chk (c : list string * string * bool * option string * (string * string)) : bool :=\n'
               "  let '(fs, t, rn, obs, sp) := c in\n"
               '  (let (a, b) := splitext t in String.eqb a (fst sp) && String.eqb b (snd sp)) &&\n'
               '  match create_backup fs (S (List.length fs)) t rn, obs with\n'
               '  | Some None, None => true\n'
               '  | Some (Some (FsRename a b, n)), Some o => rn && String.eqb a t && String.eqb b o && String.eqb n o\n'
               '  | Some (Some (FsCopy a b, n)), Some o => negb rn && String.eqb a t && String.eqb b o && String.eqb n o\n'
               '  | _, _ => false end.\n')
        coq_check_batches(ctx, 'backup', st, 'backup',
                          'From BV Require Import Model.PyBase Model.FsOps Gen.Backup.\nOpen Scope string_scope.\n',
                          chk, items, icases, ires,
                          ctype='list string * string * bool * option string * (string * string)')
    finish_stream(ctx, 'backup', st)


# ---------------------------------------------------------------------------- stream boolean
BOOL_BASE = ['True', 'true', 'Yes', 'yes', 'False', 'false', 'No', 'no', 'TRUE', 'FALSE', 'YES', 'NO', 'tRue', 'y', 'n',
             'on', 'off', '1', '0', '', ' ', 'True ', ' True', 'Truee', 'Tru', 'Fals', 'None', 'true\t', 'yes.', '"True"',
             'nO', 'yEs', 'T', 'F', 'TrueFalse', 'no no']


def stream_boolean(ctx, with_model=True, only=None):
    st = ctx.stream('boolean', 'parse_boolean on the accepted spellings, case / whitespace / prefix variants and random '
                    'mutations; every string is a distinct decision (all non-trivial); distinct by string')
    rng = ctx.sub_rng('boolean')
    cases = list(BOOL_BASE) if only is None else list(only)
    for _ in range(ctx.n(60, 600) if only is None else 0):
        s = rng.choice(BOOL_BASE[:8])
        m = rng.random()
        if m < 0.3:
            s = s.swapcase() if rng.random() < 0.5 else s.upper()
        elif m < 0.6:
            i = rng.randrange(len(s) + 1)
            s = s[:i] + rng.choice(' aeTFyn_-') + s[i:]
        elif m < 0.8 and len(s) > 1:
            i = rng.randrange(len(s))
            s = s[:i] + s[i + 1:]
        cases.append(s)
    res = ctx.impl('c14_toml.py', {'mode': 'boolean', 'cases': cases})
    items = []
    for s, r in zip(cases, res):
        st.record(s, nontrivial=True)
        if r[0] == 'e' and r[1] != 'BiogemeError':
            ctx.violation('C14/boolean/wrong-exception', 'parse_boolean raised something else than BiogemeError on an invalid spelling',
                          s, 'BiogemeError', r, 'biogeme.parameters.parse_boolean(<witness>)')
        obs = {'b': lambda: f'(Some {coq_bool(r[1])})', 'e': lambda: 'None'}.get(r[0], lambda: '(Some true)')()
        if r[0] == '?':
            st.disagree(s, 'a bool or BiogemeError', r)
        items.append(f'({cstr(s)}, {obs})')
    if with_model:
        chk = ('Definition chk (c : string * option bool) : bool :=\n'
               '  match parse_boolean (fst c), snd c with Some a, Some b => Bool.eqb a b | None, None => true | _, _ => false end.\n')
        coq_check_batches(ctx, 'boolean', st, 'boolean',
                          'From BV Require Import Model.PyBase Model.Params Gen.Params.\nOpen Scope string_scope.\n' + SOB,
                          chk, items, cases, res, B=400,
                          ctype='string * option bool')
    finish_stream(ctx, 'boolean', st)


# ---------------------------------------------------------------------------- stream history
T0 = 10 ** 18
HIST_MODELS = ['m', 'model_A', 'my model', 'a~00', 'x.y', 'b-1']
EXTS = {'write_html': 'html', 'write_latex': 'tex', 'write_f12': 'F12', 'write_pickle': 'pickle'}


def load_corpus(kind):
    out = []
    d = VERIF / 'corpus' / 'C14'
    if d.is_dir():
        for p in sorted(d.glob(kind + '_*.json')):
            try:
                out.append(json.loads(p.read_text())['case'])
            except Exception as e:  # noqa
                raise RuntimeError(f'unreadable corpus file {p}: {e}')
    return out


def f2h(x):
    return struct.pack('>d', float(x)).hex()


def h2f(h):
    return struct.unpack('>d', bytes.fromhex(h))[0]


def gen_history_case(rng, nops):
    M = rng.choice(HIST_MODELS)
    db = rng.choice(['tiny', 'data_1'])
    decoys = set()
    for ext in ('html', 'tex', 'F12', 'pickle'):
        k = rng.choice([0, 0, 1, 2, 3, 5])
        for j in range(k):
            decoys.add(cand(M, ext, j))
        if rng.random() < 0.3:
            decoys.add(cand(M, ext, k + rng.randint(1, 3)))
    for base, ext in ((f'{db}_dumped', 'dat'), (f'{db}p_flatten', 'csv'), (f'{M}_validation', 'pickle'),
                      (f'{M}_val_est_1', 'html'), (f'{M}_val_est_2', 'pickle')):
        for j in range(rng.choice([0, 0, 1, 2])):
            decoys.add(cand(base, ext, j))
    if rng.random() < 0.3:
        decoys.add('biogeme.toml')
    decoys |= {'x.txt', 'notes.md'}
    for t in (f'{M}.html', 'x.txt'):
        for j in range(1, rng.choice([0, 1, 3]) + 1):
            decoys.add(bcand(t, j))
    pool = (['write_html'] * 3 + ['write_latex'] * 2 + ['write_f12'] * 2 + ['write_pickle'] * 3 + ['estimate'] * 3 +
            ['recycle'] * 2 + ['params_dump'] + ['dump_on_file'] * 2 + ['flat_panel'] * 2 + ['backup'] * 3 + ['validate'])
    ops, constructed, validated, estimated = [], False, False, False
    for _ in range(nops):
        k = rng.choice(pool)
        if k in ('estimate', 'recycle', 'validate') and not constructed:
            ops.append({'op': 'construct'})
            constructed = True
        if k == 'validate':
            if validated:
                continue
            validated = True
            if not estimated:            # validate needs estimation results
                ops.append({'op': 'estimate'})
        if k in ('estimate', 'validate'):
            estimated = True
        op = {'op': k}
        if k == 'write_html':
            op['only_robust'] = rng.random() < 0.5
        if k == 'params_dump':
            op['file'] = rng.choice(['biogeme.toml', 'custom.toml'])
            op['draws'] = rng.randint(1, 10 ** 6)
        if k == 'backup':
            op['file'] = rng.choice([f'{M}.html', f'{M}.pickle', cand(M, 'html', 1), 'x.txt', 'nope.txt', f'{db}_dumped.dat'])
            op['rename'] = rng.random() < 0.5
        ops.append(op)
    K = rng.randint(1, 4)
    synth = {'model': M, 'names': [f'b_{i}' for i in range(K)], 'values': [f2h(rng.uniform(-3, 3)) for _ in range(K)],
             'seed': rng.randint(0, 10 ** 6), 'dbname': db}
    return {'model': M, 'dbname': db, 'decoys': sorted(decoys), 'synth': synth, 'ops': ops}


def is_iter(f):
    return (f.startswith('__') and f.endswith('.iter')) or f.endswith('.iter.tmp')


def model_pickles(M, names):
    return [f for f in names if f == M + '.pickle' or (f.startswith(M + '~') and f.endswith('.pickle'))]


def least_free(names, base, ext):
    k = 0
    while cand(base, ext, k) in names:
        k += 1
    return cand(base, ext, k)


def eval_history(ctx, st, case, r, items, imeta):
    """property oracle + expectations on one executed history; queues (fs, base, ext, observed) name checks"""
    how = ('in an empty directory create the decoy files, then run the operations in order '
           '(./check C14 --replay <this file>)')
    if skipped(r):
        return False
    if r.get('fatal'):
        ctx.violation('C14/history/fatal', 'the history could not be run', case, 'a completed history', r['fatal'], how)
        return False
    prev = r['init']
    pk_content = {}
    taken = False
    M, db = case['model'], case['dbname']
    for idx, s in enumerate(r['steps']):
        op, cur = s['op'], s['snap']
        k = op['op']
        files_prev = sorted(f for f in prev if prev[f][3] == 'f')
        changed = [f for f in prev if f in cur and (cur[f][0] != prev[f][0] or cur[f][1] != T0) and not is_iter(f)]
        gone = [f for f in prev if f not in cur and not is_iter(f)]
        new = sorted(f for f in cur if f not in prev and not is_iter(f))
        wit = {'case': case, 'step': idx, 'op': op}
        obs = {'changed': changed, 'gone': gone, 'new': new, 'ret': s['ret'], 'exc': s['exc']}
        allowed_change, allowed_gone = set(), set()
        if k == 'params_dump':
            allowed_change = {op['file']}           # configuration file named by the caller
        if k == 'backup' and op.get('rename', True) and op['file'] in prev:
            allowed_gone = {op['file']}
        # ---- the property, directly: nothing that existed is replaced or removed
        bad = [f for f in changed if f not in allowed_change] + [f for f in gone if f not in allowed_gone]
        if bad:
            ctx.violation(f'C14/history/overwrite/{k}', f'{k} replaced or removed existing file(s) {bad}', wit,
                          'every earlier file keeps its content', obs, how)
        if s['exc'] is not None:
            ctx.violation(f'C14/history/exception/{k}', f'{k} raised {s["exc"]["exc"]}', wit, 'the output is written', obs, how)
            prev = cur
            continue
        # ---- expectations (model): which new files, under which names
        exp = None
        if k in EXTS:
            exp = [(M, EXTS[k], s['ret'])]
        elif k == 'construct':
            if not set(new) <= {'biogeme.toml'}:
                st.disagree(wit, 'at most biogeme.toml is created', obs)
        elif k == 'estimate':
            exp = [(M, 'html', s['ret']['html']), (M, 'pickle', s['ret']['pickle'])]
            if s['ret']['pickle'] in cur:
                pk_content[cur[s['ret']['pickle']][0]] = s['ret']['betas']
        elif k == 'recycle':
            pk = model_pickles(M, files_prev)
            if pk:
                if new:
                    st.disagree(wit, 'recycling writes nothing', obs)
                # every pickle of this model in the directory has known estimates: decoys and write_pickle hold the
                # synthetic values, estimate() its own (tracked by content hash, so renames / copies do not matter)
                want = pk_content.get(prev[sorted(pk)[-1]][0], case['synth']['values'])
                saved = [pk_content.get(prev[f][0], case['synth']['values']) for f in pk]
                if s['ret']['betas'] not in saved:
                    ctx.violation('C14/history/recycle-differs', 'estimate(recycle=True) returns estimates that no saved '
                                  f'pickle of the model holds ({sorted(pk)})', wit, saved, s['ret'], how)
                elif s['ret']['betas'] != want:
                    st.disagree(wit, {'file': sorted(pk)[-1], 'betas': want}, s['ret'], 'recycled file is not the last candidate')
            else:
                # nothing to recycle: the model is estimated and saved as by estimate()
                exp = [(M, 'html', None), (M, 'pickle', None)]
                for f in model_pickles(M, new):
                    pk_content[cur[f][0]] = s['ret']['betas']
        elif k == 'validate':
            exp = []
            for i in (1, 2):
                exp += [(f'{M}_val_est_{i}', 'html', None), (f'{M}_val_est_{i}', 'pickle', None)]
            exp.append((f'{M}_validation', 'pickle', None))
        elif k == 'params_dump':
            if not set(new) <= {op['file']}:
                st.disagree(wit, 'only the named file is created', obs)
        elif k == 'dump_on_file':
            exp = [(f'{db}_dumped', 'dat', s['ret'])]
        elif k == 'flat_panel':
            exp = [(f'{db}p_flatten', 'csv', None)]
        elif k == 'backup':
            t = op['file']
            if t not in prev:
                if s['ret'] is not None or new:
                    st.disagree(wit, 'no backup of a missing file', obs)
            else:
                ret = s['ret']
                if ret is None or ret in prev or new != [ret] or cur[ret][0] != prev[t][0]:
                    ctx.violation('C14/history/backup', 'create_backup: the backup is not a fresh file holding the original content',
                                  wit, 'fresh name, same content', obs, how)
                if not op.get('rename', True) and (t not in cur or cur[t][0] != prev[t][0]):
                    ctx.violation('C14/history/backup-copy', 'create_backup(rename=False) changed the original', wit, None, obs, how)
                k2 = 1
                while bcand(t, k2) in prev:
                    k2 += 1
                if ret != bcand(t, k2):
                    st.disagree(wit, bcand(t, k2), obs, 'backup name')
        if isinstance(exp, list):
            pred = []
            for base, ext, ret in exp:
                n = least_free(set(files_prev), base, ext)
                pred.append(n)
                taken = taken or n != cand(base, ext, 0)
                observed = ret if ret is not None else (n if n in new else (new[0] if len(new) == 1 else '?'))
                if is_ascii(observed) and all(is_ascii(f) for f in files_prev):
                    items.append(coq_case({'files': files_prev, 'name': base, 'ext': ext}, observed))
                    imeta.append((wit, obs))
                if ret is not None and ret in prev:
                    ctx.violation(f'C14/history/not-fresh/{k}', f'{k} wrote under the existing name {ret}', wit, 'a new name', obs, how)
            if sorted(pred) != new:
                # each new result / report / dump file must be one of the predicted fresh names
                if any(f in prev for f in pred) or len(new) != len(pred):
                    st.disagree(wit, sorted(pred), obs, 'new files')
                else:
                    st.disagree(wit, sorted(pred), obs, 'names')
        prev = cur
    return taken


def stream_history(ctx, n=None, with_model=True, only=None):
    st = ctx.stream('history', 'histories of the real writers (write_html/latex/f12/pickle, BIOGEME(), estimate, estimate(recycle), '
                    'validate, Parameters.dump_file, dump_on_file, generate_flat_panel_dataframe(save_on_file), create_backup) in '
                    'directories with decoys; snapshot (sha256, mtime) after every operation; non-trivial = at least one '
                    'operation found its first candidate name taken; distinct by (decoys, operations)')
    rng = ctx.sub_rng('history')
    cases = load_corpus('history') if only is None else list(only)
    for _ in range((n or ctx.n(48, 800)) if only is None else 0):
        cases.append(gen_history_case(rng, rng.randint(*ctx.n((5, 10), (8, 25)))))
    res = run_chunks(ctx, 'c14_history.py', cases, ctx.n(8, 16))
    items, imeta = [], []
    nsteps = 0
    for c, r in zip(cases, res):
        taken = eval_history(ctx, st, c, r, items, imeta)
        nsteps += len(r.get('steps', []))
        st.record({'decoys': c['decoys'], 'ops': c['ops'], 'model': c['model']}, nontrivial=bool(taken))
    st.extra['operations'] = nsteps
    st.extra['name_checks'] = len(items)
    if with_model:
        chk = ('Definition chk (c : list string * string * string * string) : bool :=\n'
               "  let '(fs, name, ext, obs) := c in\n"
               '  match get_new_file_name fs (S (List.length fs)) name ext with Some n => String.eqb n obs | None => false end.\n')
        coq_check_batches(ctx, 'history', st, 'history',
                          'From BV Require Import Model.PyBase Gen.Files.\nOpen Scope string_scope.\n',
                          chk, items, [m[0] for m in imeta], [m[1] for m in imeta],
                          ctype='list string * string * string * string')
    finish_stream(ctx, 'history', st)


# ---------------------------------------------------------------------------- stream toml
F_EXTREME = [1e-300, 0.1, 1 / 3, 5e-324, 2.2250738585072014e-308, 1.7976931348623157e308, 1e22, 1e16, 123456789.12345679,
             2.0 ** 53, 1e-5, 0.5, 1.0, 2.5e-8, 6.0221e23]
I_EXTREME = [1, 2, 7, 100, 99999, 2 ** 31 - 1, 2 ** 31, 2 ** 53 + 1, 2 ** 63 - 1, 2 ** 63, 2 ** 64, 10 ** 30]
S_ASCII = ['3.2.14', '', 'a"b', "a'b", 'back\\slash', 'hash # x', 'True', 'false', ' lead', 'trail ', '[Section]', 'k = v',
           '"' * 3, "'" * 3, '{x}', 'a,b;c', '~!@$%^&*()', '0', '1e5', 'x' * 200]
S_OTHER = ['new\nline', 'tab\there', 'unié中', '\x00', '\x7f', '\r', 'a\x1fb', '\U0001F600', 'carriage\r\nreturn']
KNOWN_CHECKS = {'is_number', 'zero_one', 'is_positive', 'is_non_negative', 'is_integer', 'check_algo_name', 'is_boolean'}
S_ALPHABET = 'abcXYZ019 _-.:/#"\'\\=[]'


def admissible_value(rng, prm, algos, mode):
    """a value of the declared type accepted by the parameter's checks"""
    ty, ch = prm['type'], set(prm['checks'])
    if ty == 'bool':
        return ['b', rng.random() < 0.5]
    if ty == 'str':
        if 'check_algo_name' in ch:
            return ['s', rng.choice(algos)]
        pool = S_ASCII + (S_OTHER if mode != 'ascii' else [])
        if rng.random() < 0.3:
            return ['s', ''.join(rng.choice(S_ALPHABET) for _ in range(rng.randint(0, 30)))]
        return ['s', rng.choice(pool)]
    lo_open = 'is_positive' in ch
    lo_closed = 'is_non_negative' in ch or 'zero_one' in ch
    if ty == 'int' or 'is_integer' in ch:
        if 'is_integer' not in ch and rng.random() < 0.3:       # e.g. missing_data: any number
            return ['f', f2h(rng.choice([99999.5, -1e10, 0.25, 1e-300]))]
        v = rng.choice(I_EXTREME) if rng.random() < 0.6 else rng.randint(0, 10 ** 6)
        if not (lo_open or lo_closed) and rng.random() < 0.3:
            v = -v
        if rng.random() < 0.1:
            v = 0
        if v == 0 and lo_open:
            v = 1
        return ['i', str(v)]
    # float
    if 'zero_one' in ch:
        v = rng.choice([0.0, 1.0, 1e-300, 0.1, 1 / 3, 0.5, math.nextafter(1.0, 0.0), 5e-324, rng.random()])
        if lo_open and v == 0.0:
            v = 1e-300
        if rng.random() < 0.15:
            return ['i', str(1 if lo_open else rng.choice([0, 1]))]
        return ['f', f2h(v)]
    r = rng.random()
    if r < 0.55:
        v = rng.choice(F_EXTREME)
    elif r < 0.85:
        v = math.ldexp(rng.random() + 0.5, rng.randint(-60, 60))
    elif r < 0.93:
        return ['i', str(rng.choice(I_EXTREME))]
    else:
        v = rng.choice([float('inf'), float('nan')]) if not (lo_open or lo_closed) else float('inf')
    if not (lo_open or lo_closed) and rng.random() < 0.3 and v == v:
        v = -v if v != 0 else -0.0
    return ['f', f2h(v)]


def coq_pvalue(t):
    k = t[0]
    if k == 'b':
        return f'(PBool {coq_bool(t[1])})'
    if k == 'i':
        return f'(PInt ({int(t[1])})%Z)'
    if k == 'f':
        return f'(PFloat ({int(t[1], 16)})%Z)'
    if k == 's':
        return f'(PStr {cstr(t[1])})'
    return '(PStr "?unknown")'


def stream_toml(ctx, n=None, with_model=True, only=None):
    st = ctx.stream('toml', 'admissible assignments of ALL parameters of default_parameters.py (respecting each check function: '
                    'booleans, integers in range incl. > 2^64, floats incl. 1e-300, 0.1, 1/3, denormals, max, inf/nan where '
                    'allowed, every algorithm name, strings with quotes / escapes / unicode) dumped with dump_file and read by a '
                    'fresh Parameters; every value compared exactly (floats bit-for-bit); non-trivial = differs from the '
                    'defaults; distinct by assignment')
    rng = ctx.sub_rng('toml')
    desc = ctx.impl('c14_toml.py', {'mode': 'describe'})
    if 'params' not in desc:
        ctx.stream_broken('toml', 'cannot read the parameter table: ' + json.dumps(desc)[:300])
        return
    params, algos = desc['params'], desc['algorithms']
    unknown = sorted({c for prm in params for c in prm['checks']} - KNOWN_CHECKS)
    if unknown or any(prm['type'] not in ('bool', 'int', 'float', 'str') for prm in params):
        ctx.stream_broken('toml', f'parameter table uses checks / types unknown to the generator: {unknown}')
        return
    ctx.notes['parameters'] = len(params)
    cases = load_corpus('toml')

    def assignment(fn):
        return [{'name': prm['name'], 'section': prm['section'], 'v': fn(prm)} for prm in params]

    if only is not None:
        cases = list(only)
    else:
        cases.append(assignment(lambda prm: prm['default'][:2]))
        for b in (True, False):
            cases.append(assignment(lambda prm: ['b', b] if prm['type'] == 'bool' else prm['default'][:2]))
    for _ in range((n or ctx.n(60, 1200)) if only is None else 0):
        mode = 'ascii' if rng.random() < 0.8 else 'any'
        cases.append(assignment(lambda prm: admissible_value(rng, prm, algos, mode)
                                if rng.random() < 0.85 else prm['default'][:2]))
    res = run_chunks(ctx, 'c14_toml.py', cases, ctx.n(2, 16), wrap=lambda ch: {'mode': 'roundtrip', 'cases': ch})
    items, icases, ires = [], [], []
    how = 'Parameters(); set_value for every entry of the witness; dump_file(f); Parameters().read_file(f); compare get_value'
    dflt_of = {(prm['name'], prm['section']): prm['default'][:2] for prm in params}
    for c, r in zip(cases, res):
        st.record(c, nontrivial=any(a['v'][:2] != dflt_of.get((a['name'], a['section'])) for a in c))
        if skipped(r):
            continue
        if not r.get('ok'):
            stage = {None: 'set_value', 'set': 'dump_file', 'dump': 'read_file', 'read': 'get_value'}.get(r.get('stage'), 'run')
            ctx.violation(f'C14/toml/{stage}-failed', f'an admissible parameter set could not be written / read back ({stage}): '
                          f'{r.get("exc")}: {r.get("msg")}', c, 'the same values', r, how)
            continue
        bad = [(a['name'], a['v'][:2], got[:2]) for a, got in zip(c, r['values']) if a['v'][:2] != got[:2]]
        if bad:
            ctx.violation('C14/toml/value-changed/' + bad[0][0], f'parameter(s) read back with another value: {bad[:3]}', c,
                          [a['v'] for a in c], r['values'], how)
        if with_model and [(a['name'], a['section']) for a in c] == [(prm['name'], prm['section']) for prm in params]:
            items.append('(' + coq_list([coq_pvalue(a['v']) for a in c]) + ',\n ' + coq_list([coq_pvalue(v) for v in r['values']]) + ')')
            icases.append(c)
            ires.append(r['values'])
    if with_model and items:
        TY = {'bool': 'TyBool', 'int': 'TyInt', 'float': 'TyFloat', 'str': 'TyStr'}
        dflt = coq_list([f'mkParam {coq_string(prm["name"])} {coq_string(prm["section"])} {TY[prm["type"]]} '
                         f'{coq_pvalue(prm["default"])} (fun _ => true)' for prm in params], ';\n  ')
        header = ('From BV Require Import Model.PyBase Model.Params Gen.Params Proofs.ParamsP.\nOpen Scope string_scope.\n' + SOB +
                  f'Definition defaults : pdict :=\n  {dflt}.\n'
                  'Definition with_values (d : pdict) (vs : list pvalue) : pdict :=\n'
                  '  map (fun pv => mkParam (p_name (fst pv)) (p_section (fst pv)) (p_type (fst pv)) (snd pv) (p_check (fst pv))) (combine d vs).\n'
                  'Definition pv_eqb (a b : pvalue) : bool := match a, b with\n'
                  '  | PBool x, PBool y => Bool.eqb x y | PInt x, PInt y => Z.eqb x y | PFloat x, PFloat y => Z.eqb x y\n'
                  '  | PStr x, PStr y => String.eqb x y | _, _ => false end.\n'
                  'Fixpoint all2 (l1 l2 : list pvalue) : bool := match l1, l2 with\n'
                  '  | nil, nil => true | cons a r1, cons b r2 => pv_eqb a b && all2 r1 r2 | _, _ => false end.\n')
        chk = ('Definition chk (c : list pvalue * list pvalue) : bool :=\n'
               '  match imp_doc (rev (gen_doc (with_values defaults (fst c)))) defaults with\n'
               '  | Some d => all2 (map p_value d) (snd c) | None => false end.\n')
        coq_check_batches(ctx, 'toml', st, 'toml', header, chk, items, icases, ires, B=40,
                          ctype='list pvalue * list pvalue')
    finish_stream(ctx, 'toml', st)


# ---------------------------------------------------------------------------- streams reports / pickle
R_NAMES = ['b_1', 'b-2', 'beta_time_2', 'asc-car', 'B_COST', 'x9', 'p10', 'lambda', 'mu_nest-1', 'abcdefghij', 'abcdefghijk',
           'abcdefghij_2', 'long_name_over_10', 'a_very_long_parameter_name_exceeding_thirty_chars_1',
           'a_very_long_parameter_name_exceeding_thirty_chars_2', 'sigma_panel_0123456789', 'b', 'B', 'beta-with-many-dashes-in-it']
R_VALUES = [1.2345678, -0.000123, 0.0, 5000.3, 1e-5, 1234.5, 1e10, 123456.789, 9.996, 0.09996, -1.0, 1e-300, 999.5, -42.0,
            3.14159e-7, 2.5, 100000.0, 0.1, 1 / 3, -999.96, 1e5, 0.000999949, 12345.678e-20, 7.0]


def gen_result_spec(rng, model='rep'):
    K = rng.choice([1, 2, 2, 3, 4, 5, 6, 8])
    names = rng.sample(R_NAMES, K)
    values = [rng.choice(R_VALUES) if rng.random() < 0.7 else rng.uniform(-10, 10) * 10 ** rng.randint(-4, 4) for _ in range(K)]
    lb, ub = [None] * K, [None] * K
    if rng.random() < 0.4:
        for i in range(K):
            r = rng.random()
            if r < 0.3:
                lb[i] = f2h(values[i])            # active lower bound
            elif r < 0.5:
                ub[i] = f2h(values[i])
            elif r < 0.8:
                lb[i], ub[i] = f2h(values[i] - 5.0 - abs(values[i])), f2h(values[i] + 5.0 + abs(values[i]))
    return {'model': model, 'names': names, 'values': [f2h(v) for v in values], 'lb': lb, 'ub': ub,
            'n': rng.choice([20, 57, 1000]), 'seed': rng.randint(0, 10 ** 6),
            'bootstrap': rng.choice([0, 0, 0, 5, 12]), 'null': rng.random() < 0.7, 'notes': rng.choice([None, 'some notes'])}


def frac_of_text(t):
    t = t.strip()
    m = re.fullmatch(r'([+-]?)(\d+)(?:\.(\d*))?(?:[eE]([+-]?\d+))?', t)
    if not m:
        return None
    sign, ip, fp, ex = m.group(1), m.group(2), m.group(3) or '', int(m.group(4) or 0)
    v = Fraction(int(ip + fp), 10 ** len(fp)) * Fraction(10) ** ex
    return -v if sign == '-' else v


def printed_ok(text, value, digits):
    """text shows `value` rounded to `digits` significant digits: exact rational comparison,
    tolerance = half a unit of the last significant digit at the magnitude of the printed number"""
    p = frac_of_text(text)
    if p is None:
        return False
    v = Fraction(value)
    if p == 0:
        return abs(v) < Fraction(1, 10 ** 300) or v == 0
    e = 0
    a = abs(p)
    while a >= 10:
        a /= 10
        e += 1
    while a < 1:
        a *= 10
        e -= 1
    tol = Fraction(1, 2) * Fraction(10) ** (e - digits + 1)
    return abs(p - v) <= tol


def parse_reports(r):
    """-> dict of row lists [(label, value text)] per report + columns"""
    out = {}
    h = r['html']
    i = h.find('<h1>Estimated parameters</h1>')
    seg = h[i: h.find('</table>', i)] if i >= 0 else ''
    out['html_cols'] = re.findall(r'<th>(.*?)</th>', seg)[1:]
    out['html'] = [(m.group(1), re.findall(r'<td>(.*?)</td>', m.group(2))) for m in
                   re.finditer(r'<tr class=biostyle><td>(.*?)</td>((?:<td>.*?</td>)*)</tr>', seg)]
    la = r['latex']
    i = la.find('\\section{Parameter estimates}')
    j = la.find('\\end{tabular}', i)
    lines = [l for l in la[i:j].splitlines() if l.rstrip().endswith('\\\\')] if i >= 0 else []
    rows = [[c.strip() for c in l.rstrip()[:-2].split(' & ')] for l in lines]
    out['latex_cols'] = rows[0][1:] if rows else []
    out['latex'] = [(x[0], x[1:]) for x in rows[1:]]
    f = r['f12'].split('\n')
    out['f12'] = []
    for l in f[3:]:
        if l.startswith('  -1'):
            break
        out['f12'].append((l[5:15], l[15:17], l[18:].split()))
    out['str'] = []
    for l in r['str'].split('\n'):
        m = re.match(r'^(.{15,}?): ([^\[]*)(\[.*)?$', l)
        if m and not l.startswith('('):
            out['str'].append((m.group(1), m.group(2)))
    return out


def stream_reports(ctx, n=None, with_model=True, only=None):
    st = ctx.stream('reports', 'synthetic results (real RawResults / bioResults constructors) with 1-8 parameters whose names '
                    'contain _, -, digits, are longer than 10 and than 30 characters or share their first 10 characters; active '
                    'bounds, bootstrap, both only_robust settings; get_html / get_latex / get_f12 / str / short_summary / '
                    'get_estimated_parameters rendered and parsed back: every parameter listed, in order, with its value to the '
                    'printed precision; non-trivial = a name longer than 10 characters or a value printed in exponent notation; '
                    'distinct by (names, values, flags)')
    rng = ctx.sub_rng('reports')
    cases = load_corpus('reports') if only is None else list(only)
    for _ in range((n or ctx.n(64, 1600)) if only is None else 0):
        cases.append({'spec': gen_result_spec(rng), 'only_robust': rng.random() < 0.5, 'robust_std_err': rng.random() < 0.5})
    res = run_chunks(ctx, 'c14_reports.py', cases, ctx.n(4, 16), wrap=lambda ch: {'mode': 'reports', 'cases': ch})
    items, icases, ires = [], [], []
    how = ('build the results object from the witness spec (lib/impl/c14_fake.make_results) and render it: '
           './check C14 --replay <this file>')
    for c, r in zip(cases, res):
        sp = c['spec']
        names, values = sp['names'], [h2f(v) for v in sp['values']]
        st.record(c, nontrivial=any(len(nm) > 10 for nm in names) or any(v != 0 and not 1e-4 <= abs(v) < 1000 for v in values))
        if skipped(r):
            continue
        if not r.get('ok'):
            ctx.violation('C14/reports/exception', f'a report could not be generated: {r.get("exc")}: {r.get("msg")}', c, 'all reports', r, how)
            continue
        P = parse_reports(r)
        problems = []

        def check(kind, rows, label_of, digits, text_of):
            if [x[0] for x in rows] != [label_of(nm) for nm in names]:
                problems.append((kind, 'parameters listed', [label_of(nm) for nm in names], [x[0] for x in rows]))
                return
            for (lab, cells), v in zip(rows, values):
                t = text_of(cells)
                if t is None or not printed_ok(t, v, digits):
                    problems.append((kind + '-value', lab, repr(v), t))

        check('html', P['html'], lambda nm: nm, 3, lambda cells: cells[0] if cells else None)
        check('latex', P['latex'], lambda nm: nm, 3, lambda cells: cells[0] if cells else None)
        # F12 has a fixed-width label field: the label must be a non-empty prefix of the name (the exact width is
        # compared with the generated model below)
        f12rows = [(nm if (a.strip() and nm.startswith(a.strip())) else a, c3) for (a, _, c3), nm in zip(P['f12'], names)]
        f12rows += [(a, c3) for a, _, c3 in P['f12'][len(names):]]
        check('f12', f12rows, lambda nm: nm, 13, lambda cells: cells[0] if cells else None)
        check('str', P['str'], lambda nm: f'{nm:15}', 3, lambda cells: cells)
        tb = r['table']
        if tb['index'] != names or not tb['columns'] or tb['columns'][0] != 'Value' or \
                [row[0] for row in tb['values']] != sp['values']:
            problems.append(('table', 'index / Value column', names, tb['index']))
        if f'Nbr of parameters:\t\t{len(names)}\n' not in r['short'] or r['nparam'] != len(names):
            problems.append(('short', 'number of parameters', len(names), r['short'][:80]))
        for pr in problems:
            key = 'C14/reports/' + pr[0]
            if pr[0] == 'latex-value' and pr[3] and re.search(r'e[+-]?\d+\.0$|n\.0$|f\.0$', pr[3]):
                key = 'C14/reports/latex-malformed-number'
            ctx.violation(key, f'{pr[0]}: {pr[1]}: expected {str(pr[2])[:200]}, found {str(pr[3])[:200]}', c,
                          'every parameter listed with its value', {'problem': pr}, how)
        if with_model and all(is_ascii(nm) for nm in names):
            def active(i):
                v = Fraction(values[i])
                return any(b is not None and abs(v - Fraction(h2f(b))) <= Fraction(1, 10 ** 6) for b in (sp['lb'][i], sp['ub'][i]))
            aab = any(active(i) for i in range(len(names)))
            S = lambda l: coq_list([cstr(x) for x in l])
            items.append(f'({S(names)}, {coq_bool(aab)}, {coq_bool(c["only_robust"])}, {coq_bool(bool(sp["bootstrap"]))}, '
                         f'{coq_string(str(sp["bootstrap"]))}, ({S(P["html_cols"])}, {S(tb["columns"])}, {S([x[0] for x in P["html"]])}, '
                         f'{S([x[0] for x in P["latex"]])}), ({S([x[0].lstrip(" ") for x in P["f12"]])}, {S([x[0].rstrip(" ") for x in P["str"]])}))')
            icases.append(c)
            ires.append({'html_cols': P['html_cols'], 'f12': [x[0] for x in P['f12']]})
    if with_model:
        header = ('From BV Require Import Model.PyBase Model.FsOps Model.Reports Gen.Reports.\nOpen Scope string_scope.\n' + SOB +
                  'Fixpoint leq (a b : list string) : bool := match a, b with nil, nil => true\n'
                  '  | cons x r, cons y s => String.eqb x y && leq r s | _, _ => false end.\n'
                  'Fixpoint number {A} (k : nat) (l : list A) : list (A * nat) := match l with nil => nil | cons x r => cons (x, k) (number (S k) r) end.\n')
        chk = ('Definition chk (c : list string * bool * bool * bool * string * (list string * list string * list string * list string)\n'
               '                 * (list string * list string)) : bool :=\n'
               "  let '(names, aab, orb, boot, nb, (hcols, tcols, hnames, lnames), (flabels, snames)) := c in\n"
               '  let betas := number 0 names in\n'
               '  let T := gep_table fst aab orb boot nb betas in\n'
               '  let TF := gep_table fst aab false boot nb betas in\n'
               '  leq (map fst (gep_columns aab orb boot nb)) hcols && leq (map fst (gep_columns aab orb boot nb)) tcols &&\n'
               '  leq (map fst (html_rows T)) hnames && leq (map fst T) lnames &&\n'
               '  leq (map (fun r => fst (fst r)) (f12_rows TF)) flabels &&\n'
               '  leq (map (fun r => fst (fst r)) (str_rows fst betas)) snames.\n')
        coq_check_batches(ctx, 'reports', st, 'reports', header, chk, items, icases, ires, B=100,
                          ctype='list string * bool * bool * bool * string * (list string * list string * list string * list string) * (list string * list string)')
    finish_stream(ctx, 'reports', st)


def stream_pickle(ctx, n=None, only=None):
    st = ctx.stream('pickle', 'synthetic results (1-8 parameters, with / without bootstrap, Hessian, null log likelihood, bounds) '
                    'saved with write_pickle and re-loaded with bioResults(pickle_file=...), twice: every attribute of the raw '
                    'record compared exactly (floats and arrays bit-for-bit), all reports compared modulo the timestamp; '
                    'non-trivial = has a Hessian (statistics recomputed on load); distinct by spec')
    rng = ctx.sub_rng('pickle')
    cases = load_corpus('pickle') if only is None else list(only)
    for _ in range((n or ctx.n(48, 1200)) if only is None else 0):
        sp = gen_result_spec(rng, model=rng.choice(['pk', 'my model', 'a~00']))
        sp['hessian'] = rng.random() < 0.85
        cases.append({'spec': sp})
    res = run_chunks(ctx, 'c14_reports.py', cases, ctx.n(4, 16), wrap=lambda ch: {'mode': 'pickle', 'cases': ch})
    how = 'make_results(spec).write_pickle(); bioResults(pickle_file=name): ./check C14 --replay <this file>'
    for c, r in zip(cases, res):
        st.record(c, nontrivial=c['spec'].get('hessian', True))
        if skipped(r):
            continue
        if not r.get('ok'):
            ctx.violation('C14/pickle/exception', f'results could not be saved / re-loaded: {r.get("exc")}: {r.get("msg")}', c,
                          'the same results', r, how)
            continue
        if r['diff'] or r['diff2']:
            ctx.violation('C14/pickle/attribute-differs', f'attributes differ after re-loading: {(r["diff"] or r["diff2"])[:5]}', c,
                          'every estimate / statistic identical', r, how)
        if r['report_diff']:
            ctx.violation('C14/pickle/report-differs', f'reports differ after re-loading: {r["report_diff"]}', c, 'identical reports', r, how)
        if not r['fresh'] or r['name2'] == r['name']:
            ctx.violation('C14/pickle/not-fresh', 'write_pickle reused an existing name', c, 'a new name', r, how)
        if not r['threshold_equal']:
            st.disagree(c, 'same identification threshold', r)
    finish_stream(ctx, 'pickle', st)


# ---------------------------------------------------------------------------- stream params (histories on one object)
BOOL_SPELL = {True: ['True', 'true', 'Yes', 'yes'], False: ['False', 'false', 'No', 'no']}


def toml_literal(rng, tagv):
    """TOML text of a tagged value for a hand-written parameter file (no string escapes needed: only simple strings)"""
    k = tagv[0]
    if k == 'b':
        return '"' + rng.choice(BOOL_SPELL[tagv[1]]) + '"'
    if k == 'i':
        return tagv[1]
    if k == 'f':
        x = h2f(tagv[1])
        return repr(x) if ('.' in repr(x) or 'e' in repr(x) or 'n' in repr(x)) else repr(x) + '.0'
    return '"' + tagv[1] + '"'


def safe_value(rng, prm, algos):
    """admissible value that a BIOGEME object can actually use (seed < 2^32, a few threads, few draws ...)"""
    ty, ch = prm['type'], set(prm['checks'])
    if ty == 'bool':
        return ['b', rng.random() < 0.5]
    if ty == 'str':
        return ['s', rng.choice(algos)] if 'check_algo_name' in ch else ['s', rng.choice(['3.2.14', 'v-1', 'x y'])]
    if ty == 'int' or 'is_integer' in ch:
        return ['i', str(rng.randint(1, 4) if prm['name'] == 'number_of_threads' else rng.randint(1, 500))]
    if 'zero_one' in ch:
        return ['f', f2h(rng.choice([1.0, 0.5, 0.25, 1 / 3, rng.uniform(0.01, 1.0)]))]
    return ['f', f2h(rng.choice([1e-5, 0.1, 1 / 3, 2.5, 1.25e-9, rng.uniform(1e-6, 10.0)]))]


def simple_value(rng, prm, algos, safe=False):
    """admissible value whose TOML spelling needs no escaping"""
    if safe:
        return safe_value(rng, prm, algos)
    for _ in range(50):
        v = admissible_value(rng, prm, algos, 'ascii')
        if v[0] != 's' or re.fullmatch(r'[A-Za-z0-9_.\- ]*', v[1]):
            return v
    return prm['default'][:2]


def coq_tvalue_of_file(tagv, text):
    k = tagv[0]
    if k == 'b':
        return f'(TStr {coq_string(text.strip(chr(34)))})'
    if k == 'i':
        return f'(TInt ({int(tagv[1])})%Z)'
    if k == 'f':
        return f'(TFloat ({int(tagv[1], 16)})%Z)'
    return f'(TStr {cstr(tagv[1])})'


def gen_params_history(rng, params, algos, nops):
    entry = rng.choice(['parameters'] * 5 + ['biogeme_default', 'biogeme_default', 'biogeme_file', 'biogeme_object'])
    files = {}

    def handmade():
        chosen = rng.sample(params, rng.randint(1, 6))
        ent = []
        for prm in chosen:
            v = simple_value(rng, prm, algos, safe=entry != 'parameters')
            ent.append({'name': prm['name'], 'section': prm['section'], 'v': v, 'text': toml_literal(rng, v)})
        return ent

    if rng.random() < 0.6:
        files['first.toml'] = handmade()
    if entry == 'biogeme_default' and rng.random() < 0.5:
        files['biogeme.toml'] = handmade()
    case = {'entry': entry, 'files': files, 'ops': []}
    if entry == 'biogeme_file':
        case['parameter_file'] = rng.choice(['first.toml', 'mine.toml'])
    names = ['first.toml', 'second.toml', 'third.toml', 'biogeme.toml', 'mine.toml']
    kinds = ['set'] * 5 + ['dump'] * 3 + ['read'] * 3
    for i in range(nops):
        k = rng.choice(kinds)
        if k == 'set':
            prm = rng.choice(params)
            op = {'op': 'set', 'name': prm['name'], 'section': prm['section'],
                  'v': admissible_value(rng, prm, algos, 'ascii') if entry == 'parameters' else safe_value(rng, prm, algos)}
            if entry != 'parameters' and rng.random() < 0.5:
                op['via'] = 'property'
            case['ops'].append(op)
        else:
            case['ops'].append({'op': k, 'file': rng.choice(names)})
    if rng.random() < 0.8:
        case['ops'].append({'op': 'dump', 'file': rng.choice(names + ['last.toml'])})
    return case


def stream_params(ctx, n=None, with_model=True, only=None):
    st = ctx.stream('params', 'histories on ONE Parameters object (plain, or held by a BIOGEME object built with the default file / a '
                    'named file / a Parameters object): read_file of hand-written, previously dumped or missing files, set_value or '
                    'BIOGEME property setters with admissible values, dump_file onto new or existing names, in every order; after '
                    'every dump (and every file creation) a fresh object reads the file: every parameter must have the value the '
                    'dumping object holds; non-trivial = a dump after the object already held a document and a value was changed '
                    'since; distinct by history')
    rng = ctx.sub_rng('params')
    desc = ctx.impl('c14_toml.py', {'mode': 'describe'})
    if 'params' not in desc:
        ctx.stream_broken('params', 'cannot read the parameter table: ' + json.dumps(desc)[:300])
        return
    params, algos = desc['params'], desc['algorithms']
    if sorted({c for prm in params for c in prm['checks']} - KNOWN_CHECKS):
        ctx.stream_broken('params', 'parameter table uses checks unknown to the generator')
        return
    table = [{'name': prm['name'], 'section': prm['section']} for prm in params]
    index = {(prm['name'], prm['section']): i for i, prm in enumerate(params)}
    cases = load_corpus('params') if only is None else list(only)
    for _ in range((n or ctx.n(120, 2000)) if only is None else 0):
        cases.append(gen_params_history(rng, params, algos, rng.randint(2, 9)))
    for c in cases:
        c['table'] = table
    res = run_chunks(ctx, 'c14_toml.py', cases, ctx.n(4, 16), wrap=lambda ch: {'mode': 'history', 'cases': ch})
    how = ('run the operations of the witness in order on one Parameters object (entry says how it is obtained), then read the '
           'dumped file with a fresh Parameters(): ./check C14 --replay <this file>')
    items, icases, ires = [], [], []
    for c, r in zip(cases, res):
        wit = {k: v for k, v in c.items() if k != 'table'}
        if skipped(r):
            st.record(wit, nontrivial=False)
            continue
        if not r.get('ok'):
            st.record(wit, nontrivial=False)
            ctx.violation('C14/params/exception', f'the history could not be run: {r.get("exc")}: {r.get("msg")}', wit, 'a completed history', r, how)
            continue
        # ---- expected state, tracked independently of the implementation
        state = [prm['default'][:2] for prm in params]
        files = {fn: {(e['name'], e['section']): e['v'][:2] for e in ent} for fn, ent in c['files'].items()}
        has_doc, dirty, nontrivial = False, False, False

        def apply_file(fn):
            for key, v in files[fn].items():
                if key in index:
                    state[index[key]] = v

        if c['entry'] == 'biogeme_default':
            if 'biogeme.toml' in files:
                apply_file('biogeme.toml')
            else:
                files['biogeme.toml'] = {(t['name'], t['section']): v for t, v in zip(table, state)}
            has_doc = True
        elif c['entry'] == 'biogeme_file':
            fn = c['parameter_file']
            if fn in files:
                apply_file(fn)
            else:
                files[fn] = {(t['name'], t['section']): v for t, v in zip(table, state)}
            has_doc = True
        if [v[:2] for v in r['initial']] != state:
            st.disagree(wit, state, r['initial'], 'initial values')
        observed_rb, ok_model = [], True
        for i, (op, s) in enumerate(zip(c['ops'], r['steps'])):
            swit = dict(wit, step=i)
            if s['exc'] is not None:
                ctx.violation(f'C14/params/exception/{op["op"]}', f'{op["op"]} raised {s["exc"]["exc"]}: {s["exc"]["msg"][:120]}', swit,
                              'the operation succeeds (admissible values, valid files)', s, how)
                ok_model = False
                break
            writes = False
            if op['op'] == 'set':
                state[index[(op['name'], op['section'])]] = op['v'][:2]
                dirty = True
            elif op['op'] == 'read':
                if op['file'] in files:
                    apply_file(op['file'])
                else:
                    writes = True          # the file is created with the current values
                has_doc = True
            else:
                writes = True
            if writes:
                nontrivial = nontrivial or (has_doc and dirty)
                has_doc = True
                files[op['file']] = {(t['name'], t['section']): v for t, v in zip(table, state)}
            kept = [v[:2] for v in s['kept']]
            if kept != state:
                st.disagree(swit, state, kept, 'values held by the object')
            if 'readback' in s:
                rb = [v[:2] for v in s['readback']]
                observed_rb.append(s['readback'])
                if writes and rb != kept:
                    bad = [(t['name'], k_, b_) for t, k_, b_ in zip(table, kept, rb) if k_ != b_]
                    ctx.violation(f'C14/params/readback-differs/{op["op"]}',
                                  f'the file written by {op["op"]} (step {i}) does not hold the values of the object: {bad[:4]}', swit,
                                  kept, rb, how)
                elif not writes:
                    # an existing file read by the object and by a fresh object: same values for the keys of the file
                    want = dict(files[op['file']])
                    got = {(t['name'], t['section']): v for t, v in zip(table, rb)}
                    diff = [(k_, v) for k_, v in want.items() if k_ in index and got.get(k_) != v]
                    if diff:
                        st.disagree(swit, diff[:3], 'fresh read', 'existing file')
        st.record(wit, nontrivial=nontrivial)
        if with_model and ok_model and len(r['steps']) == len(c['ops']):
            fs = []
            for fn, ent in c['files'].items():
                doc = coq_list([f'(({coq_string(e["name"])}, {coq_string(e["section"])}), {coq_tvalue_of_file(e["v"], e["text"])})' for e in ent])
                fs.append(f'({coq_string(fn)}, {doc})')
            pre = []
            if c['entry'] == 'biogeme_default':
                pre = ['CRead "biogeme.toml"']
            elif c['entry'] == 'biogeme_file':
                pre = [f'CRead {coq_string(c["parameter_file"])}']
            ops = []
            for op in c['ops']:
                if op['op'] == 'set':
                    ops.append(f'CSet ({coq_string(op["name"])}, {coq_string(op["section"])}) {coq_pvalue(op["v"])}')
                elif op['op'] == 'dump':
                    ops.append(f'CDump {coq_string(op["file"])}')
                else:
                    ops.append(f'CRead {coq_string(op["file"])}')
            obs = coq_list([coq_list([coq_pvalue(v) for v in rb]) for rb in observed_rb], ';\n  ')
            items.append(f'({coq_list(fs)}, {len(pre)}%nat, {coq_list(pre + ops)},\n  {obs})')
            icases.append(wit)
            ires.append(observed_rb)
    if with_model and items:
        TY = {'bool': 'TyBool', 'int': 'TyInt', 'float': 'TyFloat', 'str': 'TyStr'}
        dflt = coq_list([f'mkParam {coq_string(prm["name"])} {coq_string(prm["section"])} {TY[prm["type"]]} '
                         f'{coq_pvalue(prm["default"])} (fun _ => true)' for prm in params], ';\n  ')
        header = ('From BV Require Import Model.PyBase Model.Params Gen.Params Proofs.ParamsP.\nOpen Scope string_scope.\n' + SOB +
                  f'Definition defaults : pdict :=\n  {dflt}.\n'
                  'Inductive cop := CSet (k : key) (v : pvalue) | CDump (f : string) | CRead (f : string).\n'
                  'Fixpoint assoc (f : string) (fs : list (string * tdoc)) : option tdoc := match fs with nil => None\n'
                  '  | cons (g, d) r => if String.eqb f g then Some d else assoc f r end.\n'
                  'Definition readback (doc : tdoc) : list pvalue := match imp_doc (rev doc) defaults with Some d => map p_value d | None => nil end.\n'
                  'Definition odump (o : pobj) := obj_dump encode_value dump_file_document o.\n'
                  '(* skip = number of leading reads done by the BIOGEME constructor (their read-back is not observed) *)\n'
                  'Fixpoint crun (ops : list cop) (skip : nat) (o : pobj) (fs : list (string * tdoc)) (acc : list (list pvalue)) : option (list (list pvalue)) :=\n'
                  '  match ops with nil => Some (rev acc)\n'
                  '  | cons (CSet k v) r => match obj_set o k v with Some o1 => crun r skip o1 fs acc | None => None end\n'
                  '  | cons (CDump f) r => match odump o with Some (o1, doc) => crun r (pred skip) o1 (cons (f, doc) fs) (match skip with O => cons (readback doc) acc | _ => acc end) | None => None end\n'
                  '  | cons (CRead f) r => match assoc f fs with\n'
                  '      | Some doc => match imp_doc doc (o_dict o) with Some d => crun r (pred skip) (mkObj d (Some doc)) fs (match skip with O => cons (readback doc) acc | _ => acc end) | None => None end\n'
                  '      | None => match odump o with Some (o1, doc) => crun r (pred skip) o1 (cons (f, doc) fs) (match skip with O => cons (readback doc) acc | _ => acc end) | None => None end\n'
                  '      end\n  end.\n'
                  'Definition pv_eqb (a b : pvalue) : bool := match a, b with\n'
                  '  | PBool x, PBool y => Bool.eqb x y | PInt x, PInt y => Z.eqb x y | PFloat x, PFloat y => Z.eqb x y\n'
                  '  | PStr x, PStr y => String.eqb x y | _, _ => false end.\n'
                  'Fixpoint all2 (l1 l2 : list pvalue) : bool := match l1, l2 with\n'
                  '  | nil, nil => true | cons a r1, cons b r2 => pv_eqb a b && all2 r1 r2 | _, _ => false end.\n'
                  'Fixpoint all22 (l1 l2 : list (list pvalue)) : bool := match l1, l2 with\n'
                  '  | nil, nil => true | cons a r1, cons b r2 => all2 a b && all22 r1 r2 | _, _ => false end.\n')
        chk = ('Definition chk (c : list (string * tdoc) * nat * list cop * list (list pvalue)) : bool :=\n'
               "  let '(fs, skip, ops, obs) := c in\n"
               '  match crun ops skip (mkObj defaults None) fs nil with Some rb => all22 rb obs | None => false end.\n')
        coq_check_batches(ctx, 'params', st, 'params', header, chk, items, icases, ires, B=30,
                          ctype='list (string * tdoc) * nat * list cop * list (list pvalue)')
    finish_stream(ctx, 'params', st)


GENERATORS = (('Files', gen_files), ('Backup', gen_backup), ('Params', gen_params), ('Reports', gen_reports),
              ('Results', gen_results))


def gen_all(ctx):
    for _, g in GENERATORS:
        g(ctx)


def run(ctx):
    ctx.assumptions += ASSUME
    ctx.trusted += [
        'tie A: translator /verif/lib/py2v (fail-closed) for filenames.get_new_file_name, tools.files.create_backup (with the '
        'side effects os.rename / shutil.copy rewritten into a returned effect value) and parameters.parse_boolean; specialised '
        'fail-closed ast extractors in lib/props/C14.py for the boolean coding of generate_document, the value branch of '
        'import_document, the row loops of get_estimated_parameters / get_html / get_f12 / __str__ / get_latex, the attribute '
        'sets of _calculate_stats and the writer scan (every open(.., "w")/to_csv/... of results.py, biogeme.py, database.py '
        'receives a name assigned from get_new_file_name); each generated definition is validated on this run against the '
        'implementation (streams names, backup, boolean, history, toml, reports: vm_compute of the generated definition vs real calls)',
        'the hand-written models Model/FsOps.v (directory, splitext, rename/copy), Model/Params.v (parameter dictionary, TOML '
        'document), Model/Reports.v (DataFrame.loc assignment), Model/Pickle.v (attribute dictionary) and the harness '
        '(generators, snapshotting by sha256 + mtime, parsers of the rendered reports)',
        'external code assumed, as Section hypotheses: tomlkit parse/dumps, pickle load/dump, pandas rendering, Python float '
        'formatting, OS rename/copy/open semantics',
    ]
    for name, g in GENERATORS:
        try:
            g(ctx)
        except Untranslatable as e:
            ctx.tie_broken('py2v:' + name, str(e))
    try:
        ctx.notes['writers'] = [list(t) for t in scan_writers()]
    except Untranslatable as e:
        ctx.tie_broken('scan:writers', str(e))
    ctx.build()
    streams = [stream_names, stream_backup, stream_boolean, stream_history, stream_toml, stream_params, stream_reports, stream_pickle]
    for f in streams:
        f(ctx)
    if ctx.broken and not ctx.violations:
        # failing-input search: something no longer checks; evaluate the property oracles on more inputs
        # (implementation only -- the model may be stale), the streams named in the broken items first
        names = ' '.join(b['name'] + ' ' + b['detail'][:200] for b in ctx.broken)
        order = sorted([stream_history, stream_reports, stream_pickle, stream_toml, stream_params, stream_backup],
                       key=lambda f: 0 if f.__name__.split('_')[1] in names.lower() else 1)
        saved = len(ctx.broken)
        for f in order:
            old = ctx.seed
            ctx.seed = f'{old}-search'
            try:
                f(ctx, n={'stream_history': ctx.n(96, 800), 'stream_reports': ctx.n(400, 3000), 'stream_pickle': ctx.n(150, 2000),
                          'stream_toml': ctx.n(200, 2000), 'stream_params': ctx.n(400, 3000), 'stream_backup': ctx.n(400, 4000)}[f.__name__],
                  **({} if f is stream_pickle else {'with_model': False}))
            finally:
                ctx.seed = old
            if ctx.violations:
                break
        del ctx.broken[saved:]


def replay(ctx, path):
    w = json.load(open(path))
    wit, key = w.get('witness'), w.get('key') or ''
    if not wit:
        print('replay: this file names an obligation/stream; re-run ./check C14')
        return 2
    parts = key.split('/')
    kind = parts[1] if len(parts) > 1 else 'names'
    fn = {'names': stream_names, 'backup': stream_backup, 'boolean': stream_boolean, 'history': stream_history,
          'toml': stream_toml, 'params': stream_params, 'reports': stream_reports, 'pickle': stream_pickle}.get(kind)
    if fn is None:
        print('replay: unknown witness kind ' + kind)
        return 2
    case = wit['case'] if kind == 'history' and 'case' in wit else wit
    fn(ctx, only=[case])
    bad = bool(ctx.violations)
    print(json.dumps({'key': key, 'still_fails': bad,
                      'violations': [{'key': v['key'], 'what': v['what'][:300]} for v in ctx.violations[:3]]}))
    import shutil
    shutil.rmtree(ctx.scratch, ignore_errors=True)
    return 1 if bad else 0
