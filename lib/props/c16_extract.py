"""C16, tie A: regenerate rocq/Gen/Config.v from /repo on every run.

  * `Configuration.get_string_id` and `Controller.modify_controller` go through py2v
    (modify_controller after inlining `self.set_index(e)` from the source of `Controller.set_index`
    and exposing the new `current_index` in the returned value).
  * `Configuration.selections` (setter), `__check_list_validity`, `from_string`, `from_dict`,
    `Controller.set_index` and the `the_modification` line of `modify_random_controllers` use
    constructs outside py2v (dict, set, try/except, raise inside for): a specialised fail-closed
    extractor compares the normalised AST of each function with the exact shape it knows how to
    translate and aborts (Untranslatable) on any difference.  Error-message text, docstrings,
    type annotations and logging are the only things ignored.
  * the two separator constants are read from the module and must be one-character strings.
"""
import ast
import copy

import py2v
from py2v import Untranslatable, External

CONF = 'src/biogeme/configuration.py'
CTRL = 'src/biogeme/controller.py'


# --------------------------------------------------------------------------- normalisation
class _Norm(ast.NodeTransformer):
    """Drop what cannot change behaviour on non-raising paths: annotations, docstrings; replace
    the *content* of error messages (assignments to error_msg, arguments of raised exceptions)
    by a placeholder."""

    def visit_FunctionDef(self, node):
        self.generic_visit(node)
        node.returns = None
        for a in node.args.args + node.args.kwonlyargs:
            a.annotation = None
        body = [s for s in node.body
                if not (isinstance(s, ast.Expr) and isinstance(s.value, ast.Constant) and isinstance(s.value.value, str))]
        node.body = body or [ast.Pass()]
        node.decorator_list = [d for d in node.decorator_list]
        return node

    def visit_AnnAssign(self, node):
        self.generic_visit(node)
        if node.value is None:
            return None
        return ast.Assign(targets=[node.target], value=node.value)

    def visit_Assign(self, node):
        self.generic_visit(node)
        if len(node.targets) == 1 and isinstance(node.targets[0], ast.Name) and node.targets[0].id == 'error_msg':
            node.value = ast.Constant(value='?')
        return node

    def visit_Raise(self, node):
        exc = node.exc
        name = None
        if isinstance(exc, ast.Call):
            name = ast.unparse(exc.func)
        elif exc is not None:
            name = ast.unparse(exc)
        return ast.Raise(exc=ast.Name(id=f'RAISE_{name}', ctx=ast.Load()), cause=None)


def normalised(fd: ast.FunctionDef) -> str:
    fd = _Norm().visit(copy.deepcopy(fd))
    ast.fix_missing_locations(fd)
    return ast.dump(fd, annotate_fields=True, include_attributes=False)


def expect(tr, qualname, template_src, which=None):
    """The function `qualname` of the loaded module must be, after normalisation, exactly the
    function written in `template_src`."""
    fd = find(tr, qualname, which)
    want = ast.parse(template_src).body[0]
    a, b = normalised(fd), normalised(want)
    if a != b:
        raise Untranslatable(
            f'{tr.filename}:{fd.lineno}: {qualname} no longer has the shape the C16 extractor translates.\n'
            f'--- expected (normalised)\n{ast.unparse(_Norm().visit(copy.deepcopy(want)))}\n'
            f'--- found (normalised)\n{ast.unparse(_Norm().visit(copy.deepcopy(fd)))}')
    return fd


def find(tr, qualname, which=None):
    """like Translator.find, but can pick the property getter/setter of a given name"""
    parts = qualname.split('.')
    body = tr.tree.body
    node = None
    for i, p in enumerate(parts):
        cands = [n for n in body if isinstance(n, (ast.FunctionDef, ast.ClassDef)) and n.name == p]
        if i == len(parts) - 1 and which is not None:
            cands = [n for n in cands if isinstance(n, ast.FunctionDef)
                     and any(ast.unparse(d) == which for d in n.decorator_list)]
        if len(cands) != 1:
            raise Untranslatable(f'{tr.filename}: {qualname}{"@" + which if which else ""}: found {len(cands)} definitions')
        node = cands[0]
        body = node.body
    if not isinstance(node, ast.FunctionDef):
        raise Untranslatable(f'{tr.filename}: {qualname} is not a function')
    return node


def module_str_constant(tr, name):
    vals = [n.value for n in tr.tree.body
            if isinstance(n, ast.Assign) and len(n.targets) == 1 and isinstance(n.targets[0], ast.Name)
            and n.targets[0].id == name]
    if len(vals) != 1 or not isinstance(vals[0], ast.Constant) or not isinstance(vals[0].value, str):
        raise Untranslatable(f'{tr.filename}: module constant {name} is not a single string literal')
    v = vals[0].value
    if len(v) != 1 or not (32 <= ord(v) < 127) or v == '"':
        raise Untranslatable(f'{tr.filename}: {name} = {v!r}: only one-character printable ASCII separators are modelled')
    return v


# --------------------------------------------------------------------------- templates
T_SETTER = '''
@selections.setter
def selections(self, the_list):
    self.__selections = sorted(the_list)
    self.__check_list_validity()
    self.string_id = self.get_string_id()
'''
G_SETTER = '''(* from {file}:{line} Configuration.selections (setter); None = BiogemeError *)
Definition set_selections (the_list : list (string * string)) : option (list (string * string) * string) :=
let self___selections := py_sorted_sel the_list in
match check_list_validity self___selections with
| None => None
| Some _ => let self_string_id := get_string_id self___selections in Some (self___selections, self_string_id)
end.
'''

T_CHECK = '''
def __check_list_validity(self):
    unique_items = set()
    for item in self.__selections:
        if item.controller in unique_items:
            error_msg = '?'
            raise excep.BiogemeError(error_msg)
        unique_items.add(item.controller)
'''
G_CHECK = '''(* from {file}:{line} Configuration.__check_list_validity; None = BiogemeError.
   The set `unique_items` is a list; only membership is observed. *)
Definition check_list_validity (self___selections : list (string * string)) : option unit :=
match List.fold_left (fun acc item => match acc with
   | None => None
   | Some unique_items => if str_mem (fst item) unique_items then None
                          else Some (unique_items ++ [fst item])%list
   end) self___selections (Some []) with
| None => None
| Some _ => Some tt
end.
'''

T_FROM_STRING = '''
@classmethod
def from_string(cls, string_id):
    terms = string_id.split(SEPARATOR)
    the_config = {}
    for term in terms:
        try:
            controller, selection = term.split(SELECTION_SEPARATOR)
        except ValueError as exc:
            error_msg = '?'
            raise excep.BiogemeError(error_msg)

        the_config[controller] = selection
    return cls.from_dict(the_config)
'''
G_FROM_STRING = '''(* from {file}:{line} Configuration.from_string; None = BiogemeError.
   `a, b = x.split(s)` raises ValueError unless the split has exactly two pieces. *)
Definition from_string (string_id : string) : option (list (string * string) * string) :=
let terms := py_split_s SEPARATOR string_id in
match List.fold_left (fun acc term => match acc with
   | None => None
   | Some the_config => match py_split_s SELECTION_SEPARATOR term with
                        | [controller; selection] => Some (dict_set the_config controller selection)
                        | _ => None
                        end
   end) terms (Some []) with
| None => None
| Some the_config => from_dict the_config
end.
'''

T_FROM_DICT = '''
@classmethod
def from_dict(cls, dict_of_selections):
    the_list = (
        SelectionTuple(controller=controller, selection=selection)
        for controller, selection in dict_of_selections.items()
    )
    return cls(selections=the_list)
'''
G_FROM_DICT = '''(* from {file}:{line} Configuration.from_dict (then __init__ -> the selections setter) *)
Definition from_dict (dict_of_selections : list (string * string)) : option (list (string * string) * string) :=
let the_list := List.map (fun '(controller, selection) => (controller, selection)) dict_of_selections in
set_selections the_list.
'''

T_INIT = '''
def __init__(self, selections=None):
    if selections is None:
        self.__selections = None
    else:
        self.selections = list(selections)
'''

T_SELTUPLE = '''
class SelectionTuple(NamedTuple):
    controller: str
    selection: str
'''

T_SET_INDEX = '''
def set_index(self, index):
    if index < 0 or index >= self.controller_size():
        error_msg = '?'
        raise BiogemeError(error_msg)

    self.current_index = index
    for catalog in self.controlled_catalogs:
        catalog.current_index = index
'''

T_CONTROLLER_SIZE = '''
def controller_size(self):
    return len(self.specification_names)
'''


T_MERGE = '''
def merge_controllers(target, source):
    known = {controller.controller_name: controller for controller in target}
    for controller in source:
        other = known.get(controller.controller_name)
        if other is not None and other is not controller:
            error_msg = '?'
            raise BiogemeError(error_msg)
        known[controller.controller_name] = controller
        target.add(controller)
'''
G_MERGE = '''(* from {file}:{line} merge_controllers; a Controller object is (name, identity), `a is not b`
   compares identities, a dict / set of controllers is a list (set membership = Controller.__eq__ =
   equality of names); the result is the mutated `target`; None = BiogemeError *)
Definition merge_controllers (target source : list (string * Z)) : option (list (string * Z)) :=
let known := List.fold_left (fun d controller => pdict_set d (fst controller) (snd controller)) target [] in
match List.fold_left (fun acc controller => match acc with
   | None => None
   | Some (known, target) =>
       let other := assoc (fst controller) known in
       if (match other with Some o => negb (o =? snd controller) | None => false end) then None
       else Some (pdict_set known (fst controller) (snd controller), obj_set_add target controller)
   end) source (Some (known, target)) with
| None => None
| Some (_, target) => Some target
end.
'''

T_GAC_EXPR = '''
def get_all_controllers(self):
    if not self.children:
        return set()
    all_controllers = set()
    for e in self.children:
        merge_controllers(all_controllers, e.get_all_controllers())
    return all_controllers
'''
T_GAC_CAT = '''
def get_all_controllers(self):
    all_controllers = {self.controlled_by}
    for e in self.children:
        merge_controllers(all_controllers, e.get_all_controllers())
    return all_controllers
'''
T_CTRL_EQ = '''
def __eq__(self, other):
    return self.controller_name == other.controller_name
'''
T_CTRL_HASH = '''
def __hash__(self):
    return hash(self.controller_name)
'''
T_CTRL_LT = '''
def __lt__(self, other):
    return self.controller_name < other.controller_name
'''
T_SET_CC = '''
def set_central_controller(self, the_central_controller=None):
    if the_central_controller is None:
        self.central_controller = CentralController(expression=self)
    else:
        self.central_controller = the_central_controller
    return self.central_controller
'''


def gen_config_text():
    tr = py2v.load(CONF)
    sep = module_str_constant(tr, 'SEPARATOR')
    selsep = module_str_constant(tr, 'SELECTION_SEPARATOR')
    if sep == selsep:
        raise Untranslatable('SEPARATOR and SELECTION_SEPARATOR coincide')
    # SelectionTuple must still be the 2-field named tuple (controller, selection)
    cls = [n for n in tr.tree.body if isinstance(n, ast.ClassDef) and n.name == 'SelectionTuple']
    if len(cls) != 1 or ast.dump(cls[0]) != ast.dump(ast.parse(T_SELTUPLE).body[0]):
        raise Untranslatable(f'{CONF}: SelectionTuple is not NamedTuple(controller: str, selection: str)')
    out = ['From Coq Require Import ZArith List String Ascii Bool.',
           'From BV Require Import Model.PyBase Model.Catalog.',
           'Import ListNotations.', 'Open Scope Z_scope.',
           f'Definition SEPARATOR : string := "{sep}"%string.',
           f'Definition SELECTION_SEPARATOR : string := "{selsep}"%string.']
    # ---- get_string_id through py2v
    tr.externals.update({
        '.controller': External(lambda t, node, args: (f'(fst {args[0][0]})', 'string')),
        '.selection': External(lambda t, node, args: (f'(snd {args[0][0]})', 'string')),
        '.join()': External(_join),
    })
    tr.attrs.update({
        'SEPARATOR': ('SEPARATOR', 'string'),
        'SELECTION_SEPARATOR': ('SELECTION_SEPARATOR', 'string'),
    })
    out.append(tr.function('Configuration.get_string_id', {'self.selections': 'list (string * string)'}, 'string'))
    # ---- template-matched functions
    for qual, tmpl, gal, which in [
        ('Configuration.__check_list_validity', T_CHECK, G_CHECK, None),
        ('Configuration.selections', T_SETTER, G_SETTER, 'selections.setter'),
        ('Configuration.from_dict', T_FROM_DICT, G_FROM_DICT, None),
        ('Configuration.from_string', T_FROM_STRING, G_FROM_STRING, None),
    ]:
        fd = expect(tr, qual, tmpl, which)
        out.append(gal.format(file=CONF, line=fd.lineno))
    expect(tr, 'Configuration.__init__', T_INIT)
    # the getter must return the private attribute
    g = find(tr, 'Configuration.selections', 'property')
    if normalised(g) != normalised(ast.parse('@property\ndef selections(self):\n    return self.__selections\n').body[0]):
        raise Untranslatable(f'{CONF}: Configuration.selections getter changed')

    # ---- controller.py
    tc = py2v.load(CTRL)
    expect(tc, 'Controller.set_index', T_SET_INDEX)
    expect(tc, 'Controller.controller_size', T_CONTROLLER_SIZE)
    out.append(modify_controller_text(tc))
    out.append(the_modification_text(tc))
    # ---- controller objects: names identify controllers
    for q, t in (('Controller.__eq__', T_CTRL_EQ), ('Controller.__hash__', T_CTRL_HASH), ('Controller.__lt__', T_CTRL_LT)):
        expect(tc, q, t)
    fd = expect(tc, 'merge_controllers', T_MERGE)
    out.append(G_MERGE.format(file=CTRL, line=fd.lineno))
    # both get_all_controllers must be the folds modelled by Model.Catalog.all_controllers, and the
    # central controller of a formula must stay its own (not handed down to sub-expressions)
    te = py2v.load('src/biogeme/expressions/base_expressions.py')
    expect(te, 'Expression.get_all_controllers', T_GAC_EXPR)
    expect(te, 'Expression.set_central_controller', T_SET_CC)
    tcat = py2v.load('src/biogeme/catalog.py')
    expect(tcat, 'Catalog.get_all_controllers', T_GAC_CAT)
    return '\n'.join(out) + '\n'


def _join(t, node, args):
    (sep, ts), (l, tl) = args
    if ts != 'string' or tl != 'list string':
        raise Untranslatable(f'join on {ts} / {tl}')
    return f'(String.concat {sep} {l})', 'string'


class _DropMsg(ast.NodeTransformer):
    """remove `error_msg = <text>` (only ever used as the argument of the raise that follows)"""

    def visit_Assign(self, node):
        if len(node.targets) == 1 and isinstance(node.targets[0], ast.Name) and node.targets[0].id == 'error_msg':
            return None
        return node


class _InlineSetIndex(ast.NodeTransformer):
    """`self.set_index(E)`  ->  the body of Controller.set_index with index := E (the loop over
    controlled_catalogs, whose shape was checked, only copies the index into attributes that
    Catalog.selected never reads).  `return X` -> `return (X, self.current_index)`."""

    def __init__(self, set_index_fd):
        self.body = [s for s in set_index_fd.body
                     if not (isinstance(s, ast.Expr) and isinstance(s.value, ast.Constant))
                     and not isinstance(s, ast.For)]
        self.body = [_DropMsg().visit(copy.deepcopy(s)) for s in self.body]

    def visit_Expr(self, node):
        v = node.value
        if isinstance(v, ast.Call) and ast.unparse(v.func) == 'self.set_index':
            if len(v.args) != 1 or v.keywords:
                raise Untranslatable('self.set_index called with an unexpected signature')
            arg = v.args[0]

            class Sub(ast.NodeTransformer):
                def visit_Name(s, n):
                    if n.id == 'index':
                        return copy.deepcopy(arg)
                    return n

            return [Sub().visit(copy.deepcopy(s)) for s in self.body]
        return node

    def visit_Return(self, node):
        return ast.Return(value=ast.Tuple(elts=[node.value, ast.parse('self.current_index', mode='eval').body],
                                          ctx=ast.Load()))


def modify_controller_text(tc):
    fd = tc.find('Controller.modify_controller')
    set_index = tc.find('Controller.set_index')
    new = _InlineSetIndex(set_index).visit(copy.deepcopy(fd))
    ast.fix_missing_locations(new)
    src = ast.unparse(new)
    t2 = py2v.Translator(src, CTRL + ':Controller.modify_controller[set_index inlined]')
    t2.externals['self.controller_size'] = External(lambda t, node, args: ('self_size', 'Z'))
    text = t2.function('modify_controller',
                       {'self.size': 'Z', 'self.current_index': 'Z', 'step': 'Z', 'circular': 'bool'},
                       '(Z * Z)', partial=True)
    return ('(* Controller.modify_controller: returns (number of modifications, new current_index);\n'
            '   None = BiogemeError raised by set_index *)\n' + text)


def the_modification_text(tc):
    """`the_modification = 1 if increase else 1` inside modify_random_controllers, and the loop
    that applies it with circular=True to every chosen controller."""
    fd = tc.find('CentralController.modify_random_controllers')
    assigns = [s for s in fd.body if isinstance(s, ast.Assign) and len(s.targets) == 1
               and isinstance(s.targets[0], ast.Name) and s.targets[0].id == 'the_modification']
    if len(assigns) != 1:
        raise Untranslatable(f'{CTRL}: modify_random_controllers: expected exactly one assignment to the_modification')
    loops = [s for s in fd.body if isinstance(s, ast.For)]
    want_loop = ast.parse(
        'for the_controller in selected_controllers:\n'
        '    self.dict_of_controllers[the_controller].modify_controller(step=the_modification, circular=True)\n').body[0]
    if len(loops) != 1 or ast.dump(loops[0]) != ast.dump(want_loop):
        raise Untranslatable(f'{CTRL}: modify_random_controllers: the loop applying the_modification changed')
    src = 'def the_modification(increase):\n    return ' + ast.unparse(assigns[0].value) + '\n'
    t2 = py2v.Translator(src, CTRL + f':{assigns[0].lineno} the_modification')
    return t2.function('the_modification', {'increase': 'bool'}, 'Z')
