"""C18 -- MDCEV forecasts solve the consumer problem and model pieces agree.

Proof side (rocq/Model/Mdcev.v, rocq/Gen/MdcevFormulas.v, rocq/Proofs/MdcevP.v, rocq/Properties/C18.v):
  * tie A: the twelve numeric one-alternative functions (utility / derivative / optimal consumption of
    GammaProfile, Translated, Generalized, NonMonotonic) are re-translated from /repo on every run by the
    specialised fail-closed extractor below; Proofs/MdcevP.v proves that each generated definition equals the
    closed form of Model/Mdcev.v on its domain, and the analytic theorems (derivative, inverse, concavity,
    KKT sufficiency, outside good) are about those closed forms.
  * tie B: streams `pieces`, `trees`, `forecast` against the implementation.
"""
import ast
import json
import math
import re
from fractions import Fraction
from pathlib import Path

from common import REPO, coq_list, parse_bools
from py2v import Untranslatable

ASSUME = [
    'consumptions are expenditures: the budget constraint of the code is sum_k x_k = B and prices enter inside u_k '
    '(the KKT lemma is proved for general prices p_k > 0; the code is the instance p_k = 1)',
    'the baseline utility V_k (and mu_k) of the row is a real number supplied by the expression engine '
    '(calculate_baseline_utility, lru_cache): a parameter of the formulas',
    'python float ** on a positive base is Rpower; np.exp/np.log are exp/ln; np.isclose(a,b) is '
    '|a-b| <= 1e-8 + 1e-5|b|; floating-point rounding is outside the theorems (streams use explicit tolerances)',
    'CPython iteration order of a set of ints (index_to_key) is an arbitrary duplicate-free list in the model',
    'bisection to a tolerance and SLSQP are numerical procedures: their convergence is checked on generated inputs '
    'only (partial); the theorems say that an (eps-)KKT point is (eps-)optimal',
]

SRC = {
    'gp': ('src/biogeme/mdcev/gamma_profile.py', 'GammaProfile'),
    'tr': ('src/biogeme/mdcev/translated.py', 'Translated'),
    'gn': ('src/biogeme/mdcev/generalized.py', 'Generalized'),
    'nm': ('src/biogeme/mdcev/non_monotonic.py', 'NonMonotonic'),
}
FUNCS = {
    'utility': ('utility_one_alternative', 'the_consumption'),
    'derivative': ('derivative_utility_one_alternative', 'the_consumption'),
    'optimal': ('optimal_consumption_one_alternative', 'dual_variable'),
}


# =============================================================================== tie A extractor
class X:
    """Specialised, fail-closed translator of the one-alternative numeric methods of the MDCEV classes.

    Every generated function has the uniform signature
        (is_og : bool) (scale price gamma : option R) (alpha V mu : R) (x eps : R) : res
    where `x` is the consumption (utility, derivative) or the dual variable (optimal consumption),
    `is_og` is the outcome of the test `the_id == self.outside_good_<index|key>` and
    res = Val r | Inf | Raise  (Model/Mdcev.v).  Unknown statement or expression shapes abort."""

    def __init__(self, prefix, path, cls):
        self.prefix = prefix
        self.path = path
        src = (REPO / path).read_text()
        self.tree = ast.parse(src)
        self.cls = None
        for n in self.tree.body:
            if isinstance(n, ast.ClassDef) and n.name == cls:
                self.cls = n
        if self.cls is None:
            raise Untranslatable(f'{path}: class {cls} not found')
        self.og_by_key = None
        self.consts = {}
        for n in self.tree.body:
            if isinstance(n, ast.Assign) and len(n.targets) == 1 and isinstance(n.targets[0], ast.Name) \
                    and n.targets[0].id == 'MAX_EXP_ARGUMENT':
                if ast.unparse(n.value) != 'np.log(np.finfo(dtype=float).max)':
                    raise Untranslatable(f'{path}: MAX_EXP_ARGUMENT is not log(max double): {ast.unparse(n.value)}')
                self.consts['MAX_EXP_ARGUMENT'] = 'MAX_EXP_ARGUMENT'

    def bad(self, node, why):
        raise Untranslatable(f'{self.path}:{getattr(node, "lineno", "?")}: {why}: {ast.unparse(node)[:120]}')

    def method(self, name):
        for n in self.cls.body:
            if isinstance(n, ast.FunctionDef) and n.name == name:
                for d in n.decorator_list:
                    if ast.unparse(d) != 'lru_cache':
                        self.bad(n, 'unexpected decorator')
                return n
        raise Untranslatable(f'{self.path}: method {name} not found')

    # ----------------------------------------------------------------- expressions (type R)
    def num(self, v, node):
        if isinstance(v, bool) or not isinstance(v, (int, float)):
            self.bad(node, 'constant is not a number')
        fr = Fraction(repr(v)) if isinstance(v, float) else Fraction(v)
        if fr.denominator == 1:
            return f'{fr.numerator}' if fr >= 0 else f'(-{-fr.numerator})'
        return f'({fr.numerator} / {fr.denominator})'

    def expr(self, e, env):
        if isinstance(e, ast.Constant):
            return self.num(e.value, e)
        if isinstance(e, ast.Name):
            if e.id in env and env[e.id][0] == 'R':
                return env[e.id][1]
            if e.id in self.consts:
                return self.consts[e.id]
            self.bad(e, f'name is not a real-valued local ({env.get(e.id)})')
        if isinstance(e, ast.BinOp):
            a, b = self.expr(e.left, env), self.expr(e.right, env)
            if isinstance(e.op, ast.Add):
                return f'({a} + {b})'
            if isinstance(e.op, ast.Sub):
                return f'({a} - {b})'
            if isinstance(e.op, ast.Mult):
                return f'({a} * {b})'
            if isinstance(e.op, ast.Div):
                return f'({a} / {b})'
            if isinstance(e.op, ast.Pow):
                return f'(Rpower {a} {b})'
            self.bad(e, 'operator')
        if isinstance(e, ast.UnaryOp) and isinstance(e.op, ast.USub):
            return f'(- {self.expr(e.operand, env)})'
        if isinstance(e, ast.IfExp):
            return f'(if {self.cond(e.test, env)} then {self.expr(e.body, env)} else {self.expr(e.orelse, env)})'
        if isinstance(e, ast.Call):
            f = ast.unparse(e.func)
            if e.keywords:
                self.bad(e, 'keyword arguments')
            if f == 'np.exp' and len(e.args) == 1:
                return f'(exp {self.expr(e.args[0], env)})'
            if f == 'np.log' and len(e.args) == 1:
                return f'(ln {self.expr(e.args[0], env)})'
            if f == 'min' and len(e.args) == 2:
                return f'(Rmin {self.expr(e.args[0], env)} {self.expr(e.args[1], env)})'
            # gamma.get_value() inside the branch where gamma is not None
            if isinstance(e.func, ast.Attribute) and e.func.attr == 'get_value' and not e.args \
                    and isinstance(e.func.value, ast.Name):
                n = e.func.value.id
                if n in env and env[n][0] == 'some':
                    return env[n][1]
                self.bad(e, 'get_value() on something that is not a non-None parameter expression')
            self.bad(e, 'call')
        self.bad(e, 'expression form')

    # ----------------------------------------------------------------- conditions (type bool)
    def cond(self, t, env):
        if isinstance(t, ast.BoolOp):
            op = '&&' if isinstance(t.op, ast.And) else '||'
            return '(' + f' {op} '.join(self.cond(v, env) for v in t.values) + ')'
        if isinstance(t, ast.Compare) and len(t.ops) == 1:
            l, r = t.left, t.comparators[0]
            # the_id == self.outside_good_index   (or _key after a repair)
            if isinstance(t.ops[0], ast.Eq) and ast.unparse(l) == 'the_id' and \
                    ast.unparse(r) in ('self.outside_good_index', 'self.outside_good_key'):
                by_key = ast.unparse(r) == 'self.outside_good_key'
                if self.og_by_key not in (None, by_key):
                    self.bad(t, 'inconsistent outside-good tests')
                self.og_by_key = by_key
                return 'is_og'
            # <option var> is None
            if isinstance(t.ops[0], ast.Is) and isinstance(r, ast.Constant) and r.value is None \
                    and isinstance(l, ast.Name) and l.id in env and env[l.id][0] == 'opt':
                return f'(is_none {env[l.id][1]})'
            if isinstance(t.ops[0], (ast.Eq, ast.NotEq)):
                c = f'(Reqb {self.expr(l, env)} {self.expr(r, env)})'
                return c if isinstance(t.ops[0], ast.Eq) else f'(negb {c})'
            self.bad(t, 'comparison')
        if isinstance(t, ast.Call) and ast.unparse(t.func) == 'np.isclose' and len(t.args) == 2 and not t.keywords:
            return f'(isclose_b {self.expr(t.args[0], env)} {self.expr(t.args[1], env)})'
        self.bad(t, 'condition form')

    # ----------------------------------------------------------------- statements
    def block(self, stmts, env):
        """Translate a statement list that must end in return/raise on every path; returns Gallina of type res."""
        if not stmts:
            raise Untranslatable(f'{self.path}: a path falls off the end of the function')
        s, rest = stmts[0], stmts[1:]
        if isinstance(s, ast.Expr) and isinstance(s.value, ast.Constant) and isinstance(s.value.value, str):
            return self.block(rest, env)  # docstring
        if isinstance(s, ast.Return):
            if s.value is None:
                self.bad(s, 'bare return')
            if ast.unparse(s.value) == 'np.inf':
                return 'Inf'
            return f'Val {self.expr(s.value, env)}'
        if isinstance(s, ast.Raise):
            return 'Raise'
        if isinstance(s, (ast.Assign, ast.AnnAssign)):
            if isinstance(s, ast.Assign):
                if len(s.targets) != 1:
                    self.bad(s, 'multiple targets')
                tgt, val = s.targets[0], s.value
            else:
                tgt, val = s.target, s.value
            if not isinstance(tgt, ast.Name) or val is None:
                self.bad(s, 'assignment target')
            name, v = tgt.id, ast.unparse(val)
            env = dict(env)
            if name == 'error_msg' and isinstance(val, (ast.JoinedStr, ast.Constant)):
                return self.block(rest, env)  # text of an exception message
            if v in ('self.calculate_baseline_utility(alternative_id=the_id, one_observation=one_observation)',):
                env[name] = ('R', 'V')
                return self.block(rest, env)
            if v == 'self.calculate_mu_utility(alternative_id=the_id, one_observation=one_observation)':
                env[name] = ('R', 'mu')
                return self.block(rest, env)
            if v == 'self.alpha_parameters[the_id].get_value()':
                env[name] = ('R', 'alpha')
                return self.block(rest, env)
            if v == 'self.gamma_parameters[the_id]':
                env[name] = ('opt', 'gamma')
                return self.block(rest, env)
            if v in ('1 if self.prices is None else self.prices[the_id].get_value()',
                     '1.0 if self.prices is None else self.prices[the_id].get_value()'):
                env[name] = ('R', 'pr')
                return f'let pr := match price with None => 1 | Some p => p end in\n  {self.block(rest, env)}'
            code = self.expr(val, env)
            self.fresh += 1
            fresh = f'{name}_{self.fresh}'
            env[name] = ('R', fresh)
            return f'let {fresh} := {code} in\n  {self.block(rest, env)}'
        if isinstance(s, ast.AugAssign):
            if ast.unparse(s) == 'epsilon /= self.scale_parameter.get_value()':
                self.bad(s, 'scale division outside its guard')
            self.bad(s, 'augmented assignment')
        if isinstance(s, ast.If):
            t = ast.unparse(s.test)
            # if self.scale_parameter is not None: epsilon /= self.scale_parameter.get_value()
            if t == 'self.scale_parameter is not None':
                if s.orelse or len(s.body) != 1 or \
                        ast.unparse(s.body[0]) != 'epsilon /= self.scale_parameter.get_value()':
                    self.bad(s, 'scale guard with an unexpected body')
                env = dict(env)
                old = env['epsilon'][1]
                env['epsilon'] = ('R', 'eps_s')
                return (f'let eps_s := match scale with Some s => {old} / s | None => {old} end in\n  '
                        f'{self.block(rest, env)}')
            # if gamma is None: <returns>   ; rest is the Some branch
            if isinstance(s.test, ast.Compare) and len(s.test.ops) == 1 and isinstance(s.test.ops[0], ast.Is) \
                    and isinstance(s.test.left, ast.Name) and env.get(s.test.left.id, ('', ''))[0] == 'opt' \
                    and ast.unparse(s.test.comparators[0]) == 'None' and not s.orelse:
                n = s.test.left.id
                env_none = dict(env)
                env_none[n] = ('none', None)
                env_some = dict(env)
                env_some[n] = ('some', 'g')
                return (f'match {env[n][1]} with\n  | None => ({self.block(s.body, env_none)})\n'
                        f'  | Some g => ({self.block(rest, env_some)})\n  end')
            if s.orelse:
                self.bad(s, 'if with else')
            c = self.cond(s.test, env)
            return f'if {c} then ({self.block(s.body, env)}) else\n  {self.block(rest, env)}'
        self.bad(s, 'statement form')

    def function(self, kind):
        pyname, xarg = FUNCS[kind]
        fn = self.method(pyname)
        args = [a.arg for a in fn.args.args]
        if args != ['self', 'the_id', xarg, 'epsilon', 'one_observation']:
            raise Untranslatable(f'{self.path}: {pyname} has signature {args}')
        env = {xarg: ('R', 'x'), 'epsilon': ('R', 'eps')}
        self.fresh = 0
        body = self.block(fn.body, env)
        return (f'(* from {self.path} {self.cls.name}.{pyname} *)\n'
                f'Definition {self.prefix}_{kind} (is_og : bool) (scale price gamma : option R) '
                f'(alpha V mu : R) (x eps : R) : res :=\n  {body}.\n')


LB_LOOP = ('for alternative_id in chosen_alternatives:\n'
           '    epsilon_alternative = epsilon[self.key_to_index[alternative_id]]\n'
           '    if self.scale_parameter is not None:\n'
           '        epsilon_alternative /= self.scale_parameter.get_value()\n'
           '    mu_utility = self.calculate_mu_utility(alternative_id=alternative_id, one_observation=one_observation)\n'
           '    mu_utility += epsilon_alternative\n'
           '    if mu_utility > lower_bound:\n'
           '        lower_bound = mu_utility')


def lower_bound_def(x):
    """lower_bound_dual_variable of one class -> Gallina (Rbar).  Two shapes only (fail closed): `return <const>` and
    the running maximum of mu_k + eps_k/scale over the chosen alternatives started at <init>; the chosen alternatives
    enter as the list of their (mu_k, eps_k) pairs (eps_k = epsilon[key_to_index[k]])."""
    fn = x.method('lower_bound_dual_variable')
    if fn.decorator_list:
        x.bad(fn, 'unexpected decorator')
    args = [a.arg for a in fn.args.args]
    if args != ['self', 'chosen_alternatives', 'one_observation', 'epsilon']:
        raise Untranslatable(f'{x.path}: lower_bound_dual_variable has signature {args}')
    body = [st for st in fn.body
            if not (isinstance(st, ast.Expr) and isinstance(st.value, ast.Constant) and isinstance(st.value.value, str))]

    def rbar(e):
        t = ast.unparse(e)
        if t == '-np.inf':
            return 'm_infty'
        if t == 'np.inf':
            return 'p_infty'
        if isinstance(e, ast.Constant) or (isinstance(e, ast.UnaryOp) and isinstance(e.op, ast.USub)
                                           and isinstance(e.operand, ast.Constant)):
            return f'(Finite {x.expr(e, {})})'
        x.bad(e, 'bound is neither a constant nor -np.inf')

    head = (f'(* from {x.path} {x.cls.name}.lower_bound_dual_variable ; l = [(mu_k, eps_k) for k in chosen_alternatives] *)\n'
            f'Definition {x.prefix}_lower_bound (scale : option R) (l : list (R * R)) : Rbar :=\n  ')
    if len(body) == 1 and isinstance(body[0], ast.Return) and body[0].value is not None:
        return head + rbar(body[0].value) + '.\n'
    if len(body) == 3 and isinstance(body[0], ast.Assign) and len(body[0].targets) == 1 \
            and ast.unparse(body[0].targets[0]) == 'lower_bound' and ast.unparse(body[1]) == LB_LOOP \
            and ast.unparse(body[2]) == 'return lower_bound':
        init = rbar(body[0].value)
        return (head + 'fold_left (fun (lower_bound : Rbar) (me : R * R) =>\n'
                '     let eps_s := match scale with Some s => snd me / s | None => snd me end in\n'
                '     let mu_utility := fst me + eps_s in\n'
                '     if Rbar_lt_dec lower_bound (Finite mu_utility) then Finite mu_utility else lower_bound)\n'
                f'    l {init}.\n')
    raise Untranslatable(f'{x.path}: lower_bound_dual_variable has an unexpected body: '
                         + ' ; '.join(ast.unparse(st)[:60] for st in body))


def gen_formulas_text():
    parts = ['From Coq Require Import Reals Bool List.\nFrom Coquelicot Require Import Rbar.\n'
             'From BV Require Import Model.Mdcev.\nOpen Scope R_scope.\n'
             '(* np.log(np.finfo(dtype=float).max) *)\n'
             'Definition MAX_EXP_ARGUMENT : R := ln ((2 - / 2 ^ 52) * 2 ^ 1023).\n']
    og = None
    for prefix, (path, cls) in SRC.items():
        x = X(prefix, path, cls)
        for kind in ('utility', 'derivative', 'optimal'):
            parts.append(x.function(kind))
        parts.append(lower_bound_def(x))
        if prefix == 'gp':
            og = x.og_by_key
    if og is None:
        raise Untranslatable('gamma_profile.py: the outside-good test of derivative_utility_one_alternative was not found')
    parts.append('(* does the test in GammaProfile.derivative_utility_one_alternative compare the label with the\n'
                 '   outside good\'s *label* (true) or with its *position* in index_to_key (false)? *)\n'
                 f'Definition gp_og_test_by_key : bool := {"true" if og else "false"}.\n')
    return '\n'.join(parts)


def gen_all(ctx):
    ctx.gen('MdcevFormulas', gen_formulas_text())


# =============================================================================== reference formulas (floats)
class Ref:
    """Closed forms of Model/Mdcev.v in double precision, used by the oracles with explicit tolerances."""

    def __init__(self, c, i):
        self.v = c['variant']
        z = c.get('z', 1.0)
        self.V = c['a'][i] + (0.0 if c['b'][i] is None else c['b'][i] * z)
        self.gamma = c['gamma'][i]
        self.alpha = None if c.get('alpha') is None else c['alpha'][i]
        self.p = 1.0 if (c.get('price') is None or self.v in 'TN') else c['price'][i]
        self.scale = c.get('scale')
        self.mu = None if c.get('mu') is None else c['mu'][i]

    def e(self, eps):
        return eps if self.scale is None else eps / self.scale

    def lo(self):
        """the utility is defined and differentiable for x > lo"""
        if self.gamma is None:
            return 0.0
        return -self.p * self.gamma if self.v in 'GZ' else -self.gamma

    def u(self, x, eps):
        e, g, p, a, V = self.e(eps), self.gamma, self.p, self.alpha, self.V
        if self.v == 'G':
            psi = math.exp(V + e)
            return psi * math.log(x / p) if g is None else psi * g * math.log(1 + x / (p * g))
        if self.v == 'T':
            psi = math.exp(V + e)
            return psi * (x + (0.0 if g is None else g)) ** a
        if self.v == 'Z':
            psi = math.exp(V + e)
            return psi * (x / p) ** a / a if g is None else psi * g * ((1 + x / (p * g)) ** a - 1) / a
        if g is None:
            return math.exp(V) * x ** a / a + (self.mu + e) * x
        return g * math.exp(V) * ((1 + x / g) ** a - 1) / a + (self.mu + e) * x

    def d(self, x, eps):
        e, g, p, a, V = self.e(eps), self.gamma, self.p, self.alpha, self.V
        if self.v == 'G':
            psi = math.exp(V + e)
            return psi / x if g is None else psi * g / (x + p * g)
        if self.v == 'T':
            return math.exp(V + e) * a * (x + (0.0 if g is None else g)) ** (a - 1)
        if self.v == 'Z':
            psi = math.exp(V + e)
            return psi * (x / p) ** (a - 1) / p if g is None else psi * (1 + x / (p * g)) ** (a - 1) / p
        if g is None:
            return math.exp(V) * x ** (a - 1) + self.mu + e
        return math.exp(V) * (1 + x / g) ** (a - 1) + self.mu + e

    def dmag(self, x, eps):
        """magnitude of the terms of d (for tolerances when terms cancel: NonMonotonic)"""
        if self.v != 'N':
            return abs(self.d(x, eps))
        return abs(self.d(x, eps) - self.mu - self.e(eps)) + abs(self.mu + self.e(eps))

    def d2(self, x, eps):
        """second derivative (negative)"""
        e, g, p, a, V = self.e(eps), self.gamma, self.p, self.alpha, self.V
        if self.v == 'G':
            psi = math.exp(V + e)
            return -psi / x ** 2 if g is None else -psi * g / (x + p * g) ** 2
        if self.v == 'T':
            return math.exp(V + e) * a * (a - 1) * (x + (0.0 if g is None else g)) ** (a - 2)
        if self.v == 'Z':
            psi = math.exp(V + e)
            if g is None:
                return psi * (a - 1) * (x / p) ** (a - 2) / p ** 2
            return psi * (a - 1) * (1 + x / (p * g)) ** (a - 2) / (p * p * g)
        if g is None:
            return math.exp(V) * (a - 1) * x ** (a - 2)
        return math.exp(V) * (a - 1) * (1 + x / g) ** (a - 2) / g

    def xopt(self, lam, eps):
        e, g, p, a, V = self.e(eps), self.gamma, self.p, self.alpha, self.V
        if self.v == 'G':
            psi = math.exp(V + e)
            return psi / lam if g is None else psi * g / lam - p * g
        if self.v == 'T':
            return (lam / (math.exp(V + e) * a)) ** (1 / (a - 1)) - (0.0 if g is None else g)
        if self.v == 'Z':
            r = (p * lam / math.exp(V + e)) ** (1 / (a - 1))
            return p * r if g is None else p * g * (r - 1)
        r = ((lam - self.mu - e) * math.exp(-V)) ** (1 / (a - 1))
        return r if g is None else g * (r - 1)

    def lam_min(self, eps):
        """admissible dual variables are > lam_min"""
        return self.mu + self.e(eps) if self.v == 'N' else 0.0

    def log_or_plain_tu(self, d, eps):
        """what transformed_utility(x) must be, given the marginal utility d = u'(x)"""
        return d - self.e(eps) if self.v == 'N' else math.log(d) - self.e(eps)


def isnum(v):
    return isinstance(v, float) and math.isfinite(v)


def close(a, b, rel, scale=0.0, abs_=1e-12):
    return abs(a - b) <= rel * max(abs(a), abs(b), scale) + abs_


# =============================================================================== generators
def r3(rng, lo, hi):
    """a double with few significant digits (exactly representable decimals are not needed: the value itself is sent)"""
    return float(f'{rng.uniform(lo, hi):.3g}')


def gumbel(rng):
    u = rng.random()
    u = min(max(u, 1e-9), 1 - 1e-9)
    return float(f'{-math.log(-math.log(u)):.6g}')


def set_order(labels):
    """CPython iteration order of set(dict_with_these_keys) -- what Mdcev.index_to_key will be (ints hash to
    themselves; the harness and the implementation run the same interpreter).  Only used to *aim* the generator;
    the order actually used is the one reported by the implementation."""
    return [k for k in set({k: None for k in labels})]


def gen_labels(rng, n, kind):
    if kind == 'canon0':
        return list(range(n))
    if kind == 'canon1':
        return list(range(1, n + 1))
    if kind == 'perm1':
        l = list(range(1, n + 1))
        rng.shuffle(l)
        return l
    pool = list(range(0, 41)) + [64, 100, 255, 256, 1000, 4096, 10 ** 6, -1, -7]
    while True:
        l = rng.sample(pool, n)
        if sorted(l) not in (list(range(n)), list(range(1, n + 1))):
            return l


def gen_model(rng, variant=None, n=None, outside=None, satiated=False):
    """satiated (NonMonotonic only): every mu_k is so negative that mu_k + eps_k/scale < 0 for most draws: the
    marginal utilities become negative at large consumption, so a budget beyond the satiation point forces a NEGATIVE
    dual variable (the budget constraint is an equality)"""
    v = variant or rng.choice('GTZN')
    n = n or rng.choice([2, 3, 3, 4, 5, 6])
    outside = rng.random() < 0.6 if outside is None else outside
    c = {'variant': v, 'z': r3(rng, 0.5, 2.0)}
    c['a'] = [r3(rng, -1.5, 1.5) for _ in range(n)]
    lin = rng.random() < 0.7
    c['b'] = [r3(rng, -0.5, 0.5) if lin else None for _ in range(n)]
    c['gamma'] = [r3(rng, 0.2, 8.0) for _ in range(n)]
    og = rng.randrange(n) if outside else None
    if og is not None:
        c['gamma'][og] = None
    c['og_pos_in_labels'] = og
    if v == 'T':
        c['alpha'] = [r3(rng, 0.08, 0.92) for _ in range(n)]
    elif v in 'ZN':
        c['alpha'] = [(r3(rng, 0.08, 0.92) if rng.random() < 0.75 else r3(rng, -1.5, -0.1)) for _ in range(n)]
    else:
        c['alpha'] = None
    c['price'] = [r3(rng, 0.3, 4.0) for _ in range(n)] if (v in 'GZ' and rng.random() < 0.6) else None
    c['scale'] = r3(rng, 0.4, 4.0) if rng.random() < 0.6 else None
    c['mu'] = [r3(rng, -0.8, 0.8) for _ in range(n)] if v == 'N' else None
    if v == 'N' and satiated:
        c['mu'] = [r3(rng, -5.0, -1.5) for _ in range(n)]
        if c['scale'] is not None:
            c['scale'] = r3(rng, 1.0, 4.0)
    c['pk'] = rng.choice(['numeric', 'beta'])
    return c


def with_labels(c, labels):
    d = dict(c)
    d['labels'] = list(labels)
    return d


def gen_points(rng, c, npts):
    pts = []
    n = len(c['a'])
    for _ in range(npts):
        i = rng.randrange(n)
        ref = Ref(c, i)
        og = c['gamma'][i] is None
        if not og and rng.random() < 0.15:
            x = 0.0
        else:
            x = r3(rng, 0.05, 30.0) if rng.random() < 0.8 else r3(rng, 30.0, 500.0)
        eps = gumbel(rng)
        room = x - ref.lo()
        h = float(f'{1e-4 * room:.3g}')
        # a dual variable in the admissible range, spread around u'(x') for some consumption x'
        xp = r3(rng, 0.01, 50.0)
        lam = ref.d(xp, eps) * r3(rng, 0.7, 1.4)
        if ref.v == 'N':
            lam = max(lam, ref.lam_min(eps) + 1e-3 * (abs(ref.lam_min(eps)) + 1))
        pts.append({'i': i, 'x': x, 'eps': eps, 'lam': float(lam), 'h': h})
    return pts


# =============================================================================== stream: pieces
def viol_key(c, kind):
    return f'C18/{kind}/{c["variant"]}'


def witness(c, **kw):
    w = {k: c.get(k) for k in ('variant', 'labels', 'a', 'b', 'z', 'gamma', 'alpha', 'price', 'scale', 'mu', 'pk',
                               'history')}
    w.update(kw)
    return w


def check_point(ctx, c, p, r, st):
    """property oracles for one (alternative, consumption, epsilon, dual variable); returns number of failures"""
    ref = Ref(c, p['i'])
    x, eps, lam, h = p['x'], p['eps'], p['lam'], p['h']
    lab = c['labels'][p['i']]
    bad = 0

    def fail(kind, what, expected, observed):
        nonlocal bad
        bad += 1
        ctx.violation(viol_key(c, 'pieces/' + kind), what,
                      witness(c, mode='pieces', point=p, alternative=lab), expected, observed,
                      how='./check C18 --replay <this file>')

    U, D = ref.u(x, eps), ref.d(x, eps)
    if ref.v == 'G' and r.get('d') == 'inf' and x == 0.0 and ref.gamma is not None:
        # GammaProfile.derivative_utility_one_alternative: `the_id == self.outside_good_index` (a position)
        bad += 1
        ctx.violation('C18/pieces/G/label-equals-outside-position',
                      'GammaProfile.derivative_utility_one_alternative returns +inf at zero consumption for an inside '
                      'good whose label equals the position of the outside good',
                      witness(c, mode='pieces', point=p, alternative=lab), D, 'inf',
                      how='./check C18 --replay <this file>')
        r = dict(r, d=D)
    for name in ('u', 'd', 'u_sym', 'd_sym', 'tu', 'x_opt'):
        if not isnum(r.get(name)):
            fail('not-a-number', f'{name} of alternative {lab} is not a finite number', 'a finite double', r.get(name))
            return bad
    umag = abs(U) + (abs((ref.mu + ref.e(eps)) * x) if ref.v == 'N' else 0.0)
    dmag = ref.dmag(x, eps)
    # numeric utility == symbolic utility (engine) == closed form
    if not close(r['u'], r['u_sym'], 1e-9, umag):
        fail('utility-symbolic', 'utility_one_alternative differs from the value of utility_expression_one_alternative',
             r['u_sym'], r['u'])
    if isnum(r.get('u_sym_py')) and not close(r['u'], r['u_sym_py'], 1e-9, umag):
        fail('utility-symbolic-python', 'utility_one_alternative differs from get_value() of '
             'utility_expression_one_alternative', r['u_sym_py'], r['u'])
    if isnum(r.get('u_sym_py')):
        st.extra['python_get_value_compared'] = st.extra.get('python_get_value_compared', 0) + 1
    if not close(r['u'], U, 1e-9, umag):
        fail('utility-closed-form', 'utility_one_alternative differs from the closed form of Model/Mdcev.v', U, r['u'])
    # derivative == engine gradient of the symbolic utility == closed form == central finite difference
    if not close(r['d'], r['d_sym'], 1e-9, dmag):
        fail('derivative-symbolic', 'derivative_utility_one_alternative differs from the analytical gradient of the '
             'symbolic utility w.r.t. the consumption', r['d_sym'], r['d'])
    if not close(r['d'], D, 1e-9, dmag):
        fail('derivative-closed-form', 'derivative_utility_one_alternative differs from the closed form', D, r['d'])
    if isnum(r.get('u_plus')) and isnum(r.get('u_minus')) and h > 0:
        fd = (r['u_plus'] - r['u_minus']) / (2 * h)
        # truncation h^2/6 |u'''| <= ~ (h/room)^2 * c * |d| with h/room = 1e-4 ; rounding 2^-52 |u| / h
        tol = 1e-5 * dmag + 64 * 2.0 ** -52 * (umag + abs(U)) / h + 1e-12
        if abs(fd - r['d']) > tol:
            fail('derivative-finite-difference', 'derivative_utility_one_alternative is not the derivative of '
                 'utility_one_alternative (central difference)', fd, r['d'])
    # transformed utility (estimation side) is the (log of the) marginal utility without the error term
    want = ref.log_or_plain_tu(r['d'], eps) if (ref.v == 'N' or r['d'] > 0) else None
    if want is not None and x > 0 and not close(r['tu'], want, 1e-9, abs(want) + abs(ref.e(eps)) + 1):
        fail('transformed-utility', 'transformed_utility(x) + eps differs from '
             + ('u\'(x)' if ref.v == 'N' else 'log u\'(x)'), want, r['tu'])
    # the closed-form optimal consumption inverts the derivative
    XO = ref.xopt(lam, eps)
    lmag = abs(lam) + (abs(ref.mu + ref.e(eps)) if ref.v == 'N' else 0.0)
    if not close(r['x_opt'], XO, 1e-9, abs(XO) + abs(ref.lo())):
        fail('optimal-closed-form', 'optimal_consumption_one_alternative differs from the closed form', XO, r['x_opt'])
    if not isnum(r.get('d_at_opt')) or not close(r['d_at_opt'], lam, 1e-8, lmag):
        fail('inverse', 'derivative at optimal_consumption_one_alternative(lambda) is not lambda', lam, r.get('d_at_opt'))
    return bad


def stream_pieces(ctx):
    st = ctx.stream('pieces', 'four variants x outside/inside good x prices x scale x Numeric/Beta parameters, labels that '
                    'are not 0..n-1/1..n, consumption in {0} u [0.05,500], Gumbel draws, dual variable around u\'(x\'); '
                    'non-trivial = inside good with x>0 or outside good (all formula branches are exercised); '
                    'distinct by (model, point)')
    rng = ctx.sub_rng('pieces')
    nmod = ctx.n(64, 1600)
    cases = []
    for j in range(nmod):
        c = gen_model(rng, variant='GTZN'[j % 4])
        c = with_labels(c, gen_labels(rng, len(c['a']), rng.choice(['odd', 'odd', 'perm1', 'canon0'])))
        c['points'] = gen_points(rng, c, 8)
        cases.append(c)
    cases = corpus_cases('pieces') + cases
    chunks = [cases[i::16] for i in range(16)]
    chunks = [ch for ch in chunks if ch]
    res = ctx.impl_parallel('c18_mdcev.py', [{'mode': 'pieces', 'cases': ch} for ch in chunks])
    nbad = 0
    for ch, rs in zip(chunks, res):
        for c, r in zip(ch, rs):
            if 'points' not in r:
                ctx.violation(viol_key(c, 'pieces/build'), 'the model could not be built', witness(c), 'a model', r)
                nbad += 1
                continue
            for p, pr in zip(c['points'], r['points']):
                st.record({'model': witness(c), 'point': p}, nontrivial=True)
                nbad += check_point(ctx, c, p, pr, st)
    st.extra['oracle_failures'] = nbad
    return nbad


# =============================================================================== stream: forecast
def collide_labels(rng, n, og_pos):
    """labels such that a label of an *inside* good equals the position of the outside good in index_to_key"""
    for _ in range(200):
        kind = rng.choice(['perm1', 'odd', 'canon1'])
        l = gen_labels(rng, n, kind)
        order = set_order(l)
        og_index = order.index(l[og_pos])
        if og_index in l and og_index != l[og_pos]:
            return l
    return None


def sol_check(ctx, c, eps_lab, B, sol, imp_u, imp_d, tol, key_kind, what_prefix, extra_w):
    """The property oracle on one forecast (label -> consumption).  Returns (ok, info)."""
    labels = c['labels']
    n = len(labels)
    refs = [Ref(c, i) for i in range(n)]
    xs = []
    fails = []
    for i, k in enumerate(labels):
        v = sol.get(str(k))
        if not isnum(v):
            fails.append(('not-a-number', f'consumption of alternative {k} is {v!r}', 'a finite number', v))
            xs.append(None)
        else:
            xs.append(v)
    if fails:
        return fails, None
    scaleB = max(1.0, abs(B))
    # 1. non-negativity
    for i, k in enumerate(labels):
        if xs[i] < -1e-9 * scaleB:
            fails.append(('negative', f'negative consumption of alternative {k}', '>= 0', xs[i]))
    og = [i for i in range(n) if c['gamma'][i] is None]
    # 5. outside good consumed
    for i in og:
        if not xs[i] > 0:
            fails.append(('outside-good', f'the outside good {labels[i]} is not consumed', '> 0', xs[i]))
    if fails:
        return fails, None
    cons = [i for i in range(n) if xs[i] > 0]
    d = [refs[i].d(xs[i], eps_lab[i]) if (xs[i] > 0 or c['gamma'][i] is not None) else float('inf') for i in range(n)]
    mags = [refs[i].dmag(xs[i], eps_lab[i]) if (xs[i] > 0 or c['gamma'][i] is not None) else 0.0 for i in range(n)]
    if not cons:
        fails.append(('budget', 'nothing is consumed', B, 0.0))
        return fails, None
    ds = sorted(d[i] for i in cons)
    lam = ds[len(ds) // 2]
    # 2. budget: |sum - B| <= slack ; the bisection stops on (ub-lb) <= tol_dual or |sum-B| <= tol_budget, the
    #    sensitivity of the total to the dual variable is S = sum 1/|u_k''|
    S = sum(1.0 / abs(refs[i].d2(xs[i], eps_lab[i])) for i in cons)
    tot = math.fsum(xs)
    # (the loop may also stop on the budget criterion at a wide bracket and then return a *different* dual variable --
    #  known finding stale-dual; on random inputs this exceeds E with probability ~ tol_budget / E, hence E >= 1e7 tol)
    tolB = max(1e-6, 1e7 * tol[1]) * scaleB + 8 * S * max(tol[0], 2.0 ** -48 * abs(lam))
    if abs(tot - B) > tolB:
        fails.append(('budget', 'the budget is not exhausted', B, tot))
    # 3. equal marginal utility on the consumed goods
    eps_kkt = 0.0
    for i in cons:
        t = 1e-7 * max(abs(lam), mags[i], 1e-300)
        gap = d[i] - lam
        if abs(gap) > t:
            fails.append(('marginal-utility', f'marginal utility of the consumed good {labels[i]} differs from the others',
                          lam, d[i]))
        eps_kkt = max(eps_kkt, abs(gap))
    # 4. not consumed: marginal utility at zero not above lambda
    for i in range(n):
        if i not in cons:
            t = 1e-7 * max(abs(lam), mags[i], 1e-300)
            if d[i] > lam + t:
                fails.append(('complementarity', f'the good {labels[i]} is not consumed although its marginal utility '
                              'at zero exceeds the common marginal utility', f'<= {lam}', d[i]))
            eps_kkt = max(eps_kkt, d[i] - lam, 0.0)
    # 7. implementation's own pieces at the solution agree with the closed forms
    u = [refs[i].u(xs[i], eps_lab[i]) if (xs[i] > 0 or c['gamma'][i] is not None) else None for i in range(n)]
    if imp_u is not None:
        for i, k in enumerate(labels):
            iu, idv = imp_u.get(str(k)), imp_d.get(str(k))
            if u[i] is not None and (not isnum(iu) or not close(iu, u[i], 1e-9, abs(u[i]) + abs(xs[i]))):
                fails.append(('utility-at-solution', f'utility_one_alternative({k}) at the forecast differs from the '
                              'closed form', u[i], iu))
            if not (c['gamma'][i] is None and xs[i] == 0) and \
                    (not (isnum(idv) or idv == 'inf') or (isnum(idv) and not close(idv, d[i], 1e-9, mags[i]))
                     or (idv == 'inf')):
                fails.append(('derivative-at-solution', f'derivative_utility_one_alternative({k}) at the forecast '
                              f'(x={xs[i]}) differs from the closed form', d[i], idv))
    info = {'lam': lam, 'eps_kkt': eps_kkt, 'tot': tot, 'tolB': tolB, 'obj': math.fsum(v for v in u if v is not None),
            'umag': math.fsum(abs(v) for v in u if v is not None), 'xs': xs, 'd': d, 'n_consumed': len(cons)}
    return fails, info


def has_collision(c, r):
    """an inside good whose label equals the position of the outside good (GammaProfile's test confuses them)"""
    if r.get('og_index') is None:
        return False
    return any(k == r['og_index'] and k != r['og_key'] for k in c['labels'])


def check_forecast_case(ctx, c, r, st):
    nbad = 0

    def fail(kind, what, w, expected, observed):
        nonlocal nbad
        nbad += 1
        k = viol_key(c, 'forecast/' + kind)
        if c['variant'] == 'G' and has_collision(c, r) and kind in (
                'exception', 'marginal-utility', 'complementarity', 'derivative-at-solution', 'negative', 'budget',
                'relabel', 'api-exception'):
            k = 'C18/forecast/G/label-equals-outside-position/' + kind
        if c.get('tag') == 'stale-dual' and kind in ('budget',):
            k = 'C18/forecast/stale-dual-after-budget-stop'
        ctx.violation(k, what, w, expected, observed, how='./check C18 --replay <this file>')

    if 'draws' not in r:
        fail('build', 'the model could not be built / run', witness(c), 'a model', r)
        return nbad, []
    val = r.get('validation')
    if val != []:
        # validation() tests x_opt(lambda = 10, eps = 0.01) in double precision with np.isclose: when x_opt is within
        # 1e-9 |lo| of the pole lo = -gamma (-price*gamma) the subtraction cancels >= 7 digits and its message is a
        # rounding artefact of the *test*, not a disagreement of the pieces -> excused
        left = []
        for msg in (val if isinstance(val, list) else [val]):
            m = re.match(r'Inconsistent dual variables for alt\. (-?\d+):', str(msg))
            if m and int(m.group(1)) in c['labels']:
                ref = Ref(c, c['labels'].index(int(m.group(1))))
                try:
                    room = ref.xopt(10.0, 0.01) - ref.lo()
                except (ValueError, OverflowError, ZeroDivisionError):
                    room = 0.0
                if ref.gamma is not None and room <= 1e-9 * abs(ref.lo()):
                    continue
            left.append(msg)
        if left:
            fail('validation', 'Mdcev.validation() reports inconsistencies', witness(c), [], left)
    B = r['budget']
    tol = c.get('tol') or [1e-13, 1e-13]
    infos = []
    for j, (eps_lab, dr) in enumerate(zip(c['draws'], r['draws'])):
        w = witness(c, mode='forecast', budget=B, draw=eps_lab, index_to_key=r.get('index_to_key'))
        bis = dr.get('bis')
        info = None
        if not isinstance(bis, dict) or 'exc' in bis:
            fail('exception', 'forecast_bisection_one_draw raised', w, 'a consumption vector', bis)
        elif not dr.get('bis_keys_ok'):
            fail('keys', 'forecast keys are not the alternative labels', w, sorted(c['labels']), sorted(bis))
        else:
            fails, info = sol_check(ctx, c, eps_lab, B, bis, dr.get('bis_u'), dr.get('bis_d'), tol, 'forecast', '', w)
            for kind, what, e, o in fails:
                fail(kind, 'forecast_bisection_one_draw: ' + what, dict(w, forecast=bis), e, o)
            if fails:
                info = None
            if info and isnum(dr.get('bis_sum_of_utilities')) and \
                    not close(dr['bis_sum_of_utilities'], info['obj'], 1e-9, info['umag']):
                fail('sum-of-utilities', 'sum_of_utilities (position-indexed) differs from the sum over labels', w,
                     info['obj'], dr['bis_sum_of_utilities'])
        # 6. at least as good as brute force
        br = dr.get('brute')
        if info and isinstance(br, dict) and 'exc' not in br and \
                all(isnum(br.get(str(k))) for k in c['labels']):
            refs = [Ref(c, i) for i in range(len(c['labels']))]
            ys = [br[str(k)] for k in c['labels']]
            ok_dom = all((y > 0) if c['gamma'][i] is None else (y > refs[i].lo()) for i, y in enumerate(ys))
            if ok_dom:
                uy = [refs[i].u(y, eps_lab[i]) for i, y in enumerate(ys)]
                objy = math.fsum(uy)
                toty = math.fsum(ys)
                neg = sum(-y for y in ys if y < 0)
                # eps-KKT bound (theorem T18d_eps): sum u(y) <= sum u(x) + lam (sum y - sum x) + eps (sum y + sum x)
                dmax = max(abs(v) for v in info['d'] if math.isfinite(v))
                allow = abs(info['lam']) * abs(toty - info['tot']) + info['eps_kkt'] * (abs(toty) + abs(info['tot'])) \
                    + 2 * dmax * neg + 1e-9 * (info['umag'] + math.fsum(abs(v) for v in uy)) + 1e-12
                if objy > info['obj'] + allow:
                    fail('worse-than-brute-force', 'the bisection forecast has a lower total utility than the brute-force one',
                         dict(w, forecast=bis, brute_force=br), f'>= {objy} - {allow}', info['obj'])
                if info is not None:
                    info['brute_obj'] = objy
                    info['brute_tot'] = toty
        # comparison API: it must not cry wolf when both solutions agree
        if info and 'brute_obj' in info and dr.get('comparison') is not None:
            cmpr = dr['comparison']
            # np.isclose inside the comparison: |a - b| <= 1e-8 + 1e-5 |b| ; we only speak when well inside it
            agree = abs(info['brute_obj'] - info['obj']) <= 0.1 * (1e-8 + 1e-5 * abs(info['brute_obj'])) and \
                abs(info['brute_tot'] - info['tot']) <= 1e-7 * (1 + abs(B))
            order_differs = r['index_to_key'] != sorted(c['labels'])
            k = 'C18/comparison/sorted-label-vs-position-order' if order_differs else 'C18/comparison/other'
            if isinstance(cmpr, dict):
                nbad += 1
                ctx.violation(k, 'forecast_comparison_one_draw raised although both algorithms succeed',
                              dict(w, forecast=bis, brute_force=br), 'no exception', cmpr)
            elif agree and any('Difference between optimal utility' in m for m in cmpr):
                nbad += 1
                ctx.violation(k, 'forecast_comparison_one_draw reports different optimal utilities although the two '
                              'solutions have the same total utility (consumptions re-ordered by sorted label, utilities '
                              'indexed by position)', dict(w, forecast=bis, brute_force=br),
                              f'no warning (objectives {info["obj"]} vs {info["brute_obj"]})', cmpr)
        # HISTORY: the second use of a model object equals the only use of a fresh one
        if c.get('history') and isinstance(bis, dict) and 'exc' not in bis:
            fr = r.get('fresh')
            fj = fr[j] if isinstance(fr, list) and j < len(fr) else fr
            if isinstance(fj, dict) and 'exc' not in fj and all(isnum(fj.get(str(k))) and isnum(bis.get(str(k)))
                                                                for k in c['labels']):
                for k in c['labels']:
                    if abs(fj[str(k)] - bis[str(k)]) > 1e-6 * max(1.0, abs(B)):
                        fail('history', 'a model object already used on another data set (same database / row names, '
                             f'other covariates) forecasts alternative {k} differently from a fresh model object',
                             dict(w, forecast=bis, fresh_model_forecast=fj), fj[str(k)], bis[str(k)])
                        break
        infos.append(info)
    # 9. the public API on the same draws
    api = r.get('api')
    if api is not None:
        w = witness(c, mode='forecast-api', budget=B, draws=c['draws'])
        if 'exc' in api:
            fail('api-exception', 'Mdcev.forecast raised', w, 'a data frame', api)
        else:
            if api['columns'] != sorted(c['labels']):
                fail('api-columns', 'Mdcev.forecast: columns are not the sorted labels', w, sorted(c['labels']),
                     api['columns'])
            elif len(api['rows']) != len(c['draws']):
                fail('api-rows', 'Mdcev.forecast: one row per draw expected', w, len(c['draws']), len(api['rows']))
            else:
                for eps_lab, row in zip(c['draws'], api['rows']):
                    sol = {str(k): v for k, v in zip(api['columns'], row)}
                    fails, _ = sol_check(ctx, c, eps_lab, B, sol, None, None, [1e-10, 1e-10], 'api', '', w)
                    for kind, what, e, o in fails:
                        fail(kind, 'Mdcev.forecast: ' + what, dict(w, draw=eps_lab, forecast=sol), e, o)
    return nbad, infos


def gen_forecast_cases(ctx, rng, nmod):
    """groups of cases: the same model under several labelings (the first one is the canonical 0..n-1)"""
    groups = []
    for j in range(nmod):
        v = 'GTZN'[j % 4]
        # dual-sign regimes of NonMonotonic: every other N model is 'satiated' (see gen_model) with a budget that is
        # mostly beyond the satiation point -> negative dual variable; the others have dual variables of either sign
        sat = v == 'N' and (j // 4) % 2 == 0
        c = gen_model(rng, variant=v, satiated=sat)
        n = len(c['a'])
        nd = 3
        draws = [[gumbel(rng) for _ in range(n)] for _ in range(nd)]
        B = rng.choice([r3(rng, 0.05, 2.0), r3(rng, 2.0, 50.0), r3(rng, 50.0, 2000.0)])
        if sat:
            B = rng.choice([r3(rng, 0.05, 2.0), r3(rng, 5.0, 80.0), r3(rng, 5.0, 80.0), r3(rng, 80.0, 2000.0)])
        labelings = [gen_labels(rng, n, 'canon0'), gen_labels(rng, n, 'odd')]
        labelings.append(gen_labels(rng, n, rng.choice(['odd', 'perm1', 'canon1'])))
        if c['og_pos_in_labels'] is not None and (v == 'G' or rng.random() < 0.3):
            l = collide_labels(rng, n, c['og_pos_in_labels'])
            if l:
                labelings.append(l)
        g = []
        for li, l in enumerate(labelings):
            d = with_labels(c, l)
            d.update({'budget': B, 'draws': draws, 'brute': True, 'api': li == 1, 'comparison': li in (1, 2)})
            g.append(d)
        if c['b'][0] is not None:
            # HISTORY dimension: the model object is first used on data set A (z_A != z), then on this one
            d = with_labels(c, labelings[1])
            zA = float(f"{c['z'] + rng.choice([-1, 1]) * rng.uniform(0.6, 2.5):.3g}")
            d.update({'budget': B, 'draws': draws, 'brute': False, 'api': True, 'comparison': False,
                      'history': {'z': zA}})
            g.append(d)
        groups.append(g)
    return groups


def stream_forecast(ctx):
    st = ctx.stream('forecast', 'four variants x with/without outside good x prices x scale; every model under the labels '
                    '0..n-1 and under 2-3 labelings that are not 0..n-1 (random distinct ints incl. negative/large, permuted '
                    '1..n, labels colliding with the position of the outside good) and, HISTORY, as a model object already '
                    'used on another data set with the same database/row names (validation, one-draw, forecast) compared '
                    'with a fresh object; budgets 0.05..2000; 3 Gumbel draws; NonMonotonic in both dual-sign regimes (half of the N '
                    'models satiated: all mu_k + eps_k/scale < 0 and budgets beyond the satiation point => negative dual variable; '
                    'coverage floor asserted); '
                    'non-trivial = at least one good consumed and one not, or >= 2 consumed; distinct by (model, labels, draw)')
    rng = ctx.sub_rng('forecast')
    groups = gen_forecast_cases(ctx, rng, ctx.n(48, 1200))
    groups = [[c] for c in corpus_cases('forecast')] + groups
    flat = [(gi, li, c) for gi, g in enumerate(groups) for li, c in enumerate(g)]
    chunks = [flat[i::16] for i in range(16)]
    chunks = [ch for ch in chunks if ch]
    res = ctx.impl_parallel('c18_mdcev.py', [{'mode': 'forecast', 'cases': [c for _, _, c in ch]} for ch in chunks],
                            timeout=3000)
    by = {}
    for ch, rs in zip(chunks, res):
        for (gi, li, c), r in zip(ch, rs):
            by[(gi, li)] = (c, r)
    nbad = 0
    kkt_items = []
    stats = {'brute_missing': 0, 'brute_compared': 0, 'exceptions': 0, 'relabel_pairs': 0, 'collision_cases': 0,
             'history_cases': sum(1 for g in groups for c in g if c.get('history')),
             'N_negative_dual': 0, 'N_positive_dual': 0, 'N_negative_dual_partial_choice_set': 0}
    for gi, g in enumerate(groups):
        infos_g = []
        for li, c in enumerate(g):
            c, r = by[(gi, li)]
            b, infos = check_forecast_case(ctx, c, r, st)
            nbad += b
            infos_g.append(infos)
            if has_collision(c, r):
                stats['collision_cases'] += 1
            for j, eps_lab in enumerate(c['draws']):
                info = infos[j] if j < len(infos) else None
                nt = bool(info) and (info['n_consumed'] >= 2 or info['n_consumed'] < len(c['labels']))
                st.record({'model': witness(c), 'budget': r.get('budget'), 'draw': eps_lab}, nontrivial=nt)
                if info is None:
                    stats['exceptions'] += 1
                elif 'brute_obj' in info:
                    stats['brute_compared'] += 1
                elif c.get('brute', True):
                    stats['brute_missing'] += 1
                if info is not None:
                    kkt_items.append((c, r, j, info))
                    if c['variant'] == 'N':
                        stats['N_negative_dual' if info['lam'] < 0 else 'N_positive_dual'] += 1
                        if info['lam'] < 0 and info['n_consumed'] < len(c['labels']):
                            stats['N_negative_dual_partial_choice_set'] += 1
        # 10. label independence: the same alternative gets the same consumption under every labeling
        base_c, base_r = by[(gi, 0)]
        for li in range(1, len(g)):
            c, r = by[(gi, li)]
            for j in range(len(c['draws'])):
                a = infos_g[0][j] if j < len(infos_g[0]) else None
                b = infos_g[li][j] if j < len(infos_g[li]) else None
                if a is None or b is None:
                    continue
                stats['relabel_pairs'] += 1
                scaleB = max(1.0, abs(c['budget']))
                for i in range(len(c['labels'])):
                    if abs(a['xs'][i] - b['xs'][i]) > 1e-6 * scaleB:
                        nbad += 1
                        ctx.violation(viol_key(c, 'forecast/relabel'),
                                      'relabelling the alternatives changes the forecast of an alternative',
                                      witness(c, budget=c['budget'], draw=c['draws'][j], other_labels=base_c['labels'],
                                              alternative=c['labels'][i]),
                                      a['xs'][i], b['xs'][i], how='./check C18 --replay <this file>')
                        break
    st.extra.update(stats)
    st.extra['oracle_failures'] = nbad
    # coverage floor (fail closed): the stream must have exercised forecasts with a negative dual variable
    n_sat = sum(1 for g in groups for c in g if c['variant'] == 'N' and min(c['mu']) <= -1.5 and max(c['mu']) <= -1.5)
    if n_sat and not nbad and stats['N_negative_dual'] < max(3, n_sat // 4):
        ctx.stream_broken('forecast', f'generator degenerated: only {stats["N_negative_dual"]} NonMonotonic forecasts with a '
                          f'negative dual variable for {n_sat} satiated cases')
    kkt_in_coq(ctx, st, kkt_items)
    return nbad


# ------------------------------------------------------------------ kkt_check evaluated inside Coq (exact rationals)
def qlit(x):
    n, d = float(x).as_integer_ratio()
    return f'({n} # {d})' if n >= 0 else f'(-{-n} # {d})'


def kkt_in_coq(ctx, st, items):
    """Feeds (x_k, d_k, p_k=1) of every successful forecast to Model.Mdcev.kkt_checkQ (proved sound:
    T18i_kkt_check_sound).  d_k is the implementation's own derivative at the forecast (already compared with the
    closed form above).  Disagreement between Coq's verdict and the float oracle = broken stream."""
    rows = []
    for c, r, j, info in items:
        dr = r['draws'][j]
        if not dr.get('bis_d'):
            continue
        trip = []
        ok = True
        for i, k in enumerate(c['labels']):
            x = info['xs'][i]
            dv = dr['bis_d'].get(str(k))
            if c['gamma'][i] is None and x == 0:
                ok = False
            if not isnum(dv):
                if x > 0 or c['gamma'][i] is None:
                    ok = False
                    break
                dv = info['d'][i]
            trip.append((max(x, 0.0), dv))
        if not ok:
            continue
        lam = info['lam']
        mag = max([abs(lam)] + [abs(t[1]) for t in trip] + [1e-300])
        if c['variant'] == 'N':
            mag = max(mag, max(abs(m) + 1 for m in c['mu']))
        epsq = 2e-7 * mag
        delta = info['tolB'] * 1.000001 + 1e-300   # fsum vs exact sum: far below the slack
        rows.append('(' + coq_list([f'({qlit(x)}, {qlit(d)}, 1)' for x, d in trip]) +
                    f', {qlit(r["budget"])}, {qlit(lam)}, {qlit(epsq)}, {qlit(delta)})')
    if not rows:
        return
    files = {}
    Bn = 200
    for i in range(0, len(rows), Bn):
        files[f'kkt_{i // Bn}'] = (
            'From Coq Require Import QArith List.\nImport ListNotations.\nFrom BV Require Import Model.Mdcev.\n'
            'Open Scope Q_scope.\n'
            "Definition chk (c : list (Q * Q * Q) * Q * Q * Q * Q) : bool :=\n"
            "  let '(l, B, lam, e, dl) := c in kkt_checkQ l B lam e dl.\n"
            'Definition cases := ' + coq_list(rows[i:i + Bn], ';\n') + '.\n'
            'Eval vm_compute in (List.map chk cases).\n')
    outs = ctx.coq_eval_many(files)
    nfalse = 0
    total = 0
    for k in sorted(files):
        ok, out = outs[k]
        if not ok:
            ctx.stream_broken('forecast', 'kkt_checkQ evaluation failed: ' + out[-500:])
            return
        bs = parse_bools(out)
        total += len(bs)
        nfalse += sum(1 for b in bs if not b)
    st.extra['kkt_checkQ_evaluated_in_coq'] = total
    st.extra['kkt_checkQ_false'] = nfalse
    if total != len(rows):
        ctx.stream_broken('forecast', f'kkt_checkQ: {total} results for {len(rows)} cases')
    elif nfalse:
        ctx.stream_broken('forecast', f'kkt_checkQ (Coq, exact rationals) rejects {nfalse} forecasts accepted by the float oracle')


# =============================================================================== stream: trees (structural, T18g)
def stream_trees(ctx):
    """utility_expression_one_alternative builds exactly the tree of the Gallina builder uexpr (Model/Mdcev.v), about
    which T18g (evalX = closed form) is proved."""
    from bridge import json_to_coq
    st = ctx.stream('trees', 'utility_expression_one_alternative of the four variants, outside/inside good, with/without '
                    'prices and scale, Numeric (PowerConstant) and Beta (Power) alpha: expr_eqb with the Gallina builder; '
                    'every case non-trivial; distinct by tree')
    rng = ctx.sub_rng('trees')
    cases = []
    for j in range(ctx.n(48, 400)):
        c = gen_model(rng, variant='GTZN'[j % 4], n=rng.choice([2, 3]))
        c = with_labels(c, gen_labels(rng, len(c['a']), 'odd'))
        pts = gen_points(rng, c, 2)
        for p in pts:
            p['tree'] = True
            if p['x'] == 0.0:
                p['x'] = 1.5
        c['points'] = pts
        cases.append(c)
    chunks = [cases[i::16] for i in range(16)]
    chunks = [ch for ch in chunks if ch]
    res = ctx.impl_parallel('c18_mdcev.py', [{'mode': 'pieces', 'cases': ch} for ch in chunks])
    items, meta = [], []
    for ch, rs in zip(chunks, res):
        for c, r in zip(ch, rs):
            for p, pr in zip(c['points'], r.get('points', [])):
                t = pr.get('tree')
                if t is None:
                    st.disagree({'model': witness(c), 'point': p}, 'a tree', pr.get('u_sym'))
                    continue
                i = p['i']
                k = c['labels'][i]
                num = c['pk'] == 'numeric'

                def par(name, v):
                    if v is None:
                        return 'None'
                    m, e = dy(v)
                    return f'(Some (ENum ({m})%Z ({e})%Z))' if num else f'(Some (EBeta "{name}" true))'

                if c['b'][i] is None:
                    m, e = dy(c['a'][i])
                    Vt = f'(ENum ({m})%Z ({e})%Z)'
                else:
                    m, e = dy(c['a'][i])
                    Vt = f'(EBin Plus (ENum ({m})%Z ({e})%Z) (EBin Times (EBeta "b_{k}" false) (EVar "z")))'
                if c['variant'] == 'N':
                    m, e = dy(c['mu'][i])
                    Mt = f'(ENum ({m})%Z ({e})%Z)' if c['b'][i] is None else \
                        f'(EBin Plus (ENum ({m})%Z ({e})%Z) (EBin Times (ENum 0%Z 0%Z) (EVar "z")))'
                else:
                    Mt = '(ENum 0%Z 0%Z)'
                al = c['alpha'][i] if c.get('alpha') else None
                if al is None:
                    At = 'ANone'
                elif num:
                    m, e = dy(al)
                    At = f'(AConst (({m})%Z, ({e})%Z))'
                else:
                    At = f'(AExpr (EBeta "alpha_{k}" true))'
                pr_v = c['price'][i] if c.get('price') else None
                m, e = dy(p['eps'])
                built = (f'(uexpr V{c["variant"]} {Vt} {Mt} {par("scale", c.get("scale"))} {par(f"price_{k}", pr_v)} '
                         f'{par(f"gamma_{k}", c["gamma"][i])} {At} (EBeta "consumption" false) (ENum ({m})%Z ({e})%Z))')
                items.append(f'(expr_eqb {built} {json_to_coq(t)})')
                meta.append({'model': witness(c), 'point': p})
                st.record({'tree': t}, nontrivial=True)
    files = {}
    Bn = 60
    for i in range(0, len(items), Bn):
        files[f'trees_{i // Bn}'] = (
            'From Coq Require Import ZArith List String.\nImport ListNotations.\n'
            'From BV Require Import Model.Expr Model.Mdcev.\nOpen Scope string_scope.\n'
            'Definition cases : list bool := ' + coq_list(items[i:i + Bn], ';\n') + '.\n'
            'Eval vm_compute in cases.\n')
    outs = ctx.coq_eval_many(files)
    for k in sorted(files, key=lambda s: int(s.split('_')[1])):
        ok, out = outs[k]
        i0 = int(k.split('_')[1]) * Bn
        if not ok:
            ctx.stream_broken('trees', 'model evaluation failed: ' + out[-600:])
            continue
        bs = parse_bools(out)
        if len(bs) != len(items[i0:i0 + Bn]):
            ctx.stream_broken('trees', f'{len(bs)} results for {len(items[i0:i0 + Bn])} cases')
            continue
        for j, b in enumerate(bs):
            if not b:
                st.disagree(meta[i0 + j], 'uexpr builder (Model/Mdcev.v)', 'a different tree')
    if st.disagreements:
        ctx.stream_broken('trees', f'{len(st.disagreements)} disagreements, first: {json.dumps(st.disagreements[0])[:600]}')


def dy(x):
    x = float(x)
    if x == 0:
        return 0, 0
    n, d = x.as_integer_ratio()
    e = -(d.bit_length() - 1)
    while n % 2 == 0:
        n //= 2
        e += 1
    return n, e


# =============================================================================== corpus
def corpus_cases(mode):
    out = []
    d = Path('/verif/corpus/C18')
    if d.exists():
        for p in sorted(d.glob('*.json')):
            try:
                j = json.loads(p.read_text())
            except Exception:  # noqa
                continue
            if j.get('mode') == mode:
                out.append(j['case'])
    return out


# =============================================================================== driver
def run(ctx):
    ctx.assumptions += ASSUME
    ctx.trusted += [
        'tie A: the specialised extractor in lib/props/C18.py (fail-closed, pattern-matches the exact statement shapes of '
        'the 12 one-alternative methods); the generated definitions are proved equal to the closed forms in Proofs/MdcevP.v',
        'tie B: streams pieces / trees / forecast (double-precision closed forms with explicit tolerances; exact rational '
        'kkt_checkQ evaluated by vm_compute); the expression engine that evaluates the symbolic utilities',
    ]
    try:
        gen_all(ctx)
    except Untranslatable as e:
        ctx.tie_broken('extract:MdcevFormulas', str(e))
    import time
    t0 = time.time()
    b = ctx.build()
    t1 = time.time()
    stream_pieces(ctx)
    t2 = time.time()
    if b.ok:
        stream_trees(ctx)
    t3 = time.time()
    stream_forecast(ctx)
    t4 = time.time()
    ctx.notes['wall_breakdown_s'] = {'build': round(t1 - t0, 1), 'pieces': round(t2 - t1, 1),
                                     'trees': round(t3 - t2, 1), 'forecast': round(t4 - t3, 1)}


def replay(ctx, path):
    w = json.load(open(path))
    wit = w.get('witness')
    if not wit or 'variant' not in wit:
        print('replay: this file names an obligation/stream; re-run ./check C18')
        return 2
    mode = wit.get('mode', 'forecast')
    c = {k: wit.get(k) for k in ('variant', 'labels', 'a', 'b', 'z', 'gamma', 'alpha', 'price', 'scale', 'mu', 'pk',
                                 'history')}
    st = ctx.stream('replay', 'one recorded witness')
    if mode == 'pieces':
        c['points'] = [wit['point']]
        r = ctx.impl('c18_mdcev.py', {'mode': 'pieces', 'cases': [c]})[0]
        bad = check_point(ctx, c, wit['point'], r['points'][0], st) if 'points' in r else 1
    else:
        draws = wit.get('draws') or [wit['draw']]
        c.update({'budget': wit['budget'], 'draws': draws, 'brute': True, 'api': mode == 'forecast-api',
                  'comparison': 'comparison' in str(w.get('key', ''))})
        if 'stale-dual' in str(w.get('key', '')):
            c['tag'] = 'stale-dual'
        cs = [c]
        if wit.get('other_labels'):
            cs.insert(0, dict(c, labels=wit['other_labels'], api=False, comparison=False))
        rs = ctx.impl('c18_mdcev.py', {'mode': 'forecast', 'cases': cs})
        bad = 0
        infos = []
        for cc, r in zip(cs, rs):
            b, inf = check_forecast_case(ctx, cc, r, st)
            bad += b
            infos.append(inf)
        if len(cs) == 2 and infos[0] and infos[1] and infos[0][0] and infos[1][0]:
            if any(abs(x - y) > 1e-6 * max(1.0, abs(c['budget'])) for x, y in zip(infos[0][0]['xs'], infos[1][0]['xs'])):
                bad += 1
    still = bad > 0 or bool(ctx.violations) or bool(ctx.known_hits)
    print(json.dumps({'still_fails': still, 'violations': ctx.violations[:3], 'known': ctx.known_hits}, default=str)[:3000])
    import shutil
    shutil.rmtree(ctx.scratch, ignore_errors=True)
    return 1 if still else 0
