"""C17 -- specification helpers equal their documented closed forms.

Tie A : Gen/Piecewise.v  = piecewise_function (models/piecewise.py) and the entry formula of
        NestsForNestedLogit.correlation (nests.py), regenerated on every run by a specialised,
        fail-closed extractor built on py2v (loop with early return -> Fixpoint).
Tie B : the Gallina builders of Model/Builders17.v against the Python tree builders (stream
        build17, structural equality decided by expr_eqb inside Coq).
Streams: build17, pwfun17, segcode, corr17, values17.
"""
import ast
import json
import math
from fractions import Fraction

import py2v
from py2v import Untranslatable, External
from bridge import json_to_coq, cz
from common import coq_string, coq_list, parse_bools

ASSUME = [
    'expression trees are compared structurally (class, payload, ordered children); the meaning of a tree is '
    'evalX (Model/EvalX.v) over the reals; the engine is tied to it by stream values17 (interval enclosures)',
    'piecewise thresholds: the theorems assume the float differences t[i+1]-t[i] stored in the tree are exact '
    '(D2R (dsub53 b a) = D2R b - D2R a); the streams generate such lists and also lists where Python rounds '
    '(structural tie only)',
    'normal / lognormal "integrate to one": reduced to the Gaussian integral, which enters as the section '
    'hypotheses "Phi is an antiderivative of the standard normal density with limits 0 and 1" (partial)',
    'Box-Cox: "continuous through zero" is proved for the value function of the tree at l = 0 and as the limit '
    'of (x^l-1)/l; at the switching points |l| = 1e-5 the two branches differ by O(l^4 ln^5 x / 120) (not a '
    'limit statement; bounded numerically by stream values17)',
    'nested-logit correlation: the entry formula is translated from the source; the matrix-filling loops are '
    'modelled by hand (nl_correlation) and tied by stream corr17',
]

TRUSTED = [
    'tie A: /verif/lib/py2v plus the specialised extractor in lib/props/C17.py for piecewise_function and the '
    'correlation entry; validated on every run by streams pwfun17 / corr17 (implementation vs exact rational '
    'evaluation of the same formula)',
    'tie B: expression bridge lib/impl/bio_bridge.py + lib/bridge.py (structure only)',
    'interval evaluator evalI (Model/EvalI.v, sound w.r.t. evalX by Proofs/EvalIP.v) for stream values17',
]


# ============================================================================ tie A
class PWTranslator(py2v.Translator):
    """py2v with: option-R thresholds read as numbers through [oget]; the two validity tests that use
    a generator expression / a slice translated by exact text match."""

    SPECIAL = {
        'all((t is None for t in thresholds))':
            ('(forallb (fun t => negb (isSome t)) thresholds)', 'bool'),
        'None in thresholds[1:-1]':
            ('(existsb (fun t => negb (isSome t)) (interior thresholds))', 'bool'),
    }

    def _expr(self, node, env, want=None):
        try:
            key = ast.unparse(node)
        except Exception:
            key = None
        if key in self.SPECIAL:
            return self.SPECIAL[key]
        return super()._expr(node, env, want)

    def coerce(self, code, have, want, node):
        if have == 'option R' and want == 'R':
            return f'(oget {code})'
        return super().coerce(code, have, want, node)

    def unify(self, a, ta, b, tb, node):
        if ta == 'option R' and tb in ('R', 'Z'):
            a, ta = f'(oget {a})', 'R'
        if tb == 'option R' and ta in ('R', 'Z'):
            b, tb = f'(oget {b})', 'R'
        return super().unify(a, ta, b, tb, node)


def _subscript(tr, node, args):
    (b, tb), (i, ti) = args
    if tb != 'list (option R)' or ti != 'Z':
        raise Untranslatable(f'subscript {tb}[{ti}]')
    return f'(nth_Z None {b} {i})', 'option R'


def gen_piecewise_function():
    tr = py2v.load('src/biogeme/models/piecewise.py')
    tr.__class__ = PWTranslator
    tr.externals['subscript:list (option R)'] = External(_subscript)
    fd = tr.find('piecewise_function')
    if [a.arg for a in fd.args.args] != ['x', 'thresholds', 'betas']:
        raise Untranslatable('piecewise_function: signature changed')
    body = [s for s in fd.body if not tr.ignorable(s)]
    kinds = [type(s).__name__ for s in body]
    if len(body) < 3 or kinds[-2:] != ['For', 'Return'] or 'For' in kinds[:-2] or 'While' in kinds:
        raise Untranslatable(f'piecewise_function: unexpected statement structure {kinds}')
    prefix, loop, after = body[:-2], body[-2], body[-1]
    # `if <cond>: error_msg = ...; raise ...`  ->  `if <cond>: raise`
    cleaned = []
    for s in prefix:
        if isinstance(s, ast.If) and s.body and isinstance(s.body[-1], ast.Raise) and not s.orelse:
            if not all(isinstance(x, (ast.Assign, ast.Raise)) for x in s.body):
                raise Untranslatable('piecewise_function: unexpected statement in a raise block')
            for x in s.body[:-1]:
                if not (len(x.targets) == 1 and isinstance(x.targets[0], ast.Name) and x.targets[0].id == 'error_msg'):
                    raise Untranslatable('piecewise_function: raise block assigns something else than error_msg')
            s = ast.If(test=s.test, body=[s.body[-1]], orelse=[])
            ast.fix_missing_locations(s)
        cleaned.append(s)
    if not (isinstance(loop.target, ast.Tuple) and [getattr(e, 'id', None) for e in loop.target.elts] == ['i', 'v']
            and ast.unparse(loop.iter) == 'enumerate(betas)' and not loop.orelse):
        raise Untranslatable('piecewise_function: loop header is not `for i, v in enumerate(betas)`')
    tr.partial = True
    state = ['total', 'rest']

    def call_loop(lst):
        def tail(e):
            args = []
            for n in state:
                if n not in e:
                    raise Untranslatable(f'piecewise_function: {n} not defined before the loop')
                args.append(tr.coerce(n, e[n], 'R', loop))
            return f'(piecewise_function_loop x thresholds {lst} ' + ' '.join(args) + ')'
        return tail

    env0 = {'x': 'R', 'thresholds': 'list (option R)', 'betas': 'list R'}
    main = tr.block(cleaned, dict(env0), call_loop('(enumerate betas)'), 'R')
    envl = {'x': 'R', 'thresholds': 'list (option R)', 'total': 'R', 'rest': 'R', 'i': 'Z', 'v': 'R'}
    assigned = tr.assigned(loop.body)
    if sorted(assigned) != sorted(state):
        raise Untranslatable(f'piecewise_function: loop assigns {assigned}, expected {state}')
    lbody = tr.block(loop.body, dict(envl), call_loop('py_l'), 'R')

    def no_tail(e):
        raise Untranslatable('piecewise_function: control falls off the end')

    envA = dict(envl)
    del envA['i'], envA['v']
    aft = tr.block([after], envA, no_tail, 'R')
    return (
        f'(* from src/biogeme/models/piecewise.py:{fd.lineno} piecewise_function -- the loop *)\n'
        'Fixpoint piecewise_function_loop (x : R) (thresholds : list (option R)) (py_l : list (Z * R))\n'
        '  (total : R) (rest : R) {struct py_l} : option R :=\n'
        'match py_l with\n'
        f'| [] => {aft}\n'
        f"| (i, v) :: py_l =>\n{lbody}\nend.\n"
        f'(* from src/biogeme/models/piecewise.py:{fd.lineno} piecewise_function *)\n'
        'Definition piecewise_function (x : R) (thresholds : list (option R)) (betas : list R) : option R :=\n'
        f'{main}.\n'
    )


EXPECTED_CORR_LOOP = (
    "for m in self.tuple_of_nests:\n"
    "    if isinstance(m.nest_param, Expression):\n"
    "        if parameters:\n"
    "            m.nest_param.change_init_values(parameters)\n"
    "        mu_m = m.nest_param.get_value_c(prepare_ids=True)\n"
    "    else:\n"
    "        mu_m = m.nest_param\n"
    "    alt_m = m.list_of_alternatives\n"
    "    for i, j in itertools.combinations(alt_m, 2):\n"
    "        correlation[index[i]][index[j]] = correlation[index[j]][index[i]] = ENTRY"
)


def gen_nl_corr():
    tr = py2v.load('src/biogeme/nests.py')
    fd = tr.find('NestsForNestedLogit.correlation')
    ifexps = [n for n in ast.walk(fd) if isinstance(n, ast.IfExp)]
    if len(ifexps) != 1:
        raise Untranslatable(f'NestsForNestedLogit.correlation: expected one conditional expression, found {len(ifexps)}')
    entry = ifexps[0]
    # the surrounding loop must be the one modelled by Builders17.nl_correlation
    loops = [s for s in fd.body if isinstance(s, ast.For)]
    if len(loops) != 1:
        raise Untranslatable('NestsForNestedLogit.correlation: expected exactly one top-level loop')
    text = ast.unparse(loops[0]).replace(ast.unparse(entry), 'ENTRY')
    if text != EXPECTED_CORR_LOOP:
        raise Untranslatable('NestsForNestedLogit.correlation: the matrix-filling loop changed:\n' + text)
    inits = [ast.unparse(s) for s in fd.body if isinstance(s, ast.Assign)]
    if 'correlation = np.identity(nbr_of_alternatives)' not in inits or \
       'index = {alt: i for i, alt in enumerate(self.choice_set)}' not in inits:
        raise Untranslatable('NestsForNestedLogit.correlation: initialisation changed')
    code, t = tr.expr(entry, {'mu': 'R', 'mu_m': 'R'}, 'R')
    return (f'(* from src/biogeme/nests.py:{entry.lineno} NestsForNestedLogit.correlation -- the entry formula *)\n'
            f'Definition nl_corr_entry (mu : R) (mu_m : R) : R :=\n{code}.\n')


def gen_all(ctx):
    text = ('From BV Require Import Model.PyBase Model.Builders17.\n'
            'Open Scope R_scope.\n'
            + gen_piecewise_function() + gen_nl_corr())
    ctx.gen('Piecewise', text)
