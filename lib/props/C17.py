"""C17 -- specification helpers equal their documented closed forms.

Tie A : Gen/Piecewise.v  = piecewise_function (models/piecewise.py) and the entry formula of
        NestsForNestedLogit.correlation (nests.py), regenerated on every run by a specialised,
        fail-closed extractor built on py2v (loop with early return -> Fixpoint).
Tie B : the Gallina builders of Model/Builders17.v against the Python tree builders (stream
        build17, structural equality decided by expr_eqb inside Coq).
Streams: build17, pwfun17, segcode, corr17, values17.
"""
import ast
import json
import math
import os
import time
from fractions import Fraction
from pathlib import Path

import py2v
from py2v import Untranslatable, External
from bridge import json_to_coq, cz
from common import coq_string, coq_list, parse_bools, sha

# test hook (mutation testing of this check on a scratch copy of the repository; ./check runs under `env -i`
# and can never see it): the tree that is translated and executed
REPO_ROOT = os.environ.get('VERIF_REPO', '/repo')


def load_src(rel):
    p = Path(REPO_ROOT) / rel
    try:
        return py2v.Translator(p.read_text(), rel)
    except (OSError, SyntaxError) as e:
        raise Untranslatable(f'cannot read/parse {rel}: {e}')


ASSUME = [
    'expression trees are compared structurally (class, payload, ordered children); the meaning of a tree is '
    'evalX (Model/EvalX.v) over the reals; the engine is tied to it by stream values17 (interval enclosures)',
    'piecewise thresholds: the theorems assume the float differences t[i+1]-t[i] stored in the tree are exact '
    '(D2R (dsub53 b a) = D2R b - D2R a); the streams generate such lists and also lists where Python rounds '
    '(structural tie only)',
    'normal / lognormal "integrate to one": reduced to the Gaussian integral, which enters as the section '
    'hypotheses "Phi is an antiderivative of the standard normal density with limits 0 and 1" (partial)',
    'Box-Cox: "continuous through zero" is proved for the value function of the tree at l = 0 and as the limit '
    'of (x^l-1)/l; at the switching points |l| = 1e-5 the two branches differ by O(l^4 ln^5 x / 120) (not a '
    'limit statement; bounded numerically by stream values17)',
    'nested-logit correlation: the entry formula is translated from the source; the matrix-filling loops are '
    'modelled by hand (nl_correlation) and tied by stream corr17',
]

TRUSTED = [
    'tie A: /verif/lib/py2v plus the specialised extractor in lib/props/C17.py for piecewise_function and the '
    'correlation entry; validated on every run by streams pwfun17 / corr17 (implementation vs exact rational '
    'evaluation of the same formula)',
    'tie B: expression bridge lib/impl/bio_bridge.py + lib/bridge.py (structure only)',
    'interval evaluator evalI (Model/EvalI.v, sound w.r.t. evalX by Proofs/EvalIP.v) for stream values17',
]


# ============================================================================ tie A
class PWTranslator(py2v.Translator):
    """py2v with: option-R thresholds read as numbers through [oget]; the two validity tests that use
    a generator expression / a slice translated by exact text match."""

    SPECIAL = {
        'all((t is None for t in thresholds))':
            ('(forallb (fun t => negb (isSome t)) thresholds)', 'bool'),
        'None in thresholds[1:-1]':
            ('(existsb (fun t => negb (isSome t)) (interior thresholds))', 'bool'),
    }

    def _expr(self, node, env, want=None):
        try:
            key = ast.unparse(node)
        except Exception:
            key = None
        if key in self.SPECIAL:
            return self.SPECIAL[key]
        return super()._expr(node, env, want)

    def coerce(self, code, have, want, node):
        if have == 'option R' and want == 'R':
            return f'(oget {code})'
        return super().coerce(code, have, want, node)

    def unify(self, a, ta, b, tb, node):
        if ta == 'option R' and tb in ('R', 'Z'):
            a, ta = f'(oget {a})', 'R'
        if tb == 'option R' and ta in ('R', 'Z'):
            b, tb = f'(oget {b})', 'R'
        return super().unify(a, ta, b, tb, node)


def _subscript(tr, node, args):
    (b, tb), (i, ti) = args
    if tb != 'list (option R)' or ti != 'Z':
        raise Untranslatable(f'subscript {tb}[{ti}]')
    return f'(nth_Z None {b} {i})', 'option R'


def gen_piecewise_function():
    tr = load_src('src/biogeme/models/piecewise.py')
    tr.__class__ = PWTranslator
    tr.externals['subscript:list (option R)'] = External(_subscript)
    fd = tr.find('piecewise_function')
    if [a.arg for a in fd.args.args] != ['x', 'thresholds', 'betas']:
        raise Untranslatable('piecewise_function: signature changed')
    body = [s for s in fd.body if not tr.ignorable(s)]
    kinds = [type(s).__name__ for s in body]
    if len(body) < 3 or kinds[-2:] != ['For', 'Return'] or 'For' in kinds[:-2] or 'While' in kinds:
        raise Untranslatable(f'piecewise_function: unexpected statement structure {kinds}')
    prefix, loop, after = body[:-2], body[-2], body[-1]
    # `if <cond>: error_msg = ...; raise ...`  ->  `if <cond>: raise`
    cleaned = []
    for s in prefix:
        if isinstance(s, ast.If) and s.body and isinstance(s.body[-1], ast.Raise) and not s.orelse:
            if not all(isinstance(x, (ast.Assign, ast.Raise)) for x in s.body):
                raise Untranslatable('piecewise_function: unexpected statement in a raise block')
            for x in s.body[:-1]:
                if not (len(x.targets) == 1 and isinstance(x.targets[0], ast.Name) and x.targets[0].id == 'error_msg'):
                    raise Untranslatable('piecewise_function: raise block assigns something else than error_msg')
            s = ast.If(test=s.test, body=[s.body[-1]], orelse=[])
            ast.fix_missing_locations(s)
        cleaned.append(s)
    if not (isinstance(loop.target, ast.Tuple) and [getattr(e, 'id', None) for e in loop.target.elts] == ['i', 'v']
            and ast.unparse(loop.iter) == 'enumerate(betas)' and not loop.orelse):
        raise Untranslatable('piecewise_function: loop header is not `for i, v in enumerate(betas)`')
    tr.partial = True
    state = ['total', 'rest']

    def call_loop(lst):
        def tail(e):
            args = []
            for n in state:
                if n not in e:
                    raise Untranslatable(f'piecewise_function: {n} not defined before the loop')
                args.append(tr.coerce(n, e[n], 'R', loop))
            return f'(piecewise_function_loop x thresholds {lst} ' + ' '.join(args) + ')'
        return tail

    env0 = {'x': 'R', 'thresholds': 'list (option R)', 'betas': 'list R'}
    main = tr.block(cleaned, dict(env0), call_loop('(enumerate betas)'), 'R')
    envl = {'x': 'R', 'thresholds': 'list (option R)', 'total': 'R', 'rest': 'R', 'i': 'Z', 'v': 'R'}
    assigned = tr.assigned(loop.body)
    if sorted(assigned) != sorted(state):
        raise Untranslatable(f'piecewise_function: loop assigns {assigned}, expected {state}')
    lbody = tr.block(loop.body, dict(envl), call_loop('py_l'), 'R')

    def no_tail(e):
        raise Untranslatable('piecewise_function: control falls off the end')

    envA = dict(envl)
    del envA['i'], envA['v']
    aft = tr.block([after], envA, no_tail, 'R')
    return (
        f'(* from src/biogeme/models/piecewise.py:{fd.lineno} piecewise_function -- the loop *)\n'
        'Fixpoint piecewise_function_loop (x : R) (thresholds : list (option R)) (py_l : list (Z * R))\n'
        '  (total : R) (rest : R) {struct py_l} : option R :=\n'
        'match py_l with\n'
        f'| [] => {aft}\n'
        f"| (i, v) :: py_l =>\n{lbody}\nend.\n"
        f'(* from src/biogeme/models/piecewise.py:{fd.lineno} piecewise_function *)\n'
        'Definition piecewise_function (x : R) (thresholds : list (option R)) (betas : list R) : option R :=\n'
        f'{main}.\n'
    )


EXPECTED_CORR_LOOP = (
    "for m in self.tuple_of_nests:\n"
    "    if isinstance(m.nest_param, Expression):\n"
    "        if parameters:\n"
    "            m.nest_param.change_init_values(parameters)\n"
    "        mu_m = m.nest_param.get_value_c(prepare_ids=True)\n"
    "    else:\n"
    "        mu_m = m.nest_param\n"
    "    alt_m = m.list_of_alternatives\n"
    "    for i, j in itertools.combinations(alt_m, 2):\n"
    "        correlation[index[i]][index[j]] = correlation[index[j]][index[i]] = ENTRY"
)


def gen_nl_corr():
    tr = load_src('src/biogeme/nests.py')
    fd = tr.find('NestsForNestedLogit.correlation')
    ifexps = [n for n in ast.walk(fd) if isinstance(n, ast.IfExp)]
    if len(ifexps) != 1:
        raise Untranslatable(f'NestsForNestedLogit.correlation: expected one conditional expression, found {len(ifexps)}')
    entry = ifexps[0]
    # the surrounding loop must be the one modelled by Builders17.nl_correlation
    loops = [s for s in fd.body if isinstance(s, ast.For)]
    if len(loops) != 1:
        raise Untranslatable('NestsForNestedLogit.correlation: expected exactly one top-level loop')
    text = ast.unparse(loops[0]).replace(ast.unparse(entry), 'ENTRY')
    if text != EXPECTED_CORR_LOOP:
        raise Untranslatable('NestsForNestedLogit.correlation: the matrix-filling loop changed:\n' + text)
    inits = [ast.unparse(s) for s in fd.body if isinstance(s, ast.Assign)]
    if 'correlation = np.identity(nbr_of_alternatives)' not in inits or \
       'index = {alt: i for i, alt in enumerate(self.choice_set)}' not in inits:
        raise Untranslatable('NestsForNestedLogit.correlation: initialisation changed')
    code, t = tr.expr(entry, {'mu': 'R', 'mu_m': 'R'}, 'R')
    return (f'(* from src/biogeme/nests.py:{entry.lineno} NestsForNestedLogit.correlation -- the entry formula *)\n'
            f'Definition nl_corr_entry (mu : R) (mu_m : R) : R :=\n{code}.\n')


def gen_all(ctx):
    text = ('From BV Require Import Model.PyBase Model.Builders17.\n'
            'Open Scope R_scope.\n'
            + gen_piecewise_function() + gen_nl_corr())
    ctx.gen('Piecewise', text)


# ============================================================================ numbers
def dy(x):
    """normalised dyadic (m odd, e) of a double, (0, 0) for zero -- same convention as the bridge"""
    x = float(x)
    if x == 0:
        return (0, 0)
    n, d = x.as_integer_ratio()
    e = -(d.bit_length() - 1)
    while n % 2 == 0:
        n //= 2
        e += 1
    return (n, e)


def cdy(x):
    m, e = dy(x)
    return f'({cz(m)}, {cz(e)})'


def hx(x):
    return float(x).hex()


def fr(x):
    return Fraction(float(x))


def grid(rng, lo, hi, den=8):
    """a multiple of 1/den in [lo, hi] (exactly representable, few significant bits)"""
    return Fraction(rng.randint(int(lo * den), int(hi * den)), den)


def thr_coq(ts):
    return '[' + '; '.join('None' if t is None else f'Some {cdy(t)}' for t in ts) + ']'


# ---------------------------------------------------------------------------- argument language
class Args:
    """generates argument sub-trees together with their exact value per row"""

    def __init__(self, rng, nrows):
        self.rng = rng
        self.nrows = nrows
        self.rows = [dict() for _ in range(nrows)]      # var -> Fraction
        self.betas = {}                                  # name -> Fraction (the value used at evaluation)
        self.k = 0

    def fresh(self, p):
        self.k += 1
        return f'{p}{self.k}'

    def var(self, values):
        n = self.fresh('v')
        for r, v in zip(self.rows, values):
            r[n] = Fraction(v)
        return {'var': n}, list(map(Fraction, values))

    def beta(self, value, init=None, fixed=False):
        n = self.fresh('b')
        self.betas[n] = Fraction(value)
        return {'beta': n, 'value': hx(value if init is None else init), 'fixed': fixed}, [Fraction(value)] * self.nrows

    def const(self, value, how):
        v = Fraction(value)
        if how == 'int' and v.denominator == 1:
            return {'int': int(v)}, [v] * self.nrows
        if how == 'numeric':
            return {'numeric': hx(v)}, [v] * self.nrows
        return {'float': hx(v)}, [v] * self.nrows

    def any(self, values, allow_var=True, same_init=True, compound=0.2):
        """an argument whose value on row i is values[i] (values equal across rows unless a Variable is used)"""
        rng = self.rng
        const = all(v == values[0] for v in values)
        if not const:
            if not allow_var:
                raise ValueError('row-dependent value needs a variable')
            if rng.random() < compound:
                # v + c  or  c * v'  with exact rational arithmetic
                c = grid(rng, 1, 4, 2)
                if rng.random() < 0.5:
                    a, _ = self.var([v - c for v in values])
                    b, _ = self.const(c, rng.choice(['float', 'numeric', 'int']))
                    return {'op': 'Plus', 'args': [a, b]}, list(map(Fraction, values))
                c = rng.choice([Fraction(1, 2), Fraction(2), Fraction(4)])   # v / c stays exactly representable
                a, _ = self.var([v / c for v in values])
                b, _ = self.beta(c)
                return {'op': 'Times', 'args': [b, a]}, list(map(Fraction, values))
            return self.var(values)
        v = Fraction(values[0])
        u = rng.random()
        if u < 0.3:
            return self.beta(v, None if same_init else grid(rng, 1, 3, 2))
        if u < 0.45 and allow_var:
            return self.var(values)
        if u < 0.6 and compound > 0:
            c = grid(rng, 1, 3, 2)
            a, _ = self.beta(v - c, None if same_init else grid(rng, 1, 3, 2))
            b, _ = self.const(c, rng.choice(['float', 'numeric']))
            return {'op': 'Plus', 'args': [a, b]}, [v] * self.nrows
        return self.const(v, rng.choice(['float', 'numeric', 'int']))


def numericise(a):
    if 'float' in a:
        return {'numeric': a['float']}
    if 'int' in a:
        return {'numeric': hx(a['int'])}
    if 'op' in a:
        l, r = a['args']
        if all(('float' in t or 'int' in t) for t in (l, r)):
            raise ValueError('two bare numbers')
        return a
    return a


def arg_coq(a):
    if 'var' in a:
        return f'(EVar {coq_string(a["var"])})'
    if 'beta' in a:
        return f'(EBeta {coq_string(a["beta"])} {"true" if a.get("fixed") else "false"})'
    if 'numeric' in a:
        return f'(ENumD {cdy(float.fromhex(a["numeric"]))})'
    if 'float' in a:
        return f'(ENumD {cdy(float.fromhex(a["float"]))})'
    if 'int' in a:
        return f'(ENumD {cdy(float(a["int"]))})'
    if 'op' in a:
        return f'(EBin {a["op"]} {arg_coq(a["args"][0])} {arg_coq(a["args"][1])})'
    if 'un' in a:
        return f'(EUn {"Exp" if a["un"] == "exp" else "UMinus"} {arg_coq(a["arg"])})'
    raise ValueError(a)


# ---------------------------------------------------------------------------- exact / high-precision closed forms
from decimal import Decimal, getcontext
getcontext().prec = 60
PI = Decimal('3.14159265358979323846264338327950288419716939937510582097494')
SQRT2PI = (2 * PI).sqrt()


def D(x):
    if isinstance(x, Fraction):
        return Decimal(x.numerator) / Decimal(x.denominator)
    return Decimal(x)


def clipf(x, a, b):
    return max(Fraction(0), min(x - a, b - a))


def pw_values(x, ts):
    """the documented variables max(0, min(t - a, b - a)) with open ends"""
    out = []
    for i in range(len(ts) - 1):
        a, b = ts[i], ts[i + 1]
        if a is None and b is None:
            out.append(x)
        elif a is None:
            out.append(min(x, b))
        elif b is None:
            out.append(max(Fraction(0), x - a))
        else:
            out.append(clipf(x, a, b))
    return out


def pw_plain(x, ts, betas):
    """piecewise linear function through the documented variables (independent of the repository)"""
    return sum((b * w for b, w in zip(betas, pw_values(x, ts))), Fraction(0))


def boxcox_closed(x, l):
    x, l = D(x), D(l)
    if x == 0:
        return Decimal(0)
    if l == 0:
        return x.ln()
    return ((l * x.ln()).exp() - 1) / l


def normal_closed(x, m, s, const=SQRT2PI):
    x, m, s = D(x), D(m), D(s)
    return (-(x - m) ** 2 / (2 * s * s)).exp() / (s * const)


def lognormal_closed(x, m, s, const=SQRT2PI):
    x, m, s = D(x), D(m), D(s)
    return (-(x.ln() - m) ** 2 / (2 * s * s)).exp() / (x * s * const)


def uniform_closed(x, a, b):
    return 1 / (b - a) if a <= x <= b else Fraction(0)


def triangular_closed(x, a, b, c):
    if x < a or x > b:
        return Fraction(0)
    if x < c:
        return 2 * (x - a) / ((b - a) * (c - a))
    if x == c:
        return 2 / (b - a)
    return 2 * (b - x) / ((b - a) * (b - c))


def logistic_closed(x, m, s):
    x, m, s = D(x), D(m), D(s)
    return 1 / (1 + (-(x - m) / s).exp())


def regression_closed(y, m, s):
    # documented form -(y-m)^2/(2 s^2) - log(s^2)/2 - log(2 pi)/2: defined for every s <> 0 (scale |s|)
    y, m, s = D(y), D(m), D(s)
    return -((y - m) / s) ** 2 / 2 - (s * s).ln() / 2 - (2 * PI).ln() / 2


def close(obs, exp, rel, absl=0.0):
    """|obs - exp| <= rel * |exp| + absl, decided in exact / 60-digit arithmetic"""
    if not isinstance(obs, float) or not math.isfinite(obs):
        return False
    if isinstance(exp, Fraction):
        return abs(Fraction(obs) - exp) <= Fraction(rel) * abs(exp) + Fraction(absl)
    o = Decimal(obs)
    return abs(o - exp) <= Decimal(rel) * abs(exp) + Decimal(absl)


REL_RAT = 2.0 ** -40     # rational closed forms on <= 12-bit dyadic inputs: a handful of roundings of 2^-53
REL_TR = 1e-11           # exp / log / pow of the engine's libm: a few ulp, amplified by the conditioning we generate
REL_CONST = 2.1e-10      # the constants 2.506628275 / 0.9189385332 (theorems T17f / T17h)


# ============================================================================ case generators
def gen_thresholds(rng):
    """(thresholds as Python numbers / None, kind) -- first threshold non-zero"""
    u = rng.random()
    if u < 0.07:
        bad = rng.choice(['empty', 'single', 'allnone', 'inner', 'single_none'])
        if bad == 'empty':
            return [], 'malformed'
        if bad == 'single':
            return [float(grid(rng, 1, 9))], 'malformed'
        if bad == 'single_none':
            return [None], 'malformed'
        if bad == 'allnone':
            return [None] * rng.randint(2, 3), 'malformed'
        ts = [float(grid(rng, 1, 5)), None, float(grid(rng, 6, 9)), float(grid(rng, 10, 12))]
        return ts, 'malformed'
    k = rng.choice([2, 2, 3, 3, 3, 4, 4, 5, 6])
    if u < 0.2:
        # decimal thresholds: Python rounds the differences (structural tie incl. rounding; values within tolerance)
        t = round(rng.choice([-1, 1]) * rng.uniform(0.1, 20), rng.choice([1, 2]))
        if t == 0:
            t = 0.3
        ts = [t]
        for _ in range(k - 1):
            ts.append(round(ts[-1] + rng.uniform(0.1, 9), rng.choice([1, 2])))
        kind = 'rounded'
    else:
        t = grid(rng, -20, 20)
        if t == 0:
            t = Fraction(5, 2)
        ts = [t]
        for _ in range(k - 1):
            ts.append(ts[-1] + (0 if rng.random() < 0.04 else grid(rng, 0.5, 10)))
        ts = [int(v) if (v.denominator == 1 and rng.random() < 0.6) else float(v) for v in ts]
        kind = 'exact'
    if rng.random() < 0.25:
        ts[0] = None
    if rng.random() < 0.3:
        ts[-1] = None
    if all(t is None for t in ts):
        ts[0] = 2.5
    return ts, kind


def xs_around(rng, ts, n):
    vals = [fr(t) for t in ts if t is not None]
    lo, hi = min(vals), max(vals)
    cands = [lo - grid(rng, 0.5, 6), hi + grid(rng, 0.5, 6), rng.choice(vals)]
    for a, b in zip(vals, vals[1:]):
        cands.append((a + b) / 2)
    while len(cands) < n:
        cands.append(grid(rng, -30, 40))
    rng.shuffle(cands)
    # keep the values exactly representable with few bits
    return [Fraction(round(c * 64), 64) for c in cands[:n]]


def ts_json(ts):
    return [None if t is None else (t if isinstance(t, int) else hx(t)) for t in ts]


def ts_frac(ts):
    return [None if t is None else fr(t) for t in ts]


def mk_rows(A):
    return [{k: hx(v) for k, v in r.items()} for r in A.rows]


def fname(t):
    return 'minus_inf' if t is None else f'{t}'


def gen_case(rng, kind, nrows=3):
    """returns a dict: case (for the runner), coq (lambda result -> bool term), expect (per row exact value or
    None), tol, envs, nontrivial"""
    A = Args(rng, nrows)
    out = {'kind': kind}
    if kind in ('pwvars', 'pwformula', 'pwasvar'):
        ts, tk = gen_thresholds(rng)
        name = rng.choice(['x', 'TRAIN_TT', 'cost'])
        valid = tk != 'malformed'
        xs = xs_around(rng, ts, nrows) if valid else [Fraction(1)] * nrows
        for r, v in zip(A.rows, xs):
            r[name] = v
        case = {'kind': kind, 'name': name, 'ts': ts_json(ts), 'as_object': rng.random() < 0.5}
        tsc = thr_coq(ts)
        tsf = ts_frac(ts)
        out.update(tk=tk, ts=ts)
        scale = max([abs(t) for t in tsf if t is not None] + [1])
        out['absl'] = float(scale) * 2.0 ** -40
        if kind == 'pwvars':
            out['coq'] = lambda res: (
                f'match piecewise_variables (EVar {coq_string(name)}) {tsc} with '
                + ('Some l => list_eqb expr_eqb l [' + '; '.join(json_to_coq(t) for t in res['trees']) + '] | None => false end'
                   if res.get('ok') else 'None => true | Some _ => false end'))
            if valid:
                out['expect_vars'] = [pw_values(x, tsf) for x in xs]
                first, last = tsf[0], tsf[-1]
                tot = []
                for x in xs:
                    if first is None and last is None:
                        tot.append(x)
                    elif first is None:
                        tot.append(min(x, last))
                    elif last is None:
                        tot.append(max(Fraction(0), x - first))
                    else:
                        tot.append(max(Fraction(0), min(x - first, last - first)))
                out['expect'] = tot          # the clipped distance from the first threshold
        else:
            nb = len(ts) - (1 if kind == 'pwformula' else 2)
            default = rng.random() < 0.2 and valid
            wrong_len = valid and rng.random() < 0.05
            if default:
                case['betas'] = None
                rng_ts = ts[:-1] if kind == 'pwformula' else ts[1:-1]
                off = 0 if kind == 'pwformula' else 1
                names = [f'beta_{name}_{fname(a)}_{"inf" if ts[i + 1 + off] is None else ts[i + 1 + off]}'
                         for i, a in enumerate(rng_ts)]
                bvals = [grid(rng, -3, 3, 4) for _ in names]
                for n_, v_ in zip(names, bvals):
                    A.betas[n_] = v_
                bcoq = '[' + '; '.join(f'(EBeta {coq_string(n_)} false)' for n_ in names) + ']'
            else:
                n_here = max(0, nb + (rng.choice([-1, 1]) if wrong_len else 0))
                specs, bvals = [], []
                for _ in range(n_here):
                    v_ = grid(rng, -3, 3, 4)
                    a_, _ = A.any([v_] * nrows, allow_var=False, same_init=False, compound=0.15)
                    specs.append(a_)
                    bvals.append(v_)
                case['betas'] = specs
                bcoq = '[' + '; '.join(arg_coq(a_) for a_ in specs) + ']'
            fn = 'piecewise_formula' if kind == 'pwformula' else 'piecewise_as_variable'
            out['coq'] = lambda res: (
                f'match {fn} (EVar {coq_string(name)}) {tsc} {bcoq} with '
                + (f'Some t => expr_eqb t {json_to_coq(res["tree"])} | None => false end' if res.get('ok')
                   else 'None => true | Some _ => false end'))
            if valid and not wrong_len and nb >= 1:
                if kind == 'pwformula':
                    out['expect'] = [pw_plain(x, tsf, bvals) for x in xs]
                else:
                    out['expect'] = [pw_values(x, tsf)[0] + sum((b * w for b, w in zip(bvals, pw_values(x, tsf)[1:])), Fraction(0))
                                     for x in xs]
                out['pwfun'] = {'ts': ts, 'betas': bvals, 'xs': xs}
        out['tol'] = REL_RAT
        out['nontrivial'] = valid
    elif kind == 'boxcox':
        mode = rng.random()
        c = 1e-5
        if mode < 0.55:     # around the switching points +-1e-5 (within 2e-5 of them)
            base = rng.choice([c, -c])
            l = rng.choice([base, math.nextafter(base, 0.0), math.nextafter(base, 2 * base),
                            base * (1 + rng.uniform(-1, 1) * 10 ** rng.uniform(-9, 0)),
                            base + rng.uniform(-2e-5, 2e-5), rng.uniform(-3e-5, 3e-5), 0.0,
                            base * 0.999, base * 1.001])
        else:
            l = float(grid(rng, -4, 4, 16))
            if l == 0:
                l = 0.5
        xs = [grid(rng, 0.0625, 64, 16) for _ in range(nrows)]
        if rng.random() < 0.15:
            xs[0] = Fraction(0)
        if mode < 0.3:
            xs[-1] = Fraction(15)
        xa, _ = A.any(xs, compound=0.15)
        how = rng.random()
        lf = fr(l)
        if how < 0.4:
            la, _ = A.beta(lf, None if rng.random() < 0.5 else 1.0)
        elif how < 0.6:
            la, _ = A.const(lf, 'numeric')
        elif how < 0.8:
            la, _ = A.const(lf, 'float')
        else:
            la, _ = A.var([lf] * nrows)
        case = {'kind': kind, 'x': xa, 'ell': la}
        if 'float' in la:
            c2, c3 = l ** 2, l ** 3
            out['coq'] = lambda res: (f'expr_eqb (boxcox_float {arg_coq(xa)} {cdy(l)} {cdy(c2)} {cdy(c3)}) {json_to_coq(res["tree"])}'
                                      if res.get('ok') else 'false')
        else:
            out['coq'] = lambda res: (f'expr_eqb (boxcox {arg_coq(xa)} {arg_coq(la)}) {json_to_coq(res["tree"])}'
                                      if res.get('ok') else 'false')
        out['expect'] = [boxcox_closed(x, lf) for x in xs]
        out['tol'] = 1e-9   # conditioning of (x^l-1)/l at |l| ~ 1e-5 (cancellation ~ 1e-16/3e-5) + series remainder l^4 ln^5 x/120
        out['absl'] = 1e-13
        out['nontrivial'] = True
        out['near_switch'] = abs(abs(l) - c) <= 2e-5
    elif kind in ('normalpdf', 'lognormalpdf', 'logisticcdf', 'loglikelihoodregression', 'likelihoodregression'):
        m = grid(rng, -3, 3, 4)
        s = grid(rng, 0.25, 4, 8)
        if kind in ('loglikelihoodregression', 'likelihoodregression') and rng.random() < 0.45:
            # sigma is an unbounded parameter and only sigma^2 enters the documented form: negative values
            # (starting value, line search, final estimate) must give the normal log density with scale |sigma|
            s = -s
        if kind == 'lognormalpdf':
            xs = [grid(rng, 0.125, 12, 8) for _ in range(nrows)]
        else:
            xs = [m + s * grid(rng, -4, 4, 8) for _ in range(nrows)]
        xa, _ = A.any(xs, compound=0.2)
        ma, _ = A.any([m] * nrows, compound=0.2)
        if rng.random() < 0.3:       # expression-valued scale (Variable): needs the repaired except clause
            sa, _ = A.var([s] * nrows)
        else:
            sa, _ = A.any([s] * nrows, allow_var=False, compound=0.0)
        if kind in ('loglikelihoodregression', 'likelihoodregression'):
            # the signature takes Expression objects: bare numbers become Numeric(...) (sigma**2 on a float is Python arithmetic)
            xa, ma, sa = numericise(xa), numericise(ma), numericise(sa)
        case = {'kind': kind, 'args': [xa, ma, sa]}
        out['coq'] = lambda res: (f'expr_eqb ({kind} {arg_coq(xa)} {arg_coq(ma)} {arg_coq(sa)}) {json_to_coq(res["tree"])}'
                                  if res.get('ok') else 'false')
        f = {'normalpdf': normal_closed, 'lognormalpdf': lognormal_closed, 'logisticcdf': logistic_closed,
             'loglikelihoodregression': regression_closed,
             'likelihoodregression': lambda y, m_, s_: regression_closed(y, m_, s_).exp()}[kind]
        out['expect'] = [f(x, m, s) for x in xs]
        out['tol'] = REL_TR if kind == 'logisticcdf' else REL_CONST
        out['absl'] = 1e-11 if kind == 'loglikelihoodregression' else 1e-300
        out['nontrivial'] = True
    elif kind == 'uniformpdf':
        a = grid(rng, -5, 5, 4)
        b = a + grid(rng, 0.25, 8, 4)
        xs = [rng.choice([a, b, a - grid(rng, 0.25, 3, 4), b + grid(rng, 0.25, 3, 4), a + (b - a) * Fraction(rng.randint(1, 7), 8)])
              for _ in range(nrows)]
        xa, _ = A.any(xs, compound=0.15)
        aa, _ = A.any([a] * nrows, compound=0.1)
        ba, _ = A.any([b] * nrows, compound=0.1)
        case = {'kind': kind, 'args': [xa, aa, ba]}
        out['coq'] = lambda res: (f'expr_eqb (uniformpdf {arg_coq(xa)} {arg_coq(aa)} {arg_coq(ba)}) {json_to_coq(res["tree"])}'
                                  if res.get('ok') else 'false')
        out['expect'] = [uniform_closed(x, a, b) for x in xs]
        out['tol'] = REL_RAT
        out['nontrivial'] = True
    elif kind == 'triangularpdf':
        a = grid(rng, -5, 5, 4)
        c = a + grid(rng, 0.25, 4, 4)
        b = c + grid(rng, 0.25, 4, 4)
        xs = [rng.choice([a, b, c, a - 1, b + 1, a + (c - a) * Fraction(rng.randint(1, 7), 8),
                          c + (b - c) * Fraction(rng.randint(1, 7), 8)]) for _ in range(nrows)]
        xa, _ = A.any(xs, compound=0.15)
        aa, _ = A.any([a] * nrows, compound=0.1)
        ba, _ = A.any([b] * nrows, compound=0.1)
        ca, _ = A.any([c] * nrows, compound=0.1)
        case = {'kind': kind, 'args': [xa, aa, ba, ca]}
        out['coq'] = lambda res: (f'expr_eqb (triangularpdf {arg_coq(xa)} {arg_coq(aa)} {arg_coq(ba)} {arg_coq(ca)}) {json_to_coq(res["tree"])}'
                                  if res.get('ok') else 'false')
        out['expect'] = [triangular_closed(x, a, b, c) for x in xs]
        out['tol'] = REL_RAT
        out['nontrivial'] = True
    elif kind == 'segmented':
        case, coq_term, expect = gen_segmentation(rng, A, nrows)
        out['coq'] = lambda res: (f'match {coq_term} with Some t => expr_eqb t {json_to_coq(res["tree"])} | None => false end'
                                  if res.get('ok') else f'match {coq_term} with None => true | Some _ => false end')
        if expect is not None:
            out['expect'] = expect
        out['tol'] = REL_RAT
        out['nontrivial'] = expect is not None
    else:
        raise ValueError(kind)
    case['rows'] = mk_rows(A)
    case['beta_values'] = {k: hx(v) for k, v in A.betas.items()}
    out['case'] = case
    out['envs'] = [{'beta': {k: float(v) for k, v in A.betas.items()}, 'var': {k: float(v) for k, v in r.items()}}
                   for r in A.rows]
    return out


CATS = ['m', 'f', 'other', 'lo', 'mid', 'hi', 'GA', 'no_GA', 'c1', 'c2']


def gen_segmentation(rng, A, nrows, force_valid=False):
    bname = rng.choice(['B_TIME', 'ASC', 'b'])
    status = 1 if rng.random() < 0.2 else 0
    bref = grid(rng, -3, 3, 4)
    lb = None if rng.random() < 0.5 else float(bref - 5)
    ub = None if rng.random() < 0.6 else float(bref + 5)
    init = grid(rng, -2, 2, 4)
    if status == 1:
        bref = init      # get_value_c evaluates fixed parameters at their initial value
    A.betas[bname] = bref
    beta = {'name': bname, 'value': hx(init), 'lb': None if lb is None else hx(lb), 'ub': None if ub is None else hx(ub),
            'status': status}
    nseg = rng.choice([1, 1, 2, 2, 3])
    segs, coq_segs = [], []
    total = [bref] * nrows
    valid = True
    for si in range(nseg):
        var = f'seg{si}_{rng.choice(["g", "inc", "age"])}'
        k = rng.randint(2, 4)
        values = rng.sample(range(-2, 9), k)
        cats = rng.sample(CATS, k)
        if rng.random() < 0.08:
            cats[-1] = cats[0]       # two values mapped to the same category name
        u = rng.random()
        if u < 0.3:
            ref = None
        elif u < 0.93 or force_valid:
            ref = rng.choice(cats)
        else:
            ref = 'not_a_category'
            valid = False
        refname = cats[0] if ref is None else ref
        segs.append({'var': var, 'mapping': [[v, c] for v, c in zip(values, cats)], 'ref': ref,
                     'as_object': rng.random() < 0.5})
        coq_segs.append(f'(mkSeg {coq_string(var)} ['
                        + '; '.join(f'({cz(v)}, {coq_string(c)})' for v, c in zip(values, cats))
                        + f'] {"None" if ref is None else "(Some " + coq_string(ref) + ")"})')
        shifts = {}
        for v, c in zip(values, cats):
            if c != refname:
                nm = f'{bname}_{c}'
                if nm not in A.betas:
                    A.betas[nm] = init if status == 1 else grid(rng, -3, 3, 4)
                shifts[v] = A.betas[nm]
        for i in range(nrows):
            xv = rng.choice(values + [values[0], 77])
            A.rows[i][var] = Fraction(xv)
            total[i] += shifts.get(xv, Fraction(0))
    case = {'kind': 'segmented', 'beta': beta, 'segs': segs, 'via_function': rng.random() < 0.3}
    coq_term = f'segmented_beta {coq_string(bname)} {"true" if status else "false"} [' + '; '.join(coq_segs) + ']'
    return case, coq_term, (total if valid else None)


# ============================================================================ running cases
KINDS = ['pwvars', 'pwformula', 'pwasvar', 'boxcox', 'boxcox', 'normalpdf', 'lognormalpdf', 'uniformpdf',
         'triangularpdf', 'logisticcdf', 'loglikelihoodregression', 'likelihoodregression', 'segmented']
COQ_HEADER = ('From BV Require Import Model.Expr Model.Builders17.\n'
              'Open Scope Z_scope. Open Scope string_scope.\n')


def run_impl(ctx, cases, chunk=24):
    if not ctx.quick:
        chunk = max(chunk, 48)
    payloads = [{'cases': cases[i:i + chunk]} for i in range(0, len(cases), chunk)]
    extra = {'PYTHONPATH': REPO_ROOT + '/src'} if REPO_ROOT != '/repo' else None
    res = ctx.impl_parallel('c17_build.py', payloads, timeout=1200, extra_env=extra)
    return [r for part in res for r in part]


def val_list(res):
    v = res.get('values')
    if v is None:
        return None
    if v and isinstance(v[0], list):
        return [[float.fromhex(x) for x in row] for row in v]
    return [float.fromhex(x) for x in v]


def witness_of(g, res, row=None):
    w = {'case': g['case']}
    if row is not None:
        w['row'] = row
    if res is not None:
        w['implementation'] = {k: v for k, v in res.items() if k not in ('tree', 'trees', 'betas')}
    return w


def oracle(ctx, g, res, st=None):
    """the property, evaluated on the engine's numbers: value = documented closed form.
    Returns the number of violations recorded."""
    kind = g['kind']
    nv = 0
    how = ('build the expression with the helper named in case.kind on case arguments, evaluate it with '
           'get_value_c on case.rows / case.beta_values (see lib/impl/c17_build.py) and compare with the closed form')
    if not res.get('ok'):
        if 'expect' in g or 'expect_vars' in g:
            ctx.violation(f'C17/{kind}/refused', f'{kind} raised {res.get("exc")} on valid arguments',
                          witness_of(g, res), 'an expression', res.get('msg'), how)
            return 1
        return 0
    if 'eval_error' in res:
        if 'expect' in g:
            ctx.violation(f'C17/{kind}/eval-error', f'{kind}: the engine could not evaluate the expression',
                          witness_of(g, res), 'a value', res['eval_error'], how)
            return 1
        return 0
    vals = val_list(res)
    if vals is None:
        return 0
    absl = g.get('absl', 0.0)
    if kind == 'pwvars' and 'expect_vars' in g:
        nrows = len(g['expect'])
        for i in range(nrows):
            per_var = [vals[k][i] for k in range(len(vals))]
            exp_vars = g['expect_vars'][i]
            if len(per_var) != len(exp_vars):
                ctx.violation('C17/pwvars/count', f'piecewise_variables returned {len(per_var)} variables for '
                              f'{len(g["case"]["ts"])} thresholds', witness_of(g, res, i), len(exp_vars), len(per_var), how)
                return nv + 1
            tot = math.fsum(per_var)
            if not close(tot, g['expect'][i], g['tol'], absl):
                ctx.violation('C17/pwvars/sum', 'the piecewise variables do not sum to the clipped distance from the first '
                              'threshold', witness_of(g, res, i), str(g['expect'][i]), tot, how)
                nv += 1
            elif any(not close(o, e, g['tol'], absl) for o, e in zip(per_var, exp_vars)):
                ctx.violation('C17/pwvars/variable', 'a piecewise variable differs from max(0, min(t - a, b))',
                              witness_of(g, res, i), [str(e) for e in exp_vars], per_var, how)
                nv += 1
        return nv
    if 'expect' not in g:
        return 0
    for i, (o, e) in enumerate(zip(vals, g['expect'])):
        if not close(o, e, g['tol'], absl):
            ctx.violation(f'C17/{kind}/value', f'{kind}: the engine value differs from the documented closed form',
                          witness_of(g, res, i), str(e), o, how)
            nv += 1
    return nv


def structural(ctx, st, gens, results, tag):
    """tree built by Python == tree built by the Gallina builder (expr_eqb inside Coq)"""
    items = []
    for g, r in zip(gens, results):
        if r.get('stage') in ('bridge', 'runner'):
            st.disagree(g['case'], 'a tree', r, 'bridge/runner failure')
            items.append('false')
            continue
        items.append(g['coq'](r))
    B = 60
    files = {}
    for i in range(0, len(items), B):
        files[f'{tag}_{i // B}'] = COQ_HEADER + 'Eval vm_compute in [\n' + ';\n'.join(items[i:i + B]) + '].\n'
    outs = ctx.coq_eval_many(files)
    bad = []
    for k in sorted(files, key=lambda s: int(s.rsplit('_', 1)[1])):
        ok, out = outs[k]
        i0 = int(k.rsplit('_', 1)[1]) * B
        n_here = len(items[i0:i0 + B])
        if not ok:
            ctx.stream_broken(st.name, 'model evaluation failed: ' + out[-800:])
            continue
        bs = parse_bools(out)
        if len(bs) != n_here:
            ctx.stream_broken(st.name, f'could not parse model output ({len(bs)} results for {n_here} cases)')
            continue
        for j, b in enumerate(bs):
            if not b:
                g, r = gens[i0 + j], results[i0 + j]
                st.disagree(g['case'], 'tree of the Gallina builder (Model/Builders17.v)',
                            {k_: v for k_, v in r.items() if k_ not in ('values',)}, g['kind'])
                bad.append(i0 + j)
    return bad


def load_corpus(name):
    import os
    p = f'/verif/corpus/C17/{name}.json'
    if not os.path.exists(p):
        return []
    return json.load(open(p))


def corpus_gens():
    """hand-written witnesses (including the three repaired defects), expressed as generator outputs"""
    gens = []
    for c in load_corpus('build'):
        g = {'kind': c['case']['kind'], 'case': c['case'], 'tol': c.get('tol', REL_RAT), 'absl': c.get('absl', 0.0),
             'nontrivial': True, 'corpus': c.get('id')}
        if 'expect' in c:
            g['expect'] = [Fraction(e) for e in c['expect']]
        if 'expect_vars' in c:
            g['expect_vars'] = [[Fraction(e) for e in row] for row in c['expect_vars']]
        if c.get('closed') in ('loglikelihoodregression', 'likelihoodregression'):   # rows carry y; beta_values m, s
            bvs = c['case']['beta_values']
            m_, s_ = fr(float.fromhex(bvs['m'])), fr(float.fromhex(bvs['s']))
            vals = [regression_closed(fr(float.fromhex(r['y'])), m_, s_) for r in c['case']['rows']]
            g['expect'] = vals if c['closed'] == 'loglikelihoodregression' else [v.exp() for v in vals]
            g['tol'], g['absl'] = REL_CONST, 1e-11
        if c.get('closed') == 'boxcox':      # rows carry x, beta_values carry l
            l = fr(float.fromhex(c['case']['beta_values']['l']))
            g['expect'] = [boxcox_closed(fr(float.fromhex(r['x'])), l) for r in c['case']['rows']]
            g['tol'], g['absl'] = 1e-9, 1e-13
        coq_ok, coq_err = c['coq_ok'], c.get('coq_err', 'false')

        def coq(res, coq_ok=coq_ok, coq_err=coq_err):
            if not res.get('ok'):
                return coq_err
            if 'trees' in res:
                return coq_ok.replace('@TREES', '[' + '; '.join(json_to_coq(t) for t in res['trees']) + ']')
            return coq_ok.replace('@TREE', json_to_coq(res['tree']))
        g['coq'] = coq
        g['envs'] = [{'beta': {k: float.fromhex(v) for k, v in c['case'].get('beta_values', {}).items()},
                      'var': {k: float.fromhex(v) if isinstance(v, str) else float(v) for k, v in r.items()}}
                     for r in c['case'].get('rows', [])]
        gens.append(g)
    return gens


def stream_build_values(ctx):
    st = ctx.stream('build17', 'helpers x generated arguments (threshold lists of 2-6 entries with None ends, non-zero '
                    'first threshold, ints/floats incl. decimal thresholds whose differences Python rounds, malformed lists; '
                    'Beta / Numeric / float / int / Variable / compound arguments; 1-3 segmentations of 2-4 segments with '
                    'every reference choice); non-trivial = the helper built a tree; distinct by the full argument tuple')
    sv = ctx.stream('values17', 'engine value of every built helper on 3 rows vs (a) the proved interval enclosure of evalX '
                    'of the tree (evalI, relative tolerance 2^-30) and (b) the documented closed form in exact rational / '
                    '60-digit arithmetic; Box-Cox exponents within 2e-5 of the switching points +-1e-5; non-trivial = decided '
                    'by the interval evaluator; distinct by (tree, row)')
    rng = ctx.sub_rng('build17')
    n = ctx.n(260, 2400)
    gens = corpus_gens()
    for i in range(n):
        gens.append(gen_case(rng, KINDS[i % len(KINDS)]))
    results = run_impl(ctx, [g['case'] for g in gens])
    for g, r in zip(gens, results):
        st.record({'kind': g['kind'], 'case': {k: v for k, v in g['case'].items() if k not in ('rows', 'beta_values')}},
                  nontrivial=bool(r.get('ok')) and g.get('nontrivial', True))
    bad = structural(ctx, st, gens, results, 'b17')
    if st.disagreements:
        ctx.stream_broken('build17', f'{len(st.disagreements)} structural disagreements, first: '
                          + json.dumps(st.disagreements[0], default=str)[:1500])
    # property oracle on every case (disagreeing ones first)
    order = bad + [i for i in range(len(gens)) if i not in set(bad)]
    nviol = 0
    for i in order:
        nviol += oracle(ctx, gens[i], results[i])
    # enclosures
    from values import check_values
    vcases, owners = [], []
    near = 0
    for gi, (g, r) in enumerate(zip(gens, results)):
        if not r.get('ok') or 'values' not in r:
            continue
        vals = val_list(r)
        trees = r['trees'] if 'trees' in r else [r['tree']]
        for ti, t in enumerate(trees):
            vs = vals[ti] if 'trees' in r else vals
            for ri, (env, o) in enumerate(zip(g['envs'], vs)):
                vcases.append({'expr': t, 'env': env, 'observed': o})
                owners.append((gi, ti, ri))
        if g.get('near_switch'):
            near += 1
    sv.extra['boxcox_cases_within_2e-5_of_switch'] = near
    try:
        verdicts = check_values(ctx, 'values17', vcases, relbits=-30)
    except RuntimeError as e:
        ctx.stream_broken('values17', 'interval evaluation failed: ' + str(e)[-600:])
        verdicts = []
    und = 0
    for c, (gi, ti, ri), (verdict, info) in zip(vcases, owners, verdicts):
        g = gens[gi]
        sv.record({'kind': g['kind'], 'env': c['env'], 'tree': sha(c['expr'])}, nontrivial=verdict != 'undecided')
        if verdict == 'undecided':
            und += 1
        elif verdict == 'differ':
            sv.disagree({'case': g['case'], 'row': ri, 'tree': ti}, info, c['observed'], g['kind'])
    sv.extra['undecided'] = und
    if sv.disagreements:
        ctx.stream_broken('values17', f'{len(sv.disagreements)} engine values outside the enclosure of evalX, first: '
                          + json.dumps(sv.disagreements[0], default=str)[:1200])
        d = sv.disagreements[0]
        ctx.violation(f'C17/{d["note"]}/enclosure', 'engine value outside the proved enclosure of the tree value',
                      d['case'], d['model'], d['implementation'],
                      'evaluate the helper with get_value_c on the row; compare with evalI (Model/EvalI.v)')


# ---------------------------------------------------------------------------- piecewise_function (tie A validation + oracle)
def stream_pwfun(ctx):
    st = ctx.stream('pwfun17', 'piecewise_function(x, thresholds, betas) vs the sum of beta_i * max(0, min(x - t_i, '
                    't_{i+1} - t_i)) in exact rational arithmetic (what Gen/Piecewise.v is proved to compute); valid sorted '
                    'lists with None ends and non-zero first threshold, x below / inside / on / above the thresholds; '
                    'non-trivial = x beyond the first threshold; distinct by (x, thresholds, betas)')
    rng = ctx.sub_rng('pwfun17')
    cases, expect = [], []
    for c in load_corpus('pwfun'):
        cases.append(c['case'])
        expect.append(Fraction(c['expect']))
    n = ctx.n(300, 6000)
    while len(cases) < n:
        ts, tk = gen_thresholds(rng)
        if tk != 'exact':
            continue
        tsf = ts_frac(ts)
        betas = [grid(rng, -3, 3, 4) for _ in range(len(ts) - 1)]
        for x in xs_around(rng, ts, 3):
            cases.append({'kind': 'pwfunction', 'x': hx(x), 'ts': ts_json(ts), 'betas': [hx(b) for b in betas]})
            expect.append(pw_plain(x, tsf, betas))
    res = run_impl(ctx, cases, chunk=200)
    for c, e, r in zip(cases, expect, res):
        first = next((t for t in c['ts'] if t is not None), None)
        st.record(c, nontrivial=e != 0)
        if not r.get('ok'):
            st.disagree(c, str(e), r)
            ctx.violation('C17/pwfunction/refused', 'piecewise_function raised on a valid threshold list', c, str(e), r,
                          'call biogeme.models.piecewise.piecewise_function(x, thresholds, betas)')
            continue
        o = float.fromhex(r['value'])
        if not close(o, e, REL_RAT, 2.0 ** -40):
            st.disagree(c, str(e), o)
            ctx.violation('C17/pwfunction/value', 'piecewise_function differs from the piecewise formula '
                          '(sum of beta_i * clipped variables)', c, str(e), o,
                          'call biogeme.models.piecewise.piecewise_function(x, thresholds, betas)')
    if st.disagreements:
        ctx.stream_broken('pwfun17', f'{len(st.disagreements)} disagreements, first: {json.dumps(st.disagreements[0], default=str)[:800]}')


# ---------------------------------------------------------------------------- segmented_code
def unwrap1(t):
    """bioMultSum([e]) and e describe the same formula: when no category differs from the reference,
    segmented_code() writes the bare Beta(...) while segmented_beta() wraps it in a one-term sum"""
    if t.get('h') == ['MultSum'] and len(t.get('k', [])) == 1:
        return t['k'][0]
    return t


def stream_segcode(ctx):
    st = ctx.stream('segcode', 'exec of Segmentation.segmented_code() in a fresh namespace (only Beta, Variable, bioMultSum, '
                    'Numeric imported) must define <prefix>_<beta> as a tree structurally equal to segmented_beta(), with '
                    'identical (name, value, bounds, status) on every Beta; 1-3 segmentations of 2-4 segments, all reference '
                    'choices, bounds present/absent, fixed/free, custom prefix; non-trivial = at least one non-reference '
                    'category; distinct by the segmentation')
    rng = ctx.sub_rng('segcode')
    cases = [c['case'] for c in load_corpus('segcode')]
    n = ctx.n(120, 2500)
    while len(cases) < n:
        A = Args(rng, 1)
        case, _, _ = gen_segmentation(rng, A, 1, force_valid=True)
        case = dict(case, kind='segcode')
        case.pop('via_function', None)
        if rng.random() < 0.3:
            case['prefix'] = rng.choice(['seg', 'my_prefix', 'p'])
        cases.append(case)
    res = run_impl(ctx, cases, chunk=40)
    how = 'exec(Segmentation(beta, tuples, prefix).segmented_code()) after `from biogeme.expressions import Beta, Variable, bioMultSum, Numeric`'
    for c, r in zip(cases, res):
        nonref = sum(len(s['mapping']) for s in c['segs']) - len(c['segs'])
        st.record(c, nontrivial=nonref > 0)
        if not r.get('ok'):
            st.disagree(c, 'code', r)
            ctx.violation('C17/segcode/refused', 'segmented_code()/segmented_beta() raised', c, 'code', r, how)
            continue
        if 'exec_error' in r:
            st.disagree(c, 'executable code', r['exec_error'])
            ctx.violation('C17/segcode/exec', 'the generated specification code does not execute', c,
                          'code defining the segmented parameter', {'code': r['code'], 'error': r['exec_error']}, how)
            continue
        if unwrap1(r['rebuilt']) != unwrap1(r['direct']):
            st.disagree(c, r['direct'], r['rebuilt'])
            ctx.violation('C17/segcode/tree', 'the generated code describes a different formula than segmented_beta()', c,
                          r['direct'], {'code': r['code'], 'rebuilt': r['rebuilt']}, how)
        elif r['rebuilt_betas'] != r['direct_betas']:
            st.disagree(c, r['direct_betas'], r['rebuilt_betas'])
            ctx.violation('C17/segcode/betas', 'the generated code declares parameters with other values / bounds / status', c,
                          r['direct_betas'], {'code': r['code'], 'rebuilt': r['rebuilt_betas']}, how)
    if st.disagreements:
        ctx.stream_broken('segcode', f'{len(st.disagreements)} disagreements, first: {json.dumps(st.disagreements[0], default=str)[:800]}')


# ---------------------------------------------------------------------------- nested-logit correlation
def nl_model(choice_set, nests, mu):
    """Builders17.nl_correlation with nl_corr_entry (exact rationals)"""
    out = []
    for i in choice_set:
        row = []
        for j in choice_set:
            acc = Fraction(1 if i == j else 0)
            for mu_m, alts in nests:
                if i in alts and j in alts and i != j:
                    acc = 1 - (mu * mu) / (mu_m * mu_m)
            row.append(acc)
        out.append(row)
    return out


def stream_corr(ctx):
    st = ctx.stream('corr17', 'NestsForNestedLogit.correlation() vs nl_correlation (Model/Builders17.v) with the entry formula '
                    'of Gen/Piecewise.v, in exact rationals; partitions of 3-8 alternatives (any labels, shuffled choice set) '
                    'into 1-3 nests plus alternatives alone, nest parameters as numbers or Beta, mu = 1 and mu <> 1; also '
                    'the property itself: 1 - 1/mu_m^2 within a nest, 0 across, 1 on the diagonal; non-trivial = some nest '
                    'with >= 2 alternatives; distinct by (choice set, nests, mu)')
    rng = ctx.sub_rng('corr17')
    cases = [c['case'] for c in load_corpus('nlcorr')]
    n = ctx.n(80, 1500)
    while len(cases) < n:
        k = rng.randint(3, 8)
        labels = rng.sample(range(0, 30), k)
        pool = labels[:]
        rng.shuffle(pool)
        nests = []
        for _ in range(rng.randint(1, 3)):
            if len(pool) < 1:
                break
            size = rng.randint(1, min(4, len(pool)))
            alts, pool = pool[:size], pool[size:]
            u = rng.random()
            mu_m = grid(rng, 1, 5, 8) if u < 0.8 else (grid(rng, 0.25, 1, 8) if u < 0.9 else -grid(rng, 1, 5, 8))
            nests.append([hx(mu_m), alts])
        mu = None if rng.random() < 0.6 else hx(rng.choice([Fraction(1), grid(rng, 0.5, 1, 8), Fraction(1, 2),
                                                            -grid(rng, 0.5, 1, 8), Fraction(-1)]))
        cases.append({'kind': 'nlcorr', 'choice_set': labels, 'nests': nests, 'mu': mu, 'as_beta': rng.random() < 0.4})
    res = run_impl(ctx, cases, chunk=20)
    how = 'NestsForNestedLogit(choice_set, nests).correlation(mu=mu)'
    for c, r in zip(cases, res):
        st.record(c, nontrivial=any(len(a) >= 2 for _, a in c['nests']))
        if not r.get('ok'):
            st.disagree(c, 'a matrix', r)
            ctx.violation('C17/nlcorr/refused', 'correlation() raised', c, 'a matrix', r, how)
            continue
        mu = Fraction(1) if c.get('mu') is None else fr(float.fromhex(c['mu']))
        nests = [(fr(float.fromhex(m)), a) for m, a in c['nests']]
        model = nl_model(c['choice_set'], nests, mu)
        obs = [[float.fromhex(v) for v in row] for row in r['matrix']]
        okm = len(obs) == len(model) and all(
            close(o, e, 2.0 ** -48, 2.0 ** -48) for ro, re_ in zip(obs, model) for o, e in zip(ro, re_))
        if not okm:
            st.disagree(c, [[str(e) for e in row] for row in model], obs)
            # the property: within 1 - mu^2/mu_m^2 (1 - 1/mu_m^2 for mu = 1), across 0, diagonal 1 -- same numbers
            ctx.violation('C17/nlcorr/value', 'nested-logit correlation differs from 1 - 1/mu_m^2 within a nest / 0 across / '
                          '1 on the diagonal', c, [[str(e) for e in row] for row in model], obs, how)
    if st.disagreements:
        ctx.stream_broken('corr17', f'{len(st.disagreements)} disagreements, first: {json.dumps(st.disagreements[0], default=str)[:800]}')


# ============================================================================ entry points
def run(ctx):
    ctx.assumptions += ASSUME
    ctx.trusted += TRUSTED
    try:
        gen_all(ctx)
    except Untranslatable as e:
        ctx.tie_broken('py2v:Piecewise', str(e))
    t0 = time.time()
    ctx.build()
    ctx.notes['wall_build_s'] = round(time.time() - t0, 1)
    for f in (stream_pwfun, stream_build_values, stream_segcode, stream_corr):
        t0 = time.time()
        f(ctx)
        ctx.notes['wall_' + f.__name__ + '_s'] = round(time.time() - t0, 1)


def replay(ctx, path):
    w = json.load(open(path))
    wit = w.get('witness')
    if not isinstance(wit, dict):
        print('replay: this file names an obligation/stream; re-run ./check C17')
        return 2
    case = wit.get('case', wit)
    kind = case.get('kind')
    try:
        r = run_impl(ctx, [case])[0]
    finally:
        import shutil
        shutil.rmtree(ctx.scratch, ignore_errors=True)
    still = None
    if kind == 'pwfunction':
        tsf = [None if t is None else (Fraction(t) if isinstance(t, int) else fr(float.fromhex(t))) for t in case['ts']]
        e = pw_plain(fr(float.fromhex(case['x'])), tsf, [fr(float.fromhex(b)) for b in case['betas']])
        still = (not r.get('ok')) or not close(float.fromhex(r['value']), e, REL_RAT, 2.0 ** -40)
    elif kind == 'segcode':
        still = (not r.get('ok')) or 'exec_error' in r or unwrap1(r.get('rebuilt', {})) != unwrap1(r.get('direct', {})) or \
            r.get('rebuilt_betas') != r.get('direct_betas')
    elif kind == 'nlcorr':
        mu = Fraction(1) if case.get('mu') is None else fr(float.fromhex(case['mu']))
        model = nl_model(case['choice_set'], [(fr(float.fromhex(m)), a) for m, a in case['nests']], mu)
        still = (not r.get('ok')) or not all(
            close(float.fromhex(o), e, 2.0 ** -48, 2.0 ** -48) for ro, re_ in zip(r['matrix'], model) for o, e in zip(ro, re_))
    else:
        exp, obs = w.get('expected'), None
        vals = val_list(r) if r.get('ok') else None
        row = wit.get('row')
        if vals is None:
            still = True
        elif isinstance(exp, str) and row is not None:
            e = Fraction(exp) if '/' in exp or exp.lstrip('-').isdigit() else Decimal(exp)
            obs = math.fsum(v[row] for v in vals) if (vals and isinstance(vals[0], list)) else vals[row]
            tol = REL_RAT if isinstance(e, Fraction) else 1e-9
            still = not close(obs, e, tol, 1e-11)
        else:
            still = w.get('observed') == (vals if vals is not None else None)
    print(json.dumps({'witness': case, 'observed_now': {k: v for k, v in r.items() if k not in ('tree', 'trees', 'direct', 'rebuilt')},
                      'still_fails': bool(still)}, default=str)[:3000])
    return 1 if still else 0
