"""C07 -- estimation returns a feasible point that is a maximum of the stated likelihood.

Tie A (regenerated on every run, Gen/NegLike.v):
  * NegativeLikelihood._f / _f_g / _f_g_h translated by py2v (a small subclass adds `-v` on vectors / matrices and
    the narrowing `if self.x is None: raise`),
  * the table optimization.algorithms, per wrapper of optimization.py the routine it finally calls and whether
    fct / init_betas / bounds are handed on, which `parameters[...]` keys feed which keyword of the routine,
  * the option table of BIOGEME._set_algorithm_parameters, _set_function_parameters, the `automatic` renaming and
    the calls of optimize, the skeleton of estimate, the field assignments of results.RawResults and the
    (name, section) table of default_parameters.py.
Tie B / property oracles: stream `estimate` (real estimations, every algorithm) and stream `plumbing` (the external
routines replaced by recording spies; the recorded call is compared inside Coq with the call the generated tables
predict)."""
import ast
import json
import math
import os
import sys
from fractions import Fraction

import py2v
from py2v import Untranslatable, simple, External
from common import coq_string, coq_list, coq_bool, parse_bools, REPO, VERIF

ASSUME = [
    'floats are read as reals in the Rocq model; a vector is a list of reals',
    'the optimisation routines (biogeme_optimization.*, scipy.optimize.minimize) are an ORACLE: a Section variable '
    '`ext routine options objective x0 bounds`.  Every theorem that depends on what the routine returns carries the '
    'needed contract as an explicit hypothesis (descent: objective(x*) <= objective(x0); feasibility: x* lies in the box '
    'it was handed).  These contracts are only SAMPLED by stream `estimate` (partial)',
    'biogeme_optimization.function.FunctionToMinimize.set_variables(x); f()/f_g()/f_g_h() evaluates _f/_f_g/_f_g_h with '
    'self.x = x (external base class, not verified)',
    'L, its gradient, Hessian and BHHH are abstract functions of the parameter vector (their correctness is C01/C02/C04); '
    'concavity enters `concave_kkt` as the first-order inequality L y <= L x + grad L(x).(y - x)',
    'the finite-difference fallback of estimate() for a non-finite analytical Hessian is outside the model (reals are finite)',
    'stream tolerances: reported logLike/g/H/bhhh vs recomputation by a fresh BIOGEME object: relative 1e-12 of the scale '
    '(same engine, one thread: differences come only from the evaluation path); vs an independent numpy evaluation of the '
    'logit likelihood: 1e-9 relative of the sum of absolute terms; final >= init up to 1e-9 relative',
    'stationarity and agreement are properties of EXTERNAL optimisers with their own stopping rules (biogeme_optimization: '
    'relative projected gradient max_i |pg_i| max(|x_i|,1) / max(|f(x*)|,|f(x0)|,1) <= tolerance = eps^(1/4) ~ 1.2e-4, or relative '
    'step <= 1e-5; scipy L-BFGS-B: projected gradient <= 1e-7 or relative decrease <= eps).  The stream accepts that same relative '
    'projected gradient up to 1e-3 when convergence is reported (8 times the stopping rule; a wrong sign / dropped bound / wrong '
    'point gives 1e-2..1).  Maxima are compared to 1e-5 relative, but only between converged runs whose own estimated distance to '
    'the maximum (1.25 sum |g_i pg_i|: first order on coordinates held by a bound, second order elsewhere, curvature >= 0.4 '
    'guaranteed by the generator) is below 1e-6 |L|; runs the optimiser stopped earlier than that are skipped and counted '
    '(agreement_skipped_loosely_converged in the evidence)',
    'generated problems are binary / multinomial logit models linear in 1-3 parameters (concave log likelihood) on 30-80 rows '
    'of dyadic data, filtered (by a numpy Newton iteration in the harness) to have a finite maximum',
]


def U(n):
    return ast.unparse(n)


def need(cond, msg):
    if not cond:
        raise Untranslatable(msg)


def _dotted(n):
    if isinstance(n, ast.Name):
        return n.id
    if isinstance(n, ast.Attribute):
        b = _dotted(n.value)
        return None if b is None else b + '.' + n.attr
    return None


def S(s):
    return coq_string(s) + '%string'


# ---------------------------------------------------------------------------- tie A: NegativeLikelihood
class NLTranslator(py2v.Translator):
    """py2v plus two constructs needed by negative_likelihood.py (fail-closed like the base class):
       * unary minus on a numpy vector / matrix  -> vopp / mopp,
       * `if <x> is None: raise ...` as first use of an optional attribute -> match, the attribute is then
         known to be set in the continuation."""

    def _expr(self, node, env, want=None):
        if isinstance(node, ast.UnaryOp) and isinstance(node.op, ast.USub):
            c, t = self.expr(node.operand, env)
            if t == 'vec':
                return f'(vopp {c})', 'vec'
            if t == 'mat':
                return f'(mopp {c})', 'mat'
            if t == 'R':
                return f'(- {c})%R', 'R'
            self.err(node, f'negation of {t}')
        return super()._expr(node, env, want)

    def block(self, stmts, env, tail, rettype):
        if stmts and isinstance(stmts[0], ast.If):
            s = stmts[0]
            t = s.test
            if (not s.orelse and isinstance(t, ast.Compare) and len(t.ops) == 1 and isinstance(t.ops[0], ast.Is)
                    and isinstance(t.comparators[0], ast.Constant) and t.comparators[0].value is None):
                d = self.dotted(t.left)
                if d is not None and d in env and env[d].startswith('option '):
                    body = [x for x in s.body if not self.ignorable(x)]
                    if len(body) == 1 and isinstance(body[0], ast.Raise) and self.partial:
                        env2 = dict(env)
                        env2[d] = env[d][len('option '):]
                        v = py2v.mangle(d)
                        rest = self.block(stmts[1:], env2, tail, rettype)
                        return f'match {v} with\n| None => None\n| Some {v} =>\n{rest}\nend'
        return super().block(stmts, env, tail, rettype)


def _signature(tr, qualname):
    fd = tr.find(qualname)
    need(not (fd.args.vararg or fd.args.kwarg or fd.args.kwonlyargs or fd.args.posonlyargs),
         f'{qualname}: unexpected signature')
    names = [a.arg for a in fd.args.args]
    need(names and names[0] == 'self', f'{qualname}: not a method')
    return names[1:]


def _kw_call(coq, order, types, ret):
    """a call with one positional argument (x) and keyword arguments, mapped on the positional order `order`
    of the callee's signature"""
    def fn(tr, node, args, kw):
        need(len(args) == 1, f'{coq}: expected exactly one positional argument')
        need([order[0]] + sorted(kw) == [order[0]] + sorted(order[1:]),
             f'{coq}: keyword arguments {sorted(kw)} do not match the signature {order}')
        codes = [tr.coerce(args[0][0], args[0][1], types[0], node)]
        for name, ty in zip(order[1:], types[1:]):
            c, t = kw[name]
            codes.append(tr.coerce(c, t, ty, node))
        return f'({coq} ' + ' '.join(codes) + ')', ret
    return External(fn)


def _fd_call(tr, node, args, kw):
    need(not args and sorted(kw) == ['function', 'gradient', 'hessian'], 'FunctionData: unexpected arguments')
    f = tr.coerce(*kw['function'], 'R', node)
    g = tr.coerce(*kw['gradient'], 'vec', node)
    h = tr.coerce(*kw['hessian'], 'option mat', node)
    return f'(mkFD {f} {g} {h})', 'function_data'


def gen_neglike_functions():
    rel = 'src/biogeme/negative_likelihood.py'
    try:
        src = (REPO / rel).read_text()
        bio = py2v.load('src/biogeme/biogeme.py')
    except OSError as e:
        raise Untranslatable(f'cannot read {rel}: {e}')
    like_sig = _signature(bio, 'BIOGEME.calculate_likelihood')
    need(like_sig == ['x', 'scaled', 'batch'], f'calculate_likelihood: signature changed: {like_sig}')
    ld_sig = _signature(bio, 'BIOGEME.calculate_likelihood_and_derivatives')
    need(ld_sig == ['x', 'scaled', 'hessian', 'bhhh', 'batch'],
         f'calculate_likelihood_and_derivatives: signature changed: {ld_sig}')
    ext = {
        'kw:self.like': _kw_call('like', like_sig, ['vec', 'bool', 'option R'], 'R'),
        'kw:self.like_derivatives': _kw_call('like_derivatives', ld_sig, ['vec', 'bool', 'bool', 'bool', 'option R'],
                                             'function_output'),
        'kw:FunctionData': External(_fd_call),
        '.function': simple('fo_function', ['function_output'], 'R'),
        '.gradient': simple('fo_gradient', ['function_output'], 'vec'),
        '.hessian': simple('fo_hessian', ['function_output'], 'mat'),
        '.bhhh': simple('fo_bhhh', ['function_output'], 'mat'),
    }
    try:
        tr = NLTranslator(src, rel, externals=ext)
    except SyntaxError as e:
        raise Untranslatable(f'{rel}: syntax error {e}')
    # class shape: subclass of the optimiser's FunctionToMinimize; like / like_derivatives stored unchanged
    cls = [n for n in tr.tree.body if isinstance(n, ast.ClassDef) and n.name == 'NegativeLikelihood']
    need(len(cls) == 1 and [U(b) for b in cls[0].bases] == ['FunctionToMinimize'],
         'NegativeLikelihood is not a direct subclass of FunctionToMinimize')
    init = tr.find('NegativeLikelihood.__init__')
    need([a.arg for a in init.args.args] == ['self', 'dimension', 'like', 'like_derivatives', 'parameters'],
         'NegativeLikelihood.__init__: signature changed')
    stored = {}
    for n in ast.walk(init):
        if isinstance(n, (ast.Assign, ast.AnnAssign)):
            tg = n.targets[0] if isinstance(n, ast.Assign) else n.target
            if isinstance(tg, ast.Attribute) and U(tg.value) == 'self' and n.value is not None:
                need(tg.attr not in stored, f'NegativeLikelihood.__init__: self.{tg.attr} assigned twice')
                stored[tg.attr] = U(n.value)
    need(stored.get('like') == 'like' and stored.get('like_derivatives') == 'like_derivatives',
         'NegativeLikelihood.__init__: like / like_derivatives are not stored unchanged')
    for m in ('_f', '_f_g', '_f_g_h'):
        for n in ast.walk(tr.find('NegativeLikelihood.' + m)):
            need(not (isinstance(n, (ast.Attribute, ast.Name)) and isinstance(n.ctx, ast.Store)
                      and U(n).startswith('self')), f'NegativeLikelihood.{m}: assigns an attribute')
    # super().__init__(epsilon=tolerance, steptol=steptol) with tolerance = parameters['tolerance'] ...
    sup = [n for n in ast.walk(init) if isinstance(n, ast.Call) and U(n.func) == 'super().__init__']
    need(len(sup) == 1 and not sup[0].args, 'NegativeLikelihood.__init__: call of the base constructor changed')
    plumbing = []
    for k in sup[0].keywords:
        need(isinstance(k.value, ast.Name), 'NegativeLikelihood.__init__: base constructor argument is not a variable')
        key = _param_key(init, k.value.id, where='NegativeLikelihood.__init__')
        plumbing.append((k.arg, key))
    out = ['Section NegLike.\n',
           '(* self.like = BIOGEME.calculate_likelihood(x, scaled, batch) and\n'
           '   self.like_derivatives = BIOGEME.calculate_likelihood_and_derivatives(x, scaled, hessian, bhhh, batch),\n'
           '   keyword arguments placed by the signatures read from biogeme.py *)\n',
           'Variable like : vec -> bool -> option R -> R.\n',
           'Variable like_derivatives : vec -> bool -> bool -> bool -> option R -> function_output.\n']
    for m in ('_f', '_f_g', '_f_g_h'):
        ret = 'R' if m == '_f' else 'function_data'
        out.append(tr.function('NegativeLikelihood.' + m, {'self.x': 'option vec'}, ret, partial=True))
    out.append('End NegLike.\n')
    out.append('(* NegativeLikelihood.__init__: keyword of FunctionToMinimize.__init__ <- key of `parameters` *)\n'
               'Definition function_parameters_plumbing : list (string * string) :=\n  '
               + coq_list([f'({S(a)}, {S(b)})' for a, b in plumbing]) + '.\n')
    return ''.join(out)


def _param_key(fn, var, where):
    """var is assigned `parameters['key']` under `if 'key' in parameters:` exactly once (besides constant defaults);
    returns key"""
    keys = []
    for n in ast.walk(fn):
        if isinstance(n, ast.If) and isinstance(n.test, ast.Compare) and len(n.test.ops) == 1 \
                and isinstance(n.test.ops[0], ast.In) and U(n.test.comparators[0]) == 'parameters' \
                and isinstance(n.test.left, ast.Constant) and isinstance(n.test.left.value, str):
            key = n.test.left.value
            for s in n.body:
                if isinstance(s, ast.Assign) and len(s.targets) == 1 and U(s.targets[0]) == var:
                    need(isinstance(s.value, ast.Subscript) and U(s.value.value) == 'parameters'
                         and isinstance(s.value.slice, ast.Constant) and s.value.slice.value == key,
                         f'{where}: {var} is not read from parameters[{key!r}]')
                    keys.append(key)
    need(len(keys) == 1, f'{where}: {var} is fed by {len(keys)} parameter keys')
    return keys[0]


# ---------------------------------------------------------------------------- tie A: optimization.py
# names imported from biogeme_optimization that are types, not optimisation routines
NOT_ROUTINES = {'Bounds', 'OptimizationResults', 'FunctionToMinimize'}
WRAPPER_ARGS = ['fct', 'init_betas', 'bounds', 'variable_names', 'parameters']


def _const_token(node):
    """canonical token of a literal default (numbers as exact rationals), or expr:<source>"""
    try:
        v = ast.literal_eval(node)
    except Exception:
        return 'expr:' + U(node)
    return value_token(v)


def value_token(v):
    if v is None:
        return 'None'
    if isinstance(v, bool):
        return 'True' if v else 'False'
    if isinstance(v, (int, float)):
        if isinstance(v, float) and not math.isfinite(v):
            return 'float:' + repr(v)
        fr = Fraction(v)
        return f'{fr.numerator}/{fr.denominator}'
    if isinstance(v, str):
        return 'str:' + v
    return 'expr:' + repr(v)


def extract_optimization():
    rel = 'src/biogeme/optimization.py'
    try:
        tree = ast.parse((REPO / rel).read_text())
    except Exception as e:
        raise Untranslatable(f'{rel}: cannot parse: {e}')
    # external names: `from biogeme_optimization.X import a, b` and `import scipy.optimize as sc`
    external = {}
    for n in tree.body:
        if isinstance(n, ast.ImportFrom) and (n.module or '').startswith('biogeme_optimization'):
            for a in n.names:
                if a.name not in NOT_ROUTINES:
                    external[a.asname or a.name] = f'{n.module}.{a.name}'
        if isinstance(n, ast.Import):
            for a in n.names:
                if a.name == 'scipy.optimize':
                    external[(a.asname or a.name) + '.minimize'] = 'scipy.optimize.minimize'
    funcs = {n.name: n for n in tree.body if isinstance(n, ast.FunctionDef)}
    # the table
    tabs = [n for n in tree.body if isinstance(n, ast.Assign) and len(n.targets) == 1 and U(n.targets[0]) == 'algorithms']
    need(len(tabs) == 1 and isinstance(tabs[0].value, ast.Dict), 'optimization.algorithms is not a single dict literal')
    for n in ast.walk(tree):
        if n is not tabs[0] and isinstance(n, (ast.Assign, ast.AugAssign, ast.AnnAssign, ast.Delete)) and 'algorithms' in U(n).split('=')[0]:
            raise Untranslatable('optimization.algorithms is modified after its definition')
    algos = []
    for k, v in zip(tabs[0].value.keys, tabs[0].value.values):
        need(isinstance(k, ast.Constant) and isinstance(k.value, str) and isinstance(v, ast.Name) and v.id in funcs,
             'optimization.algorithms: entry is not "name": function')
        need(all(32 <= ord(c) < 127 for c in k.value), 'optimization.algorithms: non-ASCII name')
        algos.append((k.value, v.id))
    need(len(set(a for a, _ in algos)) == len(algos) and algos, 'optimization.algorithms: duplicate or no names')
    infos = {}
    todo = [w for _, w in algos]
    while todo:
        w = todo.pop()
        if w in infos:
            continue
        fd = funcs[w]
        need([a.arg for a in fd.args.args] == WRAPPER_ARGS and not (fd.args.vararg or fd.args.kwarg or fd.args.kwonlyargs),
             f'{w}: signature changed')
        for n in ast.walk(fd):
            if isinstance(n, ast.Name) and isinstance(n.ctx, ast.Store) and n.id in ('fct', 'init_betas', 'bounds'):
                raise Untranslatable(f'{w}: {n.id} is reassigned')
        nested = {n.name: n for n in fd.body if isinstance(n, ast.FunctionDef)}
        calls = []
        for n in ast.walk(fd):
            if isinstance(n, ast.Call):
                d = _dotted(n.func)
                if d in external or (d in funcs and d != w):
                    calls.append((d, n))
        need(len(calls) == 1, f'{w}: expected exactly one call of an optimisation routine, found {[d for d, _ in calls]}')
        d, call = calls[0]
        is_ext = d in external
        # the result of the call is what the wrapper returns
        rets = [n for n in ast.walk(fd) if isinstance(n, ast.Return) and not any(n in ast.walk(x) for x in nested.values())]
        need(len(rets) == 1 and rets[0] is fd.body[-1], f'{w}: expected a single final return')
        if rets[0].value is call:
            pass
        else:
            # scipy: results = sc.minimize(...); return OptimizationResults(solution=results.x, ..., convergence=results.success)
            asg = [s for s in fd.body if isinstance(s, ast.Assign) and s.value is call]
            need(len(asg) == 1 and isinstance(asg[0].targets[0], ast.Name), f'{w}: the result of the routine is not returned')
            rv = asg[0].targets[0].id
            r = rets[0].value
            need(isinstance(r, ast.Call) and U(r.func) == 'OptimizationResults' and not r.args, f'{w}: return value changed')
            kws = {k.arg: U(k.value) for k in r.keywords}
            need(kws.get('solution') == f'{rv}.x' and kws.get('convergence') == f'{rv}.success',
                 f'{w}: solution / convergence are not those of the routine')
        # positional arguments are mapped on the callee's parameters when the callee is a wrapper of this module
        slots = {}
        if is_ext:
            need(len(call.args) <= 2, f'{w}: unexpected positional arguments')
            for i, a in enumerate(call.args):
                slots[f'#{i}'] = a
        else:
            need(len(call.args) <= len(WRAPPER_ARGS), f'{w}: too many positional arguments')
            for i, a in enumerate(call.args):
                slots[WRAPPER_ARGS[i]] = a
        for k in call.keywords:
            need(k.arg is not None and k.arg not in slots, f'{w}: **kwargs or duplicate argument in the routine call')
            slots[k.arg] = k.value

        def names_in(e):
            return {x.id for x in ast.walk(e) if isinstance(x, ast.Name)}

        # bounds
        b_slots = [s for s, e in slots.items() if 'bounds' in names_in(e)]
        need(all(s == 'bounds' for s in b_slots), f'{w}: `bounds` handed to an unexpected parameter {b_slots}')
        fwd_bounds = bool(b_slots)
        if fwd_bounds:
            need(U(slots['bounds']) in ('bounds', 'Bounds(bounds)'), f'{w}: bounds are transformed: {U(slots["bounds"])}')
        # objective
        if is_ext:
            f_slots = [s for s, e in slots.items() if 'fct' in names_in(e)]
            if f_slots:
                need(f_slots == ['the_function'] and U(slots['the_function']) == 'fct', f'{w}: objective handed unexpectedly')
                fwd_fct = True
            else:
                # scipy: a nested function that sets the variables and returns (f, g) of fct.f_g(), with jac=True
                a0 = slots.get('#0')
                need(isinstance(a0, ast.Name) and a0.id in nested, f'{w}: the objective is not handed to the routine')
                nf = nested[a0.id]
                nb = [U(s) for s in nf.body if not (isinstance(s, ast.Expr) and isinstance(s.value, ast.Constant))]
                need(len(nf.args.args) == 1 and nb == [f'fct.set_variables({nf.args.args[0].arg})', 'function_data = fct.f_g()',
                                                      'return (function_data.function, function_data.gradient)'],
                     f'{w}: objective closure changed: {nb}')
                need(U(slots.get('jac', ast.Constant(value=None))) == 'True', f'{w}: jac=True missing')
                fwd_fct = True
            s_slots = [s for s, e in slots.items() if 'init_betas' in names_in(e)]
            need(s_slots in (['starting_point'], ['#1']) and U(slots[s_slots[0]]) == 'init_betas', f'{w}: starting point handed unexpectedly: {s_slots}')
            fwd_start = True
        else:
            fwd_fct = U(slots.get('fct', ast.Constant(value=None))) == 'fct'
            fwd_start = U(slots.get('init_betas', ast.Constant(value=None))) == 'init_betas'
            need(fwd_fct and fwd_start, f'{w}: objective / starting point not handed to {d}')
            need(U(slots.get('parameters', ast.Constant(value=None))) == 'parameters', f'{w}: parameters not handed to {d}')
            todo.append(d)
        # option plumbing
        plumb, overrides = [], []
        if is_ext:
            for s, e in slots.items():
                if s in ('bounds', 'the_function', 'starting_point', '#0', '#1', 'jac'):
                    continue
                if s == 'variable_names':
                    need(U(e) == 'variable_names', f'{w}: variable_names changed')
                    continue
                if isinstance(e, ast.Name) and e.id == 'opts':
                    # scipy: opts = {defaults}; if parameters is not None: opts = {**opts, **parameters}
                    asg = [x for x in ast.walk(fd) if isinstance(x, ast.Assign) and U(x.targets[0]) == 'opts']
                    need(len(asg) == 2 and isinstance(asg[0].value, ast.Dict) and U(asg[1].value) == '{**opts, **parameters}',
                         f'{w}: option dictionary changed')
                    plumb.append((s, '**', 'expr:' + U(asg[0].value)))
                    continue
                need(isinstance(e, ast.Name), f'{w}: keyword {s} of the routine is not a plain variable: {U(e)}')
                key = _param_key(fd, e.id, where=w)
                dfl = [x for x in fd.body if isinstance(x, ast.Assign) and len(x.targets) == 1 and U(x.targets[0]) == e.id]
                need(len(dfl) == 1, f'{w}: default of {e.id} not found')
                plumb.append((s, key, _const_token(dfl[0].value)))
        else:
            # parameters[...] = const overrides before delegating
            for n in ast.walk(fd):
                if isinstance(n, ast.Assign) and isinstance(n.targets[0], ast.Subscript) and U(n.targets[0].value) == 'parameters':
                    k = n.targets[0].slice
                    need(isinstance(k, ast.Constant) and isinstance(k.value, str), f'{w}: computed parameter key')
                    overrides.append((k.value, _const_token(n.value)))
                if isinstance(n, ast.Assign) and U(n.targets[0]) == 'parameters':
                    need(isinstance(n.value, ast.Dict) and len(n.value.keys) == 1 and isinstance(n.value.keys[0], ast.Constant),
                         f'{w}: parameters rebuilt unexpectedly')
                    overrides.append((n.value.keys[0].value, _const_token(n.value.values[0])))
            ov = sorted(set(overrides))
            need(len(ov) == 1 and len(overrides) == 2, f'{w}: expected the same single override on both paths, found {overrides}')
            overrides = ov
        infos[w] = {'callee': external[d] if is_ext else d, 'external': is_ext, 'fct': fwd_fct, 'start': fwd_start,
                    'bounds': fwd_bounds, 'plumb': plumb, 'overrides': overrides}
    return algos, infos


# ---------------------------------------------------------------------------- tie A: biogeme.py
def _dict_entries(node, where):
    need(isinstance(node, ast.Dict), f'{where}: not a dict literal')
    ents = []
    for k, v in zip(node.keys, node.values):
        need(isinstance(k, ast.Constant) and isinstance(k.value, str), f'{where}: computed key')
        if isinstance(v, ast.Attribute) and U(v.value) == 'self':
            ents.append((k.value, 'PAttr', v.attr))
        else:
            tok = _const_token(v)
            need(not tok.startswith('expr:'), f'{where}: value of {k.value} is neither self.<parameter> nor a literal')
            ents.append((k.value, 'PConst', tok))
    return ents


def _coq_entries(ents):
    return coq_list([f'({S(k)}, {c} {S(v)})' for k, c, v in ents])


def extract_biogeme():
    tr = py2v.load('src/biogeme/biogeme.py')
    out = {}
    # ---- _set_algorithm_parameters
    fd = tr.find('BIOGEME._set_algorithm_parameters')
    body = [s for s in fd.body if not tr.ignorable(s)]

    def assign_of(stmts, where):
        st = [s for s in stmts if not tr.ignorable(s) and not (isinstance(s, ast.Assign) and U(s.targets[0]) in ('info_msg', 'warning_msg'))]
        need(len(st) >= 1 and isinstance(st[0], ast.Assign) and U(st[0].targets[0]) == 'self.algo_parameters',
             f'{where}: self.algo_parameters is not assigned')
        return st[0].value, st[1:]

    def test_of(t, where):
        if isinstance(t, ast.Compare) and len(t.ops) == 1 and U(t.left) == 'self.optimization_algorithm':
            c = t.comparators[0]
            if isinstance(t.ops[0], ast.Eq) and isinstance(c, ast.Constant) and isinstance(c.value, str):
                return f'(String.eqb optimization_algorithm {S(c.value)})'
            if isinstance(t.ops[0], ast.In) and isinstance(c, (ast.List, ast.Tuple)) and \
                    all(isinstance(e, ast.Constant) and isinstance(e.value, str) for e in c.elts):
                return f'(existsb (String.eqb optimization_algorithm) {coq_list([S(e.value) for e in c.elts])})'
        raise Untranslatable(f'{where}: unexpected test {U(t)}')

    code = []
    need(body and isinstance(body[-1], ast.Assign) and U(body[-1]) == 'self.algo_parameters = None',
         '_set_algorithm_parameters: the final statement is not `self.algo_parameters = None`')
    for s in body[:-1]:
        need(isinstance(s, ast.If) and not s.orelse, f'_set_algorithm_parameters: unexpected statement {U(s)[:60]}')
        c = test_of(s.test, '_set_algorithm_parameters')
        st = [x for x in s.body if not tr.ignorable(x)]
        need(st and isinstance(st[-1], ast.Return) and st[-1].value is None, '_set_algorithm_parameters: branch does not return')
        st = st[:-1]
        if len(st) == 1 and isinstance(st[0], ast.If) and U(st[0].test) == 'self.is_model_complex()':
            va, ra = assign_of(st[0].body, '_set_algorithm_parameters')
            vb, rb = assign_of(st[0].orelse, '_set_algorithm_parameters')
            need(not ra and not rb, '_set_algorithm_parameters: unexpected statements in the automatic branch')
            val = (f'(if is_model_complex then Some {_coq_entries(_dict_entries(va, "_set_algorithm_parameters"))}\n'
                   f'    else Some {_coq_entries(_dict_entries(vb, "_set_algorithm_parameters"))})')
        else:
            v, r = assign_of(st, '_set_algorithm_parameters')
            need(not r, '_set_algorithm_parameters: unexpected statements after the assignment')
            val = f'Some {_coq_entries(_dict_entries(v, "_set_algorithm_parameters"))}'
        code.append(f'  if {c} then {val}\n  else')
    out['set_algorithm_parameters'] = (
        f'(* from src/biogeme/biogeme.py:{fd.lineno} BIOGEME._set_algorithm_parameters: the value of self.algo_parameters *)\n'
        'Definition set_algorithm_parameters (optimization_algorithm : string) (is_model_complex : bool)\n'
        '  : option (list (string * psrc)) :=\n' + '\n'.join(code) + ' None.\n')
    # ---- _set_function_parameters
    fd = tr.find('BIOGEME._set_function_parameters')
    st = [s for s in fd.body if not tr.ignorable(s)]
    need(len(st) == 1 and isinstance(st[0], ast.Assign) and U(st[0].targets[0]) == 'self.function_parameters',
         '_set_function_parameters: shape changed')
    out['function_parameters'] = (
        f'(* from src/biogeme/biogeme.py:{fd.lineno} BIOGEME._set_function_parameters *)\n'
        f'Definition function_parameters : list (string * psrc) :=\n  {_coq_entries(_dict_entries(st[0].value, "_set_function_parameters"))}.\n')
    # ---- optimize
    fd = tr.find('BIOGEME.optimize')
    need([a.arg for a in fd.args.args] == ['self', 'starting_values'], 'optimize: signature changed')
    an = [s for s in fd.body if isinstance(s, ast.Assign) and U(s.targets[0]) == 'algorithm_name']
    need(len(an) == 1, 'optimize: algorithm_name is not assigned exactly once')
    c, t = tr.expr(an[0].value, {'self.optimization_algorithm': 'string'})
    need(t == 'string', 'optimize: algorithm_name is not a string')
    out['algorithm_name'] = (f'(* from src/biogeme/biogeme.py:{an[0].lineno} BIOGEME.optimize *)\n'
                             f'Definition algorithm_name (self_optimization_algorithm : string) : string :=\n  {c}.\n')
    flat = [U(s).replace('\n', ' ') for s in fd.body if not tr.ignorable(s)]
    flat = [' '.join(x.split()) for x in flat]

    def has(x):
        return any(f == ' '.join(x.split()) for f in flat)

    need(has("the_function = NegativeLikelihood(dimension=self.id_manager.number_of_free_betas, like=self.calculate_likelihood, "
             "like_derivatives=self.calculate_likelihood_and_derivatives, parameters=self.function_parameters)"),
         'optimize: construction of the objective changed')
    need(has('the_algorithm = opt.algorithms.get(algorithm_name)'), 'optimize: algorithm lookup changed')
    need(has('results = the_algorithm(fct=the_function, init_betas=starting_values, bounds=self.id_manager.bounds, '
             'variable_names=variable_names, parameters=self.algo_parameters)'), 'optimize: call of the algorithm changed')
    need(flat[-1] == 'return results', 'optimize: does not return the result of the algorithm')
    need(has('self._set_algorithm_parameters()'), 'optimize: _set_algorithm_parameters is not called')
    stores = [U(n) for s in fd.body for n in ast.walk(s) if isinstance(n, ast.Name) and isinstance(n.ctx, ast.Store)]
    need(sorted(set(stores)) == sorted({'warning_msg', 'the_function', 'starting_values', 'algorithm_name', 'the_algorithm',
                                        'err', 'variable_names', 'results'}), f'optimize: unexpected local variables {sorted(set(stores))}')
    # optimize() is also called by every bootstrap re-estimation: it must not record anything on the object (status of the
    # estimation, messages, ...) besides what _set_algorithm_parameters does
    attr_stores = sorted({U(n) for n in ast.walk(fd) if isinstance(n, (ast.Attribute, ast.Subscript)) and isinstance(n.ctx, (ast.Store, ast.Del))})
    need(all(all(32 <= ord(c) < 127 for c in t) for t in attr_stores), 'optimize: non-ASCII assignment target')
    out['optimize_stores'] = (f'(* from src/biogeme/biogeme.py:{fd.lineno} BIOGEME.optimize: the attributes / items it assigns (optimize is re-run by every\n'
                              '   bootstrap re-estimation: whatever it records on the object is overwritten by the last of them) *)\n'
                              'Definition optimize_attribute_stores : list string :=\n  ' + coq_list([S(t) for t in attr_stores]) + '.\n')
    sv = [s for s in ast.walk(fd) if isinstance(s, ast.Assign) and U(s.targets[0]) == 'starting_values']
    need(len(sv) == 1 and U(sv[0].value) == 'np.array(self.id_manager.free_betas_values)', 'optimize: starting_values reassigned')
    # ---- estimate: the main path, in order
    fd = tr.find('BIOGEME.estimate')
    skeleton = []
    KEEP = ('self._set_function_parameters()', 'self._set_algorithm_parameters()', 'self.calculate_init_likelihood()',
            'output = self.optimize(np.array(self.id_manager.free_betas_values))',
            'xstar, optimization_messages, convergence = output', 'self.convergence = convergence',
            'f_g_h_b: BiogemeFunctionOutput = self.calculate_likelihood_and_derivatives(xstar, scaled=False, hessian=True, bhhh=True)',
            'raw_results = res.RawResults(self, xstar, f_g_h_b, bootstrap=self.bootstrap_results)',
            'r = res.bioResults(raw_results, identification_threshold=self.identification_threshold)',
            'estimated_betas = r.get_beta_values()', 'return r')
    for s in fd.body:
        if tr.ignorable(s):
            continue
        u = ' '.join(U(s).split())
        if u in KEEP:
            skeleton.append(u)
        elif isinstance(s, ast.If) and U(s.test) == 'self.save_iterations':
            st = [x for x in s.body if not tr.ignorable(x)]
            need([U(x) for x in st] == ['self._load_saved_iteration()'] and not s.orelse, 'estimate: save_iterations branch changed')
            skeleton.append('if self.save_iterations: self._load_saved_iteration()')
        elif u == 'self.change_init_values(estimated_betas)':
            skeleton.append(u)       # the write-back: BIOGEME.change_init_values (formulas AND the starting vector)
        elif isinstance(s, ast.If) and U(s.test) == 'run_bootstrap':
            # the bootstrap block: re-estimations started at xstar, stored row by row; it leaves xstar, f_g_h_b, the
            # convergence status and the messages of the estimation alone
            need(not s.orelse, 'estimate: bootstrap block has an else branch')
            boot = []
            for n in ast.walk(s):
                if isinstance(n, (ast.Name, ast.Attribute, ast.Subscript)) and isinstance(n.ctx, (ast.Store, ast.Del)):
                    t = U(n)
                    need(t in ('start_time', 'self.bootstrap_results', 'current_logger_level', 'self._saving_suspended', 'b', 'sample',
                               'x_br', '_', 'self.bootstrap_results[b]', 'self.bootstrap_time', '(x_br, _, _)'),
                         f'estimate: the bootstrap block assigns {t}')
            loops = [n for n in ast.walk(s) if isinstance(n, ast.For)]
            need(len(loops) == 1 and U(loops[0].target) == 'b' and U(loops[0].iter) in ('tqdm(range(self.bootstrap_samples))', 'range(self.bootstrap_samples)'),
                 'estimate: bootstrap loop changed')
            lb = [' '.join(U(x).split()) for x in loops[0].body if not isinstance(x, ast.If)]
            need(lb == ['x_br, _, _ = self.optimize(xstar)', 'self.bootstrap_results[b] = x_br'], f'estimate: body of the bootstrap loop changed: {lb}')
            # the estimation data are handed back to the engine in the `finally` clause of the try that encloses the loop
            # (a fault in a re-estimation must not leave the last resample in the engine)
            tries = [n for n in ast.walk(s) if isinstance(n, ast.Try)]
            need(len(tries) == 1 and any(loops[0] is x for x in ast.walk(ast.Module(body=tries[0].body, type_ignores=[]))) and not tries[0].handlers,
                 'estimate: the bootstrap loop is not the body of a single try ... finally')
            fin = [' '.join(U(x).split()) for x in tries[0].finalbody]
            restore = ('if self.database.is_panel(): self.theC.setDataMap(self.database.individualMap) '
                       'else: self.theC.setData(self.database.data)')
            restores = restore in fin
            after = [' '.join(U(x).split()) for x in s.body[s.body.index(tries[0]) + 1:]] if tries[0] in s.body else []
            out['bootstrap_finally'] = (f'(* from src/biogeme/biogeme.py:{tries[0].lineno} BIOGEME.estimate: the finally clause of the bootstrap loop *)\n'
                                        'Definition bootstrap_finally : list string :=\n  ' + coq_list([S(x) for x in fin], ';\n   ') + '.\n'
                                        f'Definition bootstrap_restores_in_finally : bool := {coq_bool(restores)}.\n')
            boot = ['for b in range(self.bootstrap_samples):'] + lb
            out['bootstrap_skeleton'] = (f'(* from src/biogeme/biogeme.py:{s.lineno} BIOGEME.estimate: the bootstrap block *)\n'
                                         'Definition bootstrap_skeleton : list string :=\n  ' + coq_list([S(x) for x in boot], ';\n   ') + '.\n')
            skeleton.append('if run_bootstrap: <bootstrap block>')
        elif isinstance(s, ast.If) and U(s.test) == 'recycle':
            continue      # not on the modelled path (recycle=False)
        else:
            # everything else must leave xstar, f_g_h_b (except the documented Hessian fallback), output, r alone
            for n in ast.walk(s):
                if isinstance(n, ast.Name) and isinstance(n.ctx, ast.Store) and n.id in ('xstar', 'output', 'convergence', 'r', 'raw_results', 'estimated_betas'):
                    raise Untranslatable(f'estimate: {n.id} is reassigned at line {n.lineno}')
                if isinstance(n, ast.Name) and isinstance(n.ctx, ast.Store) and n.id == 'f_g_h_b':
                    need(isinstance(s, ast.If) and U(s.test) == 'not np.isfinite(f_g_h_b.hessian).all()',
                         f'estimate: f_g_h_b is reassigned at line {n.lineno}')
                if isinstance(n, ast.Call) and U(n.func).endswith('change_init_values'):
                    raise Untranslatable(f'estimate: unexpected change of initial values at line {n.lineno}')
                if isinstance(n, ast.Return):
                    need(isinstance(s, ast.If) and 'kwargs' in U(s.test), f'estimate: unexpected return at line {n.lineno}')
    out['estimate_skeleton'] = (f'(* from src/biogeme/biogeme.py:{fd.lineno} BIOGEME.estimate: the statements of the main path, in order *)\n'
                                'Definition estimate_skeleton : list string :=\n  ' + coq_list([S(x) for x in skeleton], ';\n   ') + '.\n')
    need('bootstrap_skeleton' in out, 'estimate: bootstrap block not found')
    # ---- calculate_likelihood_and_derivatives: the arrays handed to the engine are allocated at every call (a results
    #      object keeps the arrays it was given: shared buffers would be overwritten by later evaluations)
    fd = tr.find('BIOGEME.calculate_likelihood_and_derivatives')
    eng = [n for n in ast.walk(fd) if isinstance(n, ast.Call) and U(n.func) == 'self.theC.calculateLikelihoodAndDerivatives']
    need(len(eng) == 1 and len(eng[0].args) == 8 and not eng[0].keywords, 'calculate_likelihood_and_derivatives: engine call changed')
    bufs = [U(a) for a in eng[0].args[3:6]]
    need(all(isinstance(a, ast.Name) for a in eng[0].args[3:6]) and len(set(bufs)) == 3, 'calculate_likelihood_and_derivatives: buffers are not three local variables')
    fresh = True
    alloc = []
    for bname in bufs:
        asg = [n for n in ast.walk(fd) if isinstance(n, (ast.Assign, ast.AugAssign, ast.AnnAssign)) and n.lineno < eng[0].lineno and
               any(isinstance(x, ast.Name) and x.id == bname and isinstance(x.ctx, ast.Store) for t in (n.targets if isinstance(n, ast.Assign) else [n.target]) for x in ast.walk(t))]
        ok1 = (len(asg) == 1 and isinstance(asg[0], ast.Assign) and isinstance(asg[0].targets[0], ast.Name) and asg[0] in fd.body
               and isinstance(asg[0].value, ast.Call) and U(asg[0].value.func) == 'np.empty')
        fresh = fresh and ok1
        alloc.append((bname, ' '.join(U(asg[-1].value).split()) if asg and getattr(asg[-1], 'value', None) is not None else '?'))
    rets = [n for n in ast.walk(fd) if isinstance(n, ast.Call) and U(n.func) == 'BiogemeFunctionOutput']
    need(len(rets) == 2, 'calculate_likelihood_and_derivatives: construction of the output changed')
    out['buffers'] = (f'(* from src/biogeme/biogeme.py:{fd.lineno} BIOGEME.calculate_likelihood_and_derivatives: how the arrays handed to the engine\n'
                      '   (gradient, Hessian, BHHH) come to exist; fresh = each is a local variable assigned once, from np.empty(...), in the body *)\n'
                      'Definition derivative_buffers : list (string * string) :=\n  '
                      + coq_list([f'({S(a)}, {S(b)})' for a, b in alloc]) + '.\n'
                      f'Definition derivative_buffers_fresh : bool := {coq_bool(fresh)}.\n')
    # ---- BIOGEME.change_init_values (the write-back of estimate, the restart file): every formula, then the starting vector
    fd = tr.find('BIOGEME.change_init_values')
    st = [' '.join(U(x).split()) for x in fd.body if not tr.ignorable(x)]
    need(st == ['if self.log_like is not None: self.log_like.change_init_values(betas)',
                'if self.weight is not None: self.weight.change_init_values(betas)',
                'for _, f in self.formulas.items(): f.change_init_values(betas)',
                'for i, name in enumerate(self.id_manager.free_betas.names): value = betas.get(name) if value is not None: '
                'self.id_manager.free_betas_values[i] = value'], f'BIOGEME.change_init_values: changed: {st}')
    # calculate_init_likelihood
    fd = tr.find('BIOGEME.calculate_init_likelihood')
    st = [' '.join(U(s).split()) for s in fd.body if not tr.ignorable(s)]
    need(st == ['self.initLogLike = self.calculate_likelihood(self.id_manager.free_betas_values, scaled=False)', 'return self.initLogLike'],
         'calculate_init_likelihood: changed')
    return out


def extract_raw_results():
    tr = py2v.load('src/biogeme/results.py')
    fd = tr.find('RawResults.__init__')
    need([a.arg for a in fd.args.args] == ['self', 'the_model', 'beta_values', 'f_g_h_b', 'bootstrap'], 'RawResults.__init__: signature changed')
    fields = []
    for s in fd.body:
        if isinstance(s, (ast.Assign, ast.AnnAssign)):
            tg = s.targets[0] if isinstance(s, ast.Assign) else s.target
            if isinstance(tg, ast.Attribute) and U(tg.value) == 'self' and s.value is not None:
                fields.append((tg.attr, ' '.join(U(s.value).split())))
    names = [f for f, _ in fields]
    need(len(set(names)) == len(names), 'RawResults.__init__: a field is assigned twice')
    for n in ast.walk(fd):
        if isinstance(n, ast.Name) and isinstance(n.ctx, ast.Store) and n.id in ('beta_values', 'f_g_h_b', 'the_model'):
            raise Untranslatable(f'RawResults.__init__: {n.id} is reassigned')
    loop = [s for s in fd.body if isinstance(s, ast.For)]
    need(len(loop) == 1 and ' '.join(U(loop[0]).split()) ==
         'for beta_value, beta_name in zip(beta_values, self.betaNames): bounds = the_model.get_bounds_on_beta(beta_name) '
         'self.betas.append(Beta(beta_name, beta_value, bounds))', 'RawResults.__init__: construction of the Beta list changed')
    txt = (f'(* from src/biogeme/results.py:{fd.lineno} RawResults.__init__: field <- expression *)\n'
           'Definition raw_results_fields : list (string * string) :=\n  '
           + coq_list([f'({S(a)}, {S(b)})' for a, b in fields if all(32 <= ord(c) < 127 for c in b)], ';\n   ') + '.\n')
    gb = tr.find('bioResults.get_beta_values')
    core = [' '.join(U(n).split()) for n in ast.walk(gb) if isinstance(n, ast.Assign)]
    need('index = self.data.betaNames.index(b)' in core and 'values[b] = self.data.betas[index].value' in core
         and 'my_betas = self.data.betaNames' in core, 'bioResults.get_beta_values: changed')
    return txt


def extract_sections():
    rel = 'src/biogeme/default_parameters.py'
    try:
        tree = ast.parse((REPO / rel).read_text())
    except Exception as e:
        raise Untranslatable(f'{rel}: cannot parse: {e}')
    rows = []
    for n in ast.walk(tree):
        if isinstance(n, ast.Call) and U(n.func) == 'ParameterTuple':
            kw = {k.arg: k.value for k in n.keywords}
            need('name' in kw and 'section' in kw and isinstance(kw['name'], ast.Constant) and isinstance(kw['section'], ast.Constant),
                 'default_parameters: ParameterTuple without literal name / section')
            rows.append((kw['name'].value, kw['section'].value))
    need(len(rows) >= 20 and len(set(r[0] for r in rows)) == len(rows), 'default_parameters: parameter table not found or duplicate names')
    return ('(* from src/biogeme/default_parameters.py: (parameter, section of biogeme.toml) *)\n'
            'Definition parameter_sections : list (string * string) :=\n  '
            + coq_list([f'({S(a)}, {S(b)})' for a, b in rows], ';\n   ') + '.\n')


def gen_neglike_text():
    algos, infos = extract_optimization()
    bio = extract_biogeme()
    out = ['From BV Require Import Model.PyBase Model.Estim.\nOpen Scope string_scope.\n',
           '(* where a value of an option dictionary comes from: a BIOGEME property (= parameter of biogeme.toml) or a literal *)\n'
           'Inductive psrc := PAttr (parameter : string) | PConst (token : string).\n',
           gen_neglike_functions(),
           '(* from src/biogeme/optimization.py: algorithms *)\n'
           'Definition algorithms : list (string * string) :=\n  ' + coq_list([f'({S(a)}, {S(w)})' for a, w in algos], ';\n   ') + '.\n',
           '(* from src/biogeme/optimization.py: per wrapper, the routine it calls (external, or another wrapper), and whether\n'
           '   fct / init_betas / bounds are handed on *)\n'
           'Definition wrappers : list (string * wrapper_info) :=\n  '
           + coq_list([f'({S(w)}, mkW {S(i["callee"])} {coq_bool(i["external"])} {coq_bool(i["fct"])} {coq_bool(i["start"])} {coq_bool(i["bounds"])})'
                       for w, i in sorted(infos.items())], ';\n   ') + '.\n',
           '(* per wrapper calling an external routine: (keyword of the routine, key of `parameters`, default token) *)\n'
           'Definition wrapper_options : list (string * list (string * string * string)) :=\n  '
           + coq_list([f'({S(w)}, {coq_list([f"({S(a)}, {S(b)}, {S(c)})" for a, b, c in i["plumb"]])})'
                       for w, i in sorted(infos.items()) if i['external']], ';\n   ') + '.\n',
           '(* per wrapper delegating to another wrapper: the entries of `parameters` it overrides *)\n'
           'Definition wrapper_overrides : list (string * list (string * string)) :=\n  '
           + coq_list([f'({S(w)}, {coq_list([f"({S(a)}, {S(b)})" for a, b in i["overrides"]])})'
                       for w, i in sorted(infos.items()) if not i['external']], ';\n   ') + '.\n',
           bio['algorithm_name'], bio['set_algorithm_parameters'], bio['function_parameters'], bio['estimate_skeleton'],
           bio['bootstrap_skeleton'], bio['bootstrap_finally'], bio['optimize_stores'], bio['buffers'],
           extract_raw_results(), extract_sections()]
    for t in out:
        if not all(ord(c) < 127 for c in t):
            raise Untranslatable('non-ASCII text in the generated file')
    return ''.join(out)


def gen_all(ctx):
    ctx.gen('NegLike', gen_neglike_text())


# ============================================================================ stream `estimate`
# The algorithms that "support bounds" -- the list proved in T07d_algorithms_forwarding_bounds about the tables
# generated from optimization.py.  The oracle uses this pinned list (the specification); if a change of the source makes
# the generated table differ, the theorem breaks and the failing-input search below runs with this expectation.
SUPPORTS_BOUNDS = {'automatic', 'scipy', 'simple_bounds', 'simple_bounds_newton', 'simple_bounds_BFGS'}
ALL_ALGORITHMS = ['automatic', 'scipy', 'LS-newton', 'TR-newton', 'LS-BFGS', 'TR-BFGS', 'simple_bounds',
                  'simple_bounds_newton', 'simple_bounds_BFGS']

HOW = ('build the model of the witness (lib/impl/c07_estimate.py: build) on the witness data, call BIOGEME.estimate(); '
       './check C07 --replay <this file>')


def h2f(h):
    return None if h is None else float.fromhex(h)


def f2h(x):
    return None if x is None else float(x).hex()


def q4(x):
    """nearest multiple of 1/4 (dyadic)"""
    return round(x * 4) / 4.0


def algorithm_names():
    """'automatic' + the keys of optimization.algorithms as they are in the source now (all of them are exercised)"""
    try:
        algos, _ = extract_optimization()
        names = ['automatic'] + [a for a, _ in algos]
    except Untranslatable:
        names = list(ALL_ALGORITHMS)
    for a in ALL_ALGORITHMS:
        if a not in names:
            names.append(a)
    return names


# ---- independent evaluation of the logit likelihood (numpy, float64) -- used to build problems with a finite maximum
#      and as a second reference for the reported value / derivatives
def ref_eval(problem, values, free_names):
    if problem.get('kind') == 'expo':
        return ref_eval_expo(problem, values, free_names)
    return ref_eval_logit(problem, values, free_names)


def ref_eval_expo(problem, values, free_names):
    """sum_n y_n log(lin_n) - lin_n t_n with lin_n = sum_k value_k z_nk: concave; NaN where some lin_n < 0"""
    import numpy as np
    cols = {c: np.array([float.fromhex(v) for v in vals]) for c, vals in problem['cols'].items()}
    t = cols['t']
    n = len(t)
    y = cols['y'] if 'y' in cols else np.ones(n)
    K = len(free_names)
    idx = {nm: k for k, nm in enumerate(free_names)}
    lin = np.zeros(n)
    Z = np.zeros((n, K))
    for prm, col in problem['lin']:
        z = np.ones(n) if col is None else cols[col]
        lin += values[prm] * z
        if prm in idx:
            Z[:, idx[prm]] += z
    with np.errstate(all='ignore'):
        ll_n = y * np.log(lin) - lin * t
        w = y / lin - t
        g_n = Z * w[:, None]
        H = -(Z * (y / lin ** 2)[:, None]).T @ Z
        B = g_n.T @ g_n
        zmax = float(np.abs(Z).max()) if Z.size else 1.0
        scale = float(np.abs(y * np.log(lin)).sum() + np.abs(lin * t).sum()) + 1.0
        scale_d = float(((np.abs(y / lin) + t) ** 2).sum() + np.abs(y / lin ** 2).sum() + n) * (1.0 + zmax) ** 2
    return {'f': float(ll_n.sum()), 'g': g_n.sum(axis=0), 'H': H, 'B': B, 'scale_f': scale, 'scale_d': scale_d}


def ref_eval_logit(problem, values, free_names):
    import numpy as np
    alts = sorted(problem['alts'], key=int)
    n = len(problem['choice'])
    cols = {c: np.array([float.fromhex(v) for v in vals]) for c, vals in problem['cols'].items()}
    K = len(free_names)
    idx = {nm: k for k, nm in enumerate(free_names)}
    V = np.zeros((n, len(alts)))
    X = np.zeros((n, len(alts), K))
    for j, a in enumerate(alts):
        for prm, col in problem['alts'][a]:
            x = np.ones(n) if col is None else cols[col]
            V[:, j] += values[prm] * x
            if prm in idx:
                X[:, j, idx[prm]] += x
    ch = np.array([alts.index(str(c)) for c in problem['choice']])
    m = V.max(axis=1, keepdims=True)
    lse = m[:, 0] + np.log(np.exp(V - m).sum(axis=1))
    P = np.exp(V - lse[:, None])
    ll_n = V[np.arange(n), ch] - lse
    xbar = np.einsum('nj,njk->nk', P, X)
    g_n = X[np.arange(n), ch, :] - xbar
    H = -(np.einsum('nj,njk,njl->kl', P, X, X) - xbar.T @ xbar)
    B = g_n.T @ g_n
    scale = float(np.abs(V).sum() + np.abs(lse).sum()) + 1.0
    xmax = float(np.abs(X).max()) if X.size else 1.0
    return {'f': float(ll_n.sum()), 'g': g_n.sum(axis=0), 'H': H, 'B': B, 'scale_f': scale,
            'scale_d': n * (1.0 + xmax) ** 2}


def ref_mle(problem, fixed_values, free_names, x_init=None):
    """Newton iteration from 0 (or x_init) with step halving; None when the maximum is not comfortably finite"""
    import numpy as np
    x = np.zeros(len(free_names)) if x_init is None else np.array(x_init, dtype=float)

    def ev(x):
        vals = dict(fixed_values)
        vals.update({nm: float(v) for nm, v in zip(free_names, x)})
        return ref_eval(problem, vals, free_names)

    cur = ev(x)
    for _ in range(60):
        if np.abs(cur['g']).max() < 1e-10:
            break
        try:
            step = np.linalg.solve(-cur['H'], cur['g'])
        except np.linalg.LinAlgError:
            return None
        t = 1.0
        while t > 1e-6:
            nxt = ev(x + t * step)
            if nxt['f'] >= cur['f']:
                break
            t /= 2
        else:
            return None
        x = x + t * step
        cur = nxt
        if np.abs(x).max() > 6:
            return None
    else:
        return None
    ev_min = float(np.linalg.eigvalsh(-cur['H']).min())
    if ev_min < 0.4 or np.abs(x).max() > 4:
        return None
    return [float(v) for v in x], cur['f']


def gen_problem(rng):
    """binary / three-alternative logit, utilities linear in 1-3 free parameters (+ optionally one fixed parameter):
    the log likelihood is concave.  Data: multiples of 1/4 in [-2, 2]."""
    import numpy as np
    for _attempt in range(200):
        kind = 'binary' if rng.random() < 0.55 else 'mnl'
        K = rng.choice([1, 2, 2, 3, 3])
        n = rng.randint(30, 80)
        with_fixed = rng.random() < 0.5
        cols, alts = {}, {}

        def col(name):
            cols[name] = [rng.randint(-8, 8) / 4.0 for _ in range(n)]
            return name

        free = []
        if kind == 'binary':
            terms = []
            with_asc = K >= 2 and rng.random() < 0.6
            for k in range(K):
                nm = f'b{k + 1}' if not (with_asc and k == 0) else 'asc'
                free.append(nm)
                terms.append([nm, None if nm == 'asc' else col(f'x{k + 1}')])
            if with_fixed:
                terms.append(['bfix', col('xf')])
            alts = {'1': [], '2': terms}
        else:
            with_asc = K == 3 or (K == 2 and rng.random() < 0.4)
            gen = K - (1 if with_asc else 0)
            free = [f'b{k + 1}' for k in range(gen)] + (['asc2'] if with_asc else [])
            for a in ('1', '2', '3'):
                terms = [[f'b{k + 1}', col(f'x{k + 1}_{a}')] for k in range(gen)]
                if with_asc and a == '2':
                    terms.append(['asc2', None])
                if with_fixed and a == '3':
                    terms.append(['bfix', col('xf')])
                alts[a] = terms
        fixed_values = {'bfix': rng.choice([0.25, -0.5, 0.125])} if with_fixed else {}
        true = {nm: rng.randint(-6, 6) / 4.0 for nm in free}
        true.update(fixed_values)
        problem = {'cols': {c: [f2h(v) for v in vals] for c, vals in cols.items()}, 'alts': alts, 'choice': [1] * n, 'kind': kind}
        # simulate the choices from the true model
        choice = []
        keys = sorted(alts, key=int)
        for i in range(n):
            v = [sum(true[p] * (1.0 if c is None else cols[c][i]) for p, c in alts[a]) for a in keys]
            mx = max(v)
            e = [math.exp(t - mx) for t in v]
            u = rng.random() * sum(e)
            acc = 0.0
            pick = keys[-1]
            for a, w in zip(keys, e):
                acc += w
                if u < acc:
                    pick = a
                    break
            choice.append(int(pick))
        if min(choice.count(int(a)) for a in keys) < 4:
            continue
        problem['choice'] = choice
        mle = ref_mle(problem, fixed_values, free)
        if mle is None:
            continue
        problem['free'] = free
        problem['fixed'] = {k: f2h(v) for k, v in fixed_values.items()}
        problem['ref_mle'] = [f2h(v) for v in mle[0]]
        problem['ref_max'] = f2h(mle[1])
        return problem
    raise RuntimeError('C07: could not generate a problem with a finite maximum')


def gen_expo_problem(rng):
    """duration / count model  sum_n y_n log(lin_n) - lin_n t_n,  lin_n = lam + b1 z_n  (z_n >= 0): concave in (lam, b1), with a
    NEGATIVE maximum, and UNDEFINED (log of a negative number: NaN) where some lin_n < 0 -- a region no bound guards unless the
    run declares lower bounds.  Data: multiples of 1/4."""
    for _attempt in range(200):
        K = rng.choice([1, 1, 2])
        n = rng.randint(30, 80)
        lam = rng.choice([0.5, 0.75, 1.0, 1.5])
        b = rng.choice([0.25, 0.5, 0.75]) if K == 2 else 0.0
        z = [rng.randint(0, 8) / 4.0 for _ in range(n)]
        t = [math.ceil(rng.expovariate(lam + b * zi) * 4 + 1e-9) / 4.0 for zi in z]
        cols = {'t': t}
        lin = [['lam', None]]
        if K == 2:
            cols['z'] = z
            lin.append(['b1', 'z'])
        if rng.random() < 0.3:
            cols['y'] = [float(rng.choice([0, 1, 1, 2, 3])) for _ in range(n)]
        problem = {'kind': 'expo', 'cols': {c: [f2h(v) for v in vals] for c, vals in cols.items()}, 'lin': lin, 'alts': {},
                   'choice': None, 'free': [q[0] for q in lin], 'fixed': {}}
        mle = ref_mle(problem, {}, problem['free'], x_init=[1.0] + [0.0] * (K - 1))
        if mle is None or mle[1] > -5.0 or mle[0][0] < 0.2 or (K == 2 and abs(mle[0][1]) < 0.05):
            continue
        problem['ref_mle'] = [f2h(v) for v in mle[0]]
        problem['ref_max'] = f2h(mle[1])
        return problem
    raise RuntimeError('C07: could not generate a duration problem')


def gen_expo_runs(rng, problems, algorithms, light=False):
    """no bound / only upper bounds (the undefined region is NOT guarded) / lower bounds guarding it; starts above the maximum
    (a Newton step from lam > 2 lam* lands on a negative lam), below it and near it"""
    runs = []
    for pid, p in problems.items():
        mle = [h2f(v) for v in p['ref_mle']]
        for bk in ('none', 'upper-only', 'guarded'):
            bounds = []
            for k, m in enumerate(mle):
                if bk == 'none':
                    bounds.append((None, None))
                elif bk == 'upper-only':
                    bounds.append((None, q4(abs(m) * 12 + 4)))
                else:
                    bounds.append((0.0625 if k == 0 else 0.0, None if rng.random() < 0.5 else q4(abs(m) * 12 + 4)))
            for i_s, sk in enumerate(rng.sample(['x3', 'x5', 'x8', 'low', 'near'], 3)):
                f = {'x3': 3.0, 'x5': 5.0, 'x8': 8.0, 'low': 0.25, 'near': 1.0}[sk]
                start = [max(0.125, q4(mle[0] * f))] + [max(0.0, q4(m)) if sk != 'low' else 0.0 for m in mle[1:]]
                for a in algorithms:
                    if light and i_s > 0 and a not in SUPPORTS_BOUNDS:
                        continue      # quick tier: the routines without bounds run to their iteration limit in the undefined region (slow)
                    runs.append(make_run(pid, p, bounds, start, a, rng.random() < 0.5, None, None,
                                         {'bounds_kind': bk, 'start_kind': sk, 'family': 'expo'}))
    return runs


def unguarded(problem, run):
    """the likelihood has an undefined region and nothing keeps this algorithm out of it"""
    if problem.get('kind') != 'expo':
        return False
    if run['algorithm'] not in SUPPORTS_BOUNDS:
        return True
    for k, q in enumerate(q for q in run['params'] if not q['fixed']):
        lb = h2f(q['lb'])
        if lb is None or (lb <= 0 if q['name'] == 'lam' else lb < 0):
            return True
    return False


def gen_bootstrap_runs(rng, problems, algorithms, n_problems):
    """estimate(run_bootstrap=True) with 2-3 bootstrap samples, with and without an iteration limit too small for the
    estimation on the full sample (the re-estimations start at its last iterate and may well converge)"""
    runs = []
    for pid in sorted(problems, key=lambda k: int(k[1:]))[:n_problems]:
        p = problems[pid]
        for bk in ('none', 'active'):
            bounds = gen_bounds(rng, p, bk)
            start = gen_start(rng, p, bounds, rng.choice(['zero', 'far', 'random']))
            for settings in (None, {'max_iterations': rng.choice([1, 2, 3])}):
                for a in algorithms:
                    r = make_run(pid, p, bounds, start, a, rng.random() < 0.5, None, None if settings is None else dict(settings),
                                 {'bounds_kind': bk, 'start_kind': 'bootstrap'})
                    r['bootstrap'] = rng.choice([2, 3])
                    r['np_seed'] = rng.randrange(1000)
                    runs.append(r)
    return runs


def gen_fault_runs(rng, problems, algorithms, n_problems):
    """a bootstrap run interrupted by a fault (exception on entering, or in the middle of, its k-th re-estimation; first, middle
    or last one; RuntimeError / KeyboardInterrupt / OptimizationError / BiogemeError), the exception is caught and the SAME
    object is used again: estimate(), quick_estimate() or another bootstrap run -- which must concern the REAL data"""
    runs = []
    for pid in sorted(problems, key=lambda k: int(k[1:]))[:n_problems]:
        p = problems[pid]
        for bk in ('none', 'active'):
            bounds = gen_bounds(rng, p, bk)
            start = gen_start(rng, p, bounds, rng.choice(['zero', 'random', 'far']))
            for a in algorithms:
                B = rng.choice([2, 3, 4])
                fault = ['bootstrap_fault', B, rng.randint(1, B), rng.choice(['optimize', 'derivatives']),
                         rng.choice(['RuntimeError', 'KeyboardInterrupt', 'OptimizationError', 'BiogemeError']), rng.randrange(1000)]
                r = make_run(pid, p, bounds, start, a, rng.random() < 0.5, None, None, {'bounds_kind': bk, 'start_kind': 'fault'},
                             quick=rng.random() < 0.25)
                r['pre'] = [fault]
                if not r['quick'] and rng.random() < 0.3:
                    r['bootstrap'] = 2
                    r['np_seed'] = rng.randrange(1000)
                if rng.random() < 0.3:
                    o = {nm: f2h(v) for nm, v in zip(p['free'], gen_start(rng, p, bounds, 'random'))}
                    r['post'] = [['eval', o, False]]
                runs.append(r)
    return runs


def gen_history_runs(rng, problems, algorithms, n_problems):
    """further calls on the SAME BIOGEME object before and after the estimation: the results object that was returned must
    not change, and earlier calls must not influence the estimation"""
    runs = []
    for pid in sorted(problems, key=lambda k: int(k[1:]))[:n_problems]:
        p = problems[pid]
        for bk in ('none', 'active'):
            if p.get('kind') == 'expo':
                # stay in the region where the likelihood is defined: guarding lower bounds, positive points
                mle = [h2f(v) for v in p['ref_mle']]
                bounds = [(0.0625 if k == 0 else 0.0, None) for k in range(len(mle))]

                def pick():
                    return [max(0.125, q4(mle[0] * rng.choice([0.5, 1.0, 2.0, 3.0])))] + [rng.choice([0.0, 0.25, 0.5]) for _ in mle[1:]]
            else:
                bounds = gen_bounds(rng, p, bk)

                def pick():
                    return gen_start(rng, p, bounds, rng.choice(['zero', 'random', 'far', 'near']))
            start = pick()

            def other():
                for _ in range(20):
                    o = pick()
                    if o != start:
                        break
                return {nm: f2h(v) for nm, v in zip(p['free'], o)}

            def action(pool):
                k = rng.choice(pool)
                return [k, other(), rng.random() < 0.3] if k == 'eval' else [k, other()]

            for a in algorithms:
                pre = [action(['eval', 'like', 'check_derivatives', 'estimate_from', 'quick_from']) for _ in range(rng.choice([0, 1, 2]))]
                post = [action(['eval', 'eval', 'like', 'check_derivatives', 'estimate_from', 'quick_from']) for _ in range(rng.choice([1, 2, 3]))]
                r = make_run(pid, p, bounds, start, a, rng.random() < 0.5, None, None, {'bounds_kind': bk, 'start_kind': 'history'})
                r['pre'], r['post'] = pre, post
                runs.append(r)
    return runs


BOUND_KINDS = ['none', 'inactive', 'active', 'one-sided']
# one coordinate pinned by lb == ub (only with >= 2 free parameters: with every parameter pinned scipy's wrapper fails, see
# corpus/C07/pending/all_pinned.json)
EXTRA_BOUND_KINDS = ['pinned']
START_KINDS = ['zero', 'random', 'near', 'far', 'on-bound']


def gen_bounds(rng, problem, kind):
    mle = [h2f(v) for v in problem['ref_mle']]
    out = []
    j_act = rng.randrange(len(mle))
    for k, m in enumerate(mle):
        lb = ub = None
        if kind == 'inactive':
            lb = q4(m - rng.choice([1, 1.5, 2, 3])) if rng.random() < 0.8 else None
            ub = q4(m + rng.choice([1, 1.5, 2, 3])) if rng.random() < 0.8 or lb is None else None
        elif kind == 'active':
            if k == j_act and abs(m) > 0.3 and rng.random() < 0.35:
                # an active bound that is exactly 0 (a falsy value in Python: `u or inf` would drop it)
                if m > 0:
                    ub, lb = 0.0, (-rng.choice([1, 2, 4]) if rng.random() < 0.5 else None)
                else:
                    lb, ub = 0.0, (rng.choice([1, 2, 4]) if rng.random() < 0.5 else None)
            elif k == j_act:
                if rng.random() < 0.5:
                    ub = q4(m - rng.choice([0.375, 0.5, 0.75, 1.0]))
                    lb = ub - rng.choice([1, 2, 4]) if rng.random() < 0.5 else None
                else:
                    lb = q4(m + rng.choice([0.375, 0.5, 0.75, 1.0]))
                    ub = lb + rng.choice([1, 2, 4]) if rng.random() < 0.5 else None
            elif rng.random() < 0.5:
                lb, ub = q4(m - 2), q4(m + 2)
        elif kind == 'pinned':
            if k == j_act and len(mle) >= 2:
                lb = ub = q4(m + rng.choice([-0.5, -0.25, 0.25, 0.5]))
            elif rng.random() < 0.3:
                lb, ub = q4(m - 2), q4(m + 2)
        elif kind == 'one-sided':
            s = rng.choice([-0.5, 1.5, 2.0])
            if rng.random() < 0.5:
                ub = q4(m + s)
            else:
                lb = q4(m - s)
        out.append((lb, ub))
    return out


def gen_start(rng, problem, bounds, kind):
    mle = [h2f(v) for v in problem['ref_mle']]
    xs = []
    for (lb, ub), m in zip(bounds, mle):
        if kind == 'zero':
            x = 0.0
        elif kind == 'random':
            x = rng.randint(-8, 8) / 4.0
        elif kind == 'near':
            x = q4(m)
        elif kind == 'far':
            x = rng.choice([-3.0, 3.0, -2.5, 2.5])
        else:  # on-bound
            x = lb if lb is not None else ub if ub is not None else 0.0
        if lb is not None and x < lb:
            x = lb
        if ub is not None and x > ub:
            x = ub
        xs.append(x)
    return xs


def make_run(problem_id, problem, bounds, start, algorithm, share, iter_start=None, settings=None, tags=None, quick=False):
    params = []
    for nm, (lb, ub), x in zip(problem['free'], bounds, start):
        params.append({'name': nm, 'init': f2h(x), 'lb': f2h(lb), 'ub': f2h(ub), 'fixed': False})
    for nm, v in problem['fixed'].items():
        params.append({'name': nm, 'init': v, 'lb': None, 'ub': None, 'fixed': True})
    return {'pid': problem_id, 'params': params, 'algorithm': algorithm, 'share': share, 'iter_start': iter_start,
            'settings': settings, 'tags': tags or {}, 'quick': quick}


def gen_runs(rng, problems, algorithms, n_starts, bound_kinds):
    runs = []
    for pid, p in problems.items():
        for bk in bound_kinds:
            bounds = gen_bounds(rng, p, bk)
            kinds = rng.sample(START_KINDS, min(n_starts, len(START_KINDS)))
            for sk in kinds:
                start = gen_start(rng, p, bounds, sk)
                share = rng.random() < 0.5
                it = None
                if rng.random() < 0.12:
                    # restart file: the Beta objects say `start`, the file says something else (feasible as well)
                    other = gen_start(rng, p, bounds, rng.choice(['random', 'near']))
                    it = {nm: f2h(x) for nm, x in zip(p['free'], other)}
                quick = rng.random() < 0.12          # quick_estimate(): no initial value, no derivatives, no write-back
                for a in algorithms:
                    runs.append(make_run(pid, p, bounds, start, a, share, it, None,
                                         {'bounds_kind': bk, 'start_kind': sk}, quick=quick))
    return runs


NO_STEP_TEST = ['LS-newton', 'TR-newton', 'LS-BFGS', 'TR-BFGS']     # check_insufficient_progress is used by simple_bounds only


def gen_tolerance_runs(rng, problems, algorithms, n_problems):
    """non-default [SimpleBounds] tolerance (sharper 1e-7 / looser 1e-3, default steptol) for every algorithm; non-default
    steptol (1e-9 for all; 0.1 only for the algorithms without a step test: for simple_bounds* a relative step <= steptol is a
    documented stopping criterion reported as convergence, so a large steptol legitimately stops far from stationarity)"""
    runs = []
    for pid in sorted(problems, key=lambda k: int(k[1:]))[:n_problems]:
        p = problems[pid]
        for bk in ('none', 'active'):
            bounds = gen_bounds(rng, p, bk)
            start = gen_start(rng, p, bounds, rng.choice(['zero', 'random', 'far']))
            for settings, algs in (({'tolerance': 1e-7}, algorithms), ({'tolerance': 1e-3}, algorithms),
                                   ({'steptol': 1e-9}, algorithms), ({'steptol': 0.1}, [a for a in algorithms if a in NO_STEP_TEST]),
                                   ({'tolerance': 1e-6, 'steptol': 0.1}, [a for a in algorithms if a in NO_STEP_TEST])):
                for a in algs:
                    runs.append(make_run(pid, p, bounds, start, a, False, None, dict(settings), {'bounds_kind': bk, 'start_kind': 'tolerances'}))
    return runs


def run_impl(ctx, problems, runs, spy=False):
    if not runs:
        return []
    order = list(range(len(runs)))
    random_order = ctx.sub_rng('order')
    random_order.shuffle(order)
    shuffled = [runs[i] for i in order]
    chunk = max(1, -(-len(shuffled) // 16))
    needed = {r['pid'] for r in runs}
    res = ctx.impl_cases('c07_estimate.py', shuffled, extra={'problems': {k: v for k, v in problems.items() if k in needed}, 'spy': spy},
                         chunk=min(chunk, 400), timeout=1500)
    out = [None] * len(runs)
    for i, r in zip(order, res):
        out[i] = r
    return out


def fr(h):
    return Fraction(float.fromhex(h))


def close(a, b, tol):
    return abs(a - b) <= tol


class Finding:
    def __init__(self, clause, what, expected, observed):
        self.clause, self.what, self.expected, self.observed = clause, what, expected, observed


def check_run(problem, run, r):
    """the property oracles that concern ONE estimation; returns (findings, info)"""
    out = []
    info = {'converged': False, 'moved': False}
    alg = run['algorithm']
    free = [p for p in run['params'] if not p['fixed']]
    if not r.get('ok'):
        if 'crash' in r:
            out.append(Finding('exception', 'the estimation process died', 'estimation results', r))
        elif unguarded(problem, run) and str(r.get('error', '')).startswith('OptimizationError'):
            # the likelihood is undefined on a region this algorithm is not kept out of: an explicit failure of the (external)
            # line search / trust region is a refusal, not a wrong result
            info['refused'] = True
        else:
            out.append(Finding('exception', f'estimate() raised {r.get("error")}', 'estimation results', {'error': r.get('error'), 'trace': r.get('trace')}))
        return out, info
    names = r['betaNames']
    x = [h2f(v) for v in r['betaValues']]
    if sorted(names) != sorted(p['name'] for p in free) or len(x) != len(names):
        out.append(Finding('names', 'the estimated parameters are not the free parameters of the model',
                           sorted(p['name'] for p in free), {'betaNames': names, 'n_values': len(x)}))
        return out, info
    spec = {p['name']: p for p in run['params']}
    lbs = [h2f(spec[n]['lb']) for n in names]
    ubs = [h2f(spec[n]['ub']) for n in names]
    quick = bool(run.get('quick'))
    if quick and (r['g'] is not None or r['H'] is not None or r['bhhh'] is not None):
        out.append(Finding('quick-estimate', 'quick_estimate() reports derivatives', None, {'g': r['g'], 'H': r['H']}))
        return out, info
    if (not quick and (r['initLogLike'] is None or r['g'] is None or r['H'] is None or r['bhhh'] is None)) or 're_g' not in r:
        out.append(Finding('recompute', 'estimate() did not report initLogLike / g / H / bhhh, or they cannot be recomputed',
                           'numbers', {k: r.get(k) for k in ('initLogLike', 'g', 'H', 'bhhh', 'error')}))
        return out, info
    L = h2f(r['logLike'])
    # quick_estimate() computes neither the initial value nor derivatives: the recomputed ones are used for the oracles on x*
    L0 = h2f(r['re_init']) if quick else h2f(r['initLogLike'])
    g = [h2f(v) for v in (r['re_g'] if quick else r['g'])]
    info['converged'] = bool(r['convergence'])
    info['L'] = L
    info['x'] = x
    # --- the start the estimation must have used
    start = {p['name']: h2f(p['init']) for p in run['params']}
    if run.get('iter_start'):
        start.update({k: h2f(v) for k, v in run['iter_start'].items()})
    for a, lg in zip(run.get('pre') or [], r.get('pre_log') or []):
        if a[0] in ('estimate_from', 'quick_from'):      # BIOGEME.change_init_values(point) before an earlier estimation
            start.update({k: h2f(v) for k, v in a[1].items()})
        if lg.get('estimates'):                          # a completed estimate() writes its estimates back: the next one starts there
            start.update({k: h2f(v) for k, v in lg['estimates'].items()})
    x0 = [start[n] for n in names]
    info['moved'] = any(a != b for a, b in zip(x, x0))
    if not all(math.isfinite(v) for v in x + [L, L0] + g):
        out.append(Finding('finite', 'non-finite estimates / likelihood / gradient on a concave problem with a finite maximum',
                           'finite numbers', {'x': x, 'logLike': L, 'initLogLike': L0, 'g': g}))
        return out, info
    # --- (1) bounds
    if alg in SUPPORTS_BOUNDS:
        bad = [(n, v, lb, ub) for n, v, lb, ub in zip(names, x, lbs, ubs)
               if (lb is not None and Fraction(v) < Fraction(lb)) or (ub is not None and Fraction(v) > Fraction(ub))]
        if bad:
            out.append(Finding('bounds', f'algorithm {alg} supports bounds but the estimate of {bad[0][0]} = {bad[0][1]!r} lies outside '
                               f'[{bad[0][2]}, {bad[0][3]}]', 'lb <= estimate <= ub', [list(b) for b in bad]))
    rb = [[h2f(a), h2f(b)] for a, b in r['res_bounds']]
    if rb != [[a, b] for a, b in zip(lbs, ubs)]:
        out.append(Finding('reported-bounds', 'the bounds stored with the results are not the declared ones',
                           [[a, b] for a, b in zip(lbs, ubs)], rb))
    if [h2f(v) for v in r['res_values']] != x or {k: h2f(v) for k, v in r['get_beta_values'].items()} != dict(zip(names, x)):
        out.append(Finding('reported-values', 'results.data.betas / get_beta_values() differ from results.data.betaValues',
                           dict(zip(names, x)), {'betas': r['res_values'], 'get_beta_values': r['get_beta_values']}))
    # --- (2) final >= initial
    if L < L0 - 1e-9 * max(1.0, abs(L0)):
        out.append(Finding('final-ge-init', f'final log likelihood {L!r} is lower than the initial one {L0!r}',
                           'logLike >= initLogLike', {'logLike': L, 'initLogLike': L0, 'start': x0, 'estimates': x}))
    # --- (3) reported = recomputed (fresh BIOGEME object, same engine)
    if r.get('fresh_names') != names:
        out.append(Finding('names', 'a fresh object orders the free parameters differently', names, r.get('fresh_names')))
        return out, info
    vals = {p['name']: h2f(p['init']) for p in run['params'] if p['fixed']}
    vals.update(dict(zip(names, x)))
    ref = ref_eval(problem, vals, names)
    sc_f = max(1.0, abs(L))
    sc_d = ref['scale_d']
    T = 1e-12

    def cmp_vec(a, b, tol):
        return len(a) == len(b) and all(close(u, v, tol) for u, v in zip(a, b))

    def cmp_mat(a, b, tol):
        return len(a) == len(b) and all(cmp_vec(u, v, tol) for u, v in zip(a, b))

    H = [[h2f(v) for v in row] for row in (r['re_H'] if quick else r['H'])]
    B = [[h2f(v) for v in row] for row in (r['re_bhhh'] if quick else r['bhhh'])]
    if 're_f' not in r:
        out.append(Finding('recompute', 'the likelihood cannot be recomputed at the returned estimates', 'a value', r.get('error')))
        return out, info
    if not close(L, h2f(r['re_f']), T * sc_f) or not close(L, h2f(r['re_f2']), T * sc_f):
        out.append(Finding('loglike-recomputed', 'results.data.logLike is not the likelihood at the returned estimates',
                           {'calculate_likelihood(x*)': h2f(r['re_f']), 'calculate_likelihood_and_derivatives(x*)': h2f(r['re_f2'])}, L))
    if not close(L0, h2f(r['re_init']), T * max(1.0, abs(L0))):
        out.append(Finding('init-recomputed', 'results.data.initLogLike is not the likelihood at the starting values',
                           {'calculate_likelihood(x0)': h2f(r['re_init']), 'x0': x0}, L0))
    if not cmp_vec(g, [h2f(v) for v in r['re_g']], T * sc_d):
        out.append(Finding('gradient-recomputed', 'results.data.g is not the gradient at the returned estimates',
                           [h2f(v) for v in r['re_g']], g))
    if not cmp_mat(H, [[h2f(v) for v in row] for row in r['re_H']], T * sc_d):
        out.append(Finding('hessian-recomputed', 'results.data.H is not the Hessian at the returned estimates',
                           [[h2f(v) for v in row] for row in r['re_H']], H))
    if not cmp_mat(B, [[h2f(v) for v in row] for row in r['re_bhhh']], T * sc_d):
        out.append(Finding('bhhh-recomputed', 'results.data.bhhh is not the BHHH matrix at the returned estimates',
                           [[h2f(v) for v in row] for row in r['re_bhhh']], B))
    # --- (3') the STATED likelihood: independent numpy evaluation of sum_n log P_n(choice_n) and its derivatives
    T2 = 1e-9
    if not close(L, ref['f'], T2 * ref['scale_f']):
        out.append(Finding('loglike-stated', 'results.data.logLike is not the log likelihood of the stated model at the estimates',
                           ref['f'], L))
    if not cmp_vec(g, [float(v) for v in ref['g']], T2 * ref['scale_d']):
        out.append(Finding('gradient-stated', 'results.data.g is not the gradient of the stated log likelihood', [float(v) for v in ref['g']], g))
    if not cmp_mat(H, [[float(v) for v in row] for row in ref['H']], T2 * ref['scale_d']):
        out.append(Finding('hessian-stated', 'results.data.H is not the Hessian of the stated log likelihood',
                           [[float(v) for v in row] for row in ref['H']], H))
    if not cmp_mat(B, [[float(v) for v in row] for row in ref['B']], T2 * ref['scale_d']):
        out.append(Finding('bhhh-stated', 'results.data.bhhh is not the BHHH matrix of the stated log likelihood',
                           [[float(v) for v in row] for row in ref['B']], B))
    vals0 = dict(vals)
    vals0.update(dict(zip(names, x0)))
    ref0 = ref_eval(problem, vals0, names)
    if not close(L0, ref0['f'], T2 * ref0['scale_f']):
        out.append(Finding('init-stated', 'results.data.initLogLike is not the stated log likelihood at the starting values', ref0['f'], L0))
    # --- (4) stationarity when convergence is reported: projected gradient of the maximisation problem P(x + g) - x,
    #     relative as in the stopping rule of biogeme_optimization: |pg_i| max(|x_i|, 1) / max(|f(x*)|, |f(x0)|, 1)
    #     (the rule uses tolerance eps^(1/4) ~ 1.2e-4 by default; 1e-3 is accepted here)
    if r['convergence']:
        use_b = alg in SUPPORTS_BOUNDS
        worst = strict = 0.0
        pgs = []
        for xi, gi, lb, ub in zip(x, g, lbs, ubs):
            y = xi + gi
            if use_b and lb is not None:
                y = max(y, lb)
            if use_b and ub is not None:
                y = min(y, ub)
            pg = y - xi
            pgs.append(pg)
            worst = max(worst, abs(pg) * max(abs(xi), 1.0) / max(abs(L), abs(L0), 1.0))
            strict = max(strict, abs(pg) * max(abs(xi), 1.0) / max(abs(L), 1.0))
        info['relpg'] = worst
        info['relpg_strict'] = strict
        # a configured [SimpleBounds] tolerance t replaces the default eps^(1/4) in the stopping rule of the biogeme_optimization
        # algorithms (scipy ignores it): accepted up to max(1e-3, 10 t); and when the optimiser says it stopped on its
        # relative-gradient test with a SHARPER tolerance than the default, the gradient must really be that small (10 t)
        t_cfg = (run.get('settings') or {}).get('tolerance')
        thr = 1e-3 if t_cfg is None else max(1e-3, 10.0 * float(t_cfg))
        if (t_cfg is not None and float(t_cfg) < 1e-5 and alg != 'scipy' and str(r.get('cause', '')).startswith('Relative gradient')
                and worst > 10.0 * float(t_cfg)):
            out.append(Finding('stationarity-tolerance', f'{alg} reports convergence on its relative-gradient test although tolerance = {t_cfg!r} '
                               f'is configured and the relative projected gradient is {worst:.3g} > 10 x tolerance',
                               f'relative projected gradient <= {t_cfg!r} (configured [SimpleBounds] tolerance)',
                               {'estimates': x, 'g': g, 'projected_gradient': pgs, 'cause': r.get('cause'), 'settings': run.get('settings'),
                                'logLike': L, 'initLogLike': L0}))
        # estimated distance L* - L(x*) to the maximum, used to decide which runs are precise enough to be compared with each
        # other: first order on coordinates held by a bound (g_i * room left), second order elsewhere (1/2 g'(-H)^-1 g with the
        # smallest eigenvalue of -H >= 0.4 guaranteed by the generator): 1.25 * sum |g_i * pg_i|
        info['gap_box'] = 1.25 * sum(abs(gi * pg) for gi, pg in zip(g, pgs))
        info['gap_free'] = 1.25 * sum(gi * gi for gi in g)
        if worst > thr:
            out.append(Finding('stationarity', f'convergence is reported by {alg} but the relative projected gradient is {worst:.3g} > {thr:g}'
                               + (f' (settings {run.get("settings")})' if run.get('settings') else ''),
                               'gradient ~ 0 in every direction not blocked by an active bound',
                               {'estimates': x, 'g': g, 'projected_gradient': pgs, 'bounds': list(zip(lbs, ubs)), 'cause': r.get('cause'),
                                'logLike': L, 'initLogLike': L0, 'settings': run.get('settings')}))
    # --- (4') the results object that was returned does not change when the same BIOGEME object is used again
    if r.get('after') is not None:
        first = {k: r.get(k) for k in r['after']}
        if first != r['after']:
            changed = sorted(k for k in first if first[k] != r['after'][k])
            out.append(Finding('results-mutated', 'the results returned by estimate() changed after further calls on the same BIOGEME object '
                               f'({[a[0] for a in run.get("post") or []]}): fields {changed}',
                               {k: first[k] for k in changed}, {k: r['after'][k] for k in changed}))
    # --- (4'') what the results report is what the optimisation routine of the MAIN estimation returned (recorded calls)
    rcalls = [c for c in (r.get('calls') or []) if c.get('routine') != 'FunctionToMinimize.__init__' and 'ret_convergence' in c]
    if rcalls:
        c0 = rcalls[0]
        if bool(r['convergence']) != c0['ret_convergence'] or bool(r.get('has_converged')) != c0['ret_convergence']:
            out.append(Finding('convergence-reported', f'results report convergence={r["convergence"]} (algorithm_has_converged()='
                               f'{r.get("has_converged")}) but the optimisation of the estimation itself returned convergence='
                               f'{c0["ret_convergence"]} ({c0.get("ret_cause")})', c0['ret_convergence'],
                               {'convergence': r['convergence'], 'cause': r.get('cause'),
                                'all_calls': [[c['ret_convergence'], c.get('ret_cause')] for c in rcalls]}))
        if r.get('cause') != c0.get('ret_cause'):
            out.append(Finding('convergence-reported', 'the reported cause of termination is not the one of the estimation itself',
                               c0.get('ret_cause'), r.get('cause')))
        if r['betaValues'] != c0.get('ret_solution'):
            out.append(Finding('estimates-returned', 'the reported estimates are not the point returned by the optimisation routine',
                               c0.get('ret_solution'), r['betaValues']))
        B_ = run.get('bootstrap')
        if B_:
            boot = r.get('bootstrap')
            if len(rcalls) != B_ + 1 or boot is None or len(boot) != B_:
                out.append(Finding('bootstrap-rows', f'{B_} bootstrap samples requested', f'{B_ + 1} optimisations, {B_} rows',
                                   {'optimisations': len(rcalls), 'rows': None if boot is None else len(boot)}))
            else:
                for k in range(B_):
                    ck = rcalls[k + 1]
                    if ck.get('start') != r['betaValues']:
                        out.append(Finding('bootstrap-start', f'bootstrap re-estimation {k} does not start at the estimates', r['betaValues'], ck.get('start')))
                        break
                    if boot[k] != ck.get('ret_solution'):
                        out.append(Finding('bootstrap-rows', f'row {k} of results.data.bootstrap is not what re-estimation {k} returned',
                                           ck.get('ret_solution'), boot[k]))
                        break
                    if alg in SUPPORTS_BOUNDS and any((lb is not None and Fraction(h2f(v)) < Fraction(lb)) or (ub is not None and Fraction(h2f(v)) > Fraction(ub))
                                                      for v, lb, ub in zip(boot[k], lbs, ubs)):
                        out.append(Finding('bootstrap-bounds', f'bootstrap estimate {k} lies outside the declared bounds', list(zip(lbs, ubs)),
                                           [h2f(v) for v in boot[k]]))
                        break
    # --- (5) write-back (estimate() only; quick_estimate() must leave every Beta alone or write the estimates)
    before, after = r['leaves_before'], r['leaves_after']
    if quick:
        # quick_estimate() is not required to write the estimates back: each free Beta holds the start (possibly read from the
        # restart file) or the estimate; fixed ones are untouched
        est_q = dict(zip(names, x))
        for b0, b1 in zip(before, after):
            same_meta = (b0['name'], b0['lb'], b0['ub'], b0['status']) == (b1['name'], b1['lb'], b1['ub'], b1['status'])
            if b0['status'] == 0 and b0['name'] in est_q:
                okv = fr(b1['init']) in (Fraction(est_q[b0['name']]), Fraction(start[b0['name']]), fr(b0['init']))
            else:
                okv = b0['init'] == b1['init']
            if len(before) != len(after) or not same_meta or not okv:
                out.append(Finding('writeback', f'quick_estimate() left Beta {b0["name"]} neither at its start nor at the estimate', b0, b1))
                break
        info['idm_stale'] = False
        return out, info
    est = dict(zip(names, x))
    if len(before) != len(after):
        out.append(Finding('writeback', 'the Beta leaves of the formula changed', len(before), len(after)))
    else:
        for b0, b1 in zip(before, after):
            if (b0['name'], b0['lb'], b0['ub'], b0['status']) != (b1['name'], b1['lb'], b1['ub'], b1['status']):
                out.append(Finding('writeback', f'name / bounds / status of Beta {b0["name"]} changed during estimation', b0, b1))
                break
            if b0['status'] == 0 and b0['name'] in est:
                if fr(b1['init']) != Fraction(est[b0['name']]):
                    out.append(Finding('writeback', f'after estimation the starting value of {b0["name"]} is {h2f(b1["init"])!r}, '
                                       f'the estimate is {est[b0["name"]]!r}', est[b0['name']], h2f(b1['init'])))
                    break
            elif b0['init'] != b1['init']:
                out.append(Finding('writeback-fixed', f'the fixed parameter {b0["name"]} was modified by the estimation',
                                   h2f(b0['init']), h2f(b1['init'])))
                break
    # ... and into the object's own starting vector (BIOGEME.change_init_values): a second estimate() starts at the estimates
    info['idm_stale'] = [h2f(v) for v in r['idm_after']] != x
    if [Fraction(h2f(v)) for v in r['idm_after']] != [Fraction(v) for v in x]:
        out.append(Finding('writeback-start-vector', 'after estimation the starting vector of the BIOGEME object (id_manager.free_betas_values) '
                           'does not hold the estimates: a second estimate() / calculate_init_likelihood() would not start from them',
                           x, [h2f(v) for v in r['idm_after']]))
    return out, info


def witness(problem, runs, extra=None):
    def rd(run):
        d = {k: v for k, v in run.items()}
        d['readable'] = {'start': {p['name']: h2f(p['init']) for p in run['params']},
                         'bounds': {p['name']: [h2f(p['lb']), h2f(p['ub'])] for p in run['params'] if not p['fixed']},
                         'restart_file': None if not run.get('iter_start') else {k: h2f(v) for k, v in run['iter_start'].items()}}
        return d
    def lin(t):
        return ' + '.join((p if c is None else f'{p}*{c}') for p, c in t) or '0'
    if problem.get('kind') == 'expo':
        spec = {'loglike': ('y*' if 'y' in problem['cols'] else '') + f'log({lin(problem["lin"])}) - ({lin(problem["lin"])})*t'}
    else:
        spec = {a: lin(t) for a, t in problem['alts'].items()}
    w = {'problem': problem, 'runs': [rd(r) for r in runs], 'spec': spec}
    if extra:
        w.update(extra)
    return w


def evaluate(ctx, st, problems, runs, results):
    infos = []
    nconv = 0
    per_alg = {}
    for run, r in zip(runs, results):
        p = problems[run['pid']]
        fs, info = check_run(p, run, r)
        infos.append(info)
        nconv += bool(info.get('converged'))
        a = per_alg.setdefault(run['algorithm'], {'runs': 0, 'converged': 0, 'max_relpg': 0.0, 'idm_stale': 0, 'refused': 0})
        a['runs'] += 1
        a['refused'] += bool(info.get('refused'))
        a['converged'] += bool(info.get('converged'))
        a['max_relpg'] = max(a['max_relpg'], info.get('relpg', 0.0))
        a['idm_stale'] += bool(info.get('idm_stale'))
        if st is not None:
            st.record({'problem': {'kind': p['kind'], 'rows': len(next(iter(p['cols'].values()))), 'free': p['free'], 'fixed': list(p['fixed']),
                                   'alts': p['alts'], 'lin': p.get('lin'), 'sha': p.get('sha')},
                       'params': run['params'], 'algorithm': run['algorithm'], 'share': run['share'],
                       'iter_start': run['iter_start'], 'settings': run.get('settings'), 'tags': run['tags'],
                       'bootstrap': run.get('bootstrap'), 'pre': run.get('pre'), 'post': run.get('post'), 'quick': run.get('quick')},
                      nontrivial=bool(info.get('converged')) and bool(info.get('moved')))
        # witness class: a run in which some free parameter is pinned by lb == ub is marked (degenerate box; see the open
        # finding C07/estimate/stationarity-pinned in KNOWN_FINDINGS.json)
        pinned = any(q['lb'] is not None and q['lb'] == q['ub'] for q in run['params'] if not q['fixed'])
        # ... and a run on a likelihood with an undefined region that nothing keeps this algorithm out of
        # (open finding C07/estimate/(finite|final-ge-init)-undefined-region for the trust-region routines)
        suffix = ('-pinned' if pinned else '') + ('-undefined-region' if unguarded(p, run) else '')
        for f in fs[:2]:
            ctx.violation(f'C07/estimate/{f.clause}{suffix}/{run["algorithm"]}', f.what, witness(p, [run]),
                          f.expected, f.observed, HOW)
    # --- (6) agreement of the maxima: all converged runs that solve the same problem
    groups = {}
    skipped = 0
    for i, (run, info) in enumerate(zip(runs, infos)):
        if not info.get('converged') or 'L' not in info:
            continue
        # only runs whose estimated distance to the maximum is below 1e-6 |L| are compared (so that the 1e-5 threshold is safe):
        # the stopping rules of the optimisers are looser than that (relative gradient normalised by |f(x0)|, a coordinate
        # stopped just short of a bound with a large outward gradient) -- such runs are skipped and counted
        tol_gap = 1e-6 * max(1.0, abs(info['L']))
        in_box_class = run['algorithm'] in SUPPORTS_BOUNDS and info.get('gap_box', 1.0) <= tol_gap
        in_free_class = info.get('gap_free', 1.0) <= tol_gap
        if not (in_box_class or in_free_class):
            skipped += 1
            continue
        # same problem = same data and model, same declared bounds, same values of the fixed parameters
        g = (run['pid'], tuple(sorted((q['name'], q['lb'], q['ub'], q['init'] if q['fixed'] else None) for q in run['params'])))
        # the algorithms that receive the bounds solve the problem on the box; the others the unconstrained problem.  A point of
        # the box where the whole gradient vanishes is a maximum of both (concave L): such a run belongs to both classes
        if in_box_class:
            groups.setdefault((g, 'box'), []).append(i)
        if in_free_class:       # the whole gradient vanishes: an unconstrained maximum (also of the box if the point is inside)
            groups.setdefault((g, 'free'), []).append(i)
    worst = 0.0
    for (g, cls), idxs in groups.items():
        if len(idxs) < 2:
            continue
        lo = min(idxs, key=lambda i: infos[i]['L'])
        hi = max(idxs, key=lambda i: infos[i]['L'])
        d = infos[hi]['L'] - infos[lo]['L']
        rel = d / max(1.0, abs(infos[hi]['L']))
        worst = max(worst, rel)
        if rel > 1e-5:
            p = problems[runs[lo]['pid']]
            ctx.violation(f'C07/estimate/agreement/{runs[lo]["algorithm"]}-vs-{runs[hi]["algorithm"]}',
                          f'two converged estimations of the same concave problem disagree on the maximum: {runs[lo]["algorithm"]} reports '
                          f'{infos[lo]["L"]!r}, {runs[hi]["algorithm"]} reports {infos[hi]["L"]!r} (relative {rel:.3g} > 1e-5)',
                          witness(p, [runs[lo], runs[hi]]), 'equal maxima (relative 1e-5)',
                          {'low': {'algorithm': runs[lo]['algorithm'], 'logLike': infos[lo]['L'], 'estimates': infos[lo]['x']},
                           'high': {'algorithm': runs[hi]['algorithm'], 'logLike': infos[hi]['L'], 'estimates': infos[hi]['x']}}, HOW)
    return {'converged': nconv, 'agreement_skipped_loosely_converged': skipped, 'per_algorithm': per_alg, 'agreement_groups': sum(1 for v in groups.values() if len(v) >= 2),
            'max_relative_disagreement': worst}


def load_corpus():
    d = VERIF / 'corpus' / 'C07'
    out = []
    if d.is_dir():
        for f in sorted(d.glob('*.json')):
            try:
                out.append(json.loads(f.read_text()))
            except Exception:
                pass
    return out


def stream_estimate(ctx, n_problems=None, only=None, name='estimate'):
    st = ctx.stream(name, 'generated concave problems (binary / 3-alternative logit linear in 1-3 free parameters, optional fixed parameter, '
                    '30-80 rows of dyadic data, finite maximum checked by a numpy Newton iteration) x bound configurations '
                    '(none / inactive / active at the optimum / one-sided; for some problems also one parameter pinned by lb == ub) x feasible '
                    'starting points (zero, random, near the optimum, far, on a bound; 12% through a restart file __<model>.iter) x shared or '
                    'per-occurrence Beta objects x EVERY name of optimization.algorithms + automatic; + a second family: duration / count '
                    'models sum y log(lam + b z) - (lam + b z) t, concave with a negative maximum and UNDEFINED (NaN) where lam + b z < 0, '
                    'with no bound / only upper bounds / guarding lower bounds and starts from which a Newton step lands in the undefined '
                    'region; + estimate(run_bootstrap=True) with 2-3 samples, with and without an iteration limit (1-3) too small for the '
                    'main estimation; + histories: further calls (derivatives at another point, check_derivatives, a second estimate / '
                    'quick_estimate from another start, a bootstrap run interrupted by an injected fault in its k-th re-estimation) on the '
                    'same BIOGEME object before and after the estimation; all runs with '
                    'recording spies on the external routines; a few combinations with non-default '
                    '[SimpleBounds] tolerance (1e-7, 1e-3) / steptol (1e-9; 0.1 for the algorithms without step test); 12% through '
                    'quick_estimate(); corpus/C07 first; non-trivial = convergence reported and the estimates differ from the start; '
                    'distinct by (model, parameters, start, bounds, algorithm)')
    algorithms = algorithm_names()
    problems, runs = {}, []
    if only is not None:
        for k, w in enumerate(only):
            pid = f'w{k}'
            problems[pid] = w['problem']
            for run in w['runs']:
                for a in (algorithms if run.get('algorithm') in (None, '*') else [run['algorithm']]):
                    r2 = {kk: vv for kk, vv in run.items() if kk != 'readable'}
                    r2.update({'pid': pid, 'algorithm': a})
                    r2['tags'] = dict(run.get('tags') or {})
                    runs.append(r2)
    else:
        rng = ctx.sub_rng(name)
        for k, w in enumerate(load_corpus()):
            if 'problem' in w and 'runs' in w:
                pid = f'c{k}'
                problems[pid] = w['problem']
                for run in w['runs']:
                    for a in (algorithms if run.get('algorithm') in (None, '*') else [run['algorithm']]):
                        r2 = {kk: vv for kk, vv in run.items() if kk != 'readable'}
                        r2.update({'pid': pid, 'algorithm': a})
                        r2['tags'] = dict(run.get('tags') or {})
                        runs.append(r2)
        npb = n_problems if n_problems is not None else ctx.n(14, 300)
        gen = {}
        for k in range(npb):
            gen[f'p{k}'] = gen_problem(rng)
        problems.update(gen)
        runs += gen_runs(rng, gen, algorithms, n_starts=ctx.n(2, 3), bound_kinds=BOUND_KINDS)
        some = {k: v for k, v in gen.items() if len(v['free']) >= 2 and int(k[1:]) % ctx.n(3, 2) == 0}
        runs += gen_runs(rng, some, algorithms, n_starts=1, bound_kinds=EXTRA_BOUND_KINDS)
        runs += gen_tolerance_runs(rng, gen, algorithms, ctx.n(3, 40))
        runs += gen_bootstrap_runs(rng, gen, algorithms, ctx.n(3, 30))
        runs += gen_history_runs(rng, gen, algorithms, ctx.n(3, 40))
        runs += gen_fault_runs(rng, gen, algorithms, ctx.n(3, 40))
        expo = {}
        for k in range(ctx.n(4, 40) if n_problems is None else max(2, n_problems // 4)):
            expo[f'e{k}'] = gen_expo_problem(rng)
        problems.update(expo)
        runs += gen_expo_runs(rng, expo, algorithms, light=ctx.quick)
        runs += gen_history_runs(rng, expo, [a for a in algorithms if a in SUPPORTS_BOUNDS and a != 'scipy'], ctx.n(1, 10))
    # every estimation runs with the recording spies on the external routines (they then run the real routine): what the
    # results report is compared with what the routine of the MAIN estimation returned
    results = run_impl(ctx, problems, runs, spy=True)
    summary = evaluate(ctx, st, problems, runs, results)
    st.extra.update(summary)
    st.extra['algorithms'] = algorithms
    if only is None and runs and summary['converged'] < 0.5 * len(runs) and not ctx.violations:
        ctx.stream_broken(name, f'only {summary["converged"]} of {len(runs)} estimations report convergence: the generated problems are degenerate')
    return problems, runs, results


# ============================================================================ stream `plumbing`
SETTING_CHOICES = {
    'max_iterations': [37, 50, 123, 400, 1000],
    'initial_radius': [0.5, 1.0, 2.0, 4.0],
    'dogleg': [True, False],
    'enlarging_factor': [2.0, 5.0, 10.0],
    'second_derivatives': [0.0, 0.5, 1.0],
    'infeasible_cg': [True, False],
    'tolerance': [2.0 ** -13, 2.0 ** -12, 1.0e-4, 1.0e-7, 1.0e-3],
    'steptol': [2.0 ** -17, 1.0e-5, 1.0e-9, 1.0e-6],
}


def coq_assoc(d):
    return coq_list([f'({coq_string(k)}, {coq_string(v)})' for k, v in d])


PLUMB_CHK = (
    'Definition chk (c : string * bool * list (string * string) * (string * bool * list (string * string)) * list (string * string)) : bool :=\n'
    "  let '(alg, cx, settings, (obs_rt, obs_hasb, obs_kw), obs_fn) := c in\n"
    '  match expected_call alg cx settings with\n'
    '  | Some (rt, fb, kws) =>\n'
    '      String.eqb rt obs_rt && Bool.eqb fb obs_hasb &&\n'
    '      forallb (fun kv => String.prefix "expr:" (snd kv) ||\n'
    '                         match assoc (fst kv) obs_kw with Some t => String.eqb t (snd kv) | None => false end) kws &&\n'
    '      forallb (fun kv => existsb (fun e => String.eqb (fst e) (fst kv)) kws) obs_kw\n'
    '  | None => false\n'
    '  end &&\n'
    '  forallb (fun kw => match assoc (snd kw) function_parameters, assoc (fst kw) obs_fn with\n'
    '                     | Some src, Some t => String.eqb t (token_of settings src)\n'
    '                     | _, _ => false end) function_parameters_plumbing.\n')


def tolerance_oracle(ctx, problems, run, fn_call):
    """property-level oracle on a recorded call of FunctionToMinimize.__init__: the objective must be built with the CONFIGURED
    tolerance / steptol (they decide when convergence is reported): epsilon = [SimpleBounds] tolerance, steptol = [SimpleBounds] steptol"""
    got = fn_call['kwargs']
    want = {'epsilon': value_token(run['settings']['tolerance']), 'steptol': value_token(run['settings']['steptol'])}
    if got == want:
        return False

    def rd(t):
        try:
            return float(Fraction(t))
        except Exception:
            return t
    ctx.violation(f'C07/plumbing/tolerances/{run["algorithm"]}',
                  f'configured tolerance={run["settings"]["tolerance"]!r}, steptol={run["settings"]["steptol"]!r} -> the objective '
                  f'handed to the optimiser is built with epsilon={rd(got.get("epsilon"))!r}, steptol={rd(got.get("steptol"))!r}: '
                  'convergence is reported under another stopping rule than the configured one',
                  witness(problems[run['pid']], [run]), {k: rd(v) for k, v in want.items()}, {k: rd(v) for k, v in got.items()},
                  'estimate() with the settings of the witness; record the arguments of FunctionToMinimize.__init__ '
                  '(lib/impl/c07_estimate.py, spy=True); ./check C07 --replay <this file>')
    return True


def stream_plumbing(ctx, n_per_alg=None, with_model=True):
    st = ctx.stream('plumbing', 'estimate() with the external routines replaced by recording spies (which then run the real routine): '
                    'every algorithm name x random values of the 8 parameters of sections [SimpleBounds]/[TrustRegion]; the routine called, '
                    'whether it receives the bounds, the keyword arguments it receives and the (epsilon, steptol) given to '
                    'FunctionToMinimize are compared inside Coq with `expected_call` computed from the generated tables; the bounds and '
                    'the starting point handed over are compared exactly with the declared ones; all cases non-trivial; distinct by '
                    '(algorithm, settings, bounds)')
    rng = ctx.sub_rng('plumbing')
    algorithms = algorithm_names()
    problems = {'q0': gen_problem(rng), 'q1': gen_problem(rng)}
    runs = []
    for a in algorithms:
        for _ in range(n_per_alg or ctx.n(3, 25)):
            pid = rng.choice(sorted(problems))
            p = problems[pid]
            bk = rng.choice(BOUND_KINDS)
            bounds = gen_bounds(rng, p, bk)
            start = gen_start(rng, p, bounds, rng.choice(START_KINDS))
            settings = {k: rng.choice(v) for k, v in SETTING_CHOICES.items()}
            runs.append(make_run(pid, p, bounds, start, a, rng.random() < 0.5, None, settings, {'bounds_kind': bk}))
    results = run_impl(ctx, problems, runs, spy=True)
    items, icases, ires = [], [], []
    for run, r in zip(runs, results):
        case = {'algorithm': run['algorithm'], 'settings': run['settings'], 'params': run['params'], 'pid': run['pid']}
        st.record(case, nontrivial=True)
        if not r.get('ok'):
            ctx.violation(f'C07/estimate/exception/{run["algorithm"]}', f'estimate() raised {r.get("error", r.get("crash"))}',
                          witness(problems[run['pid']], [run]), 'estimation results', {'error': r.get('error'), 'trace': r.get('trace')}, HOW)
            continue
        calls = [c for c in r['calls'] if c['routine'] != 'FunctionToMinimize.__init__']
        fns = [c for c in r['calls'] if c['routine'] == 'FunctionToMinimize.__init__']
        if len(calls) != 1 or len(fns) != 1:
            st.disagree(case, 'exactly one external routine called, one objective built', r['calls'])
            continue
        tolerance_oracle(ctx, problems, run, fns[0])
        c = calls[0]
        names = r['betaNames']
        spec = {p['name']: p for p in run['params']}
        declared = [[spec[n]['lb'], spec[n]['ub']] for n in names]
        x0 = [spec[n]['init'] for n in names]
        if c['has_bounds'] and [[None if a is None else h2f(a), None if b is None else h2f(b)] for a, b in c['bounds']] != \
                [[h2f(a), h2f(b)] for a, b in declared]:
            st.disagree(case, {'bounds handed to the routine': declared}, c['bounds'], 'the model hands over id_manager.bounds unchanged')
        if c.get('start') is not None and [h2f(v) for v in c['start']] != [h2f(v) for v in x0]:
            st.disagree(case, {'starting point': x0}, c['start'], 'the model starts the routine at the start values')
        if c['routine'] == 'scipy.optimize.minimize' and c.get('jac') != 'True':
            st.disagree(case, 'jac=True', c.get('jac'))
        if with_model:
            settings = [(k, value_token(v)) for k, v in sorted(run['settings'].items())]
            obs = f'({coq_string(c["routine"])}, {coq_bool(c["has_bounds"])}, {coq_assoc(sorted(c["kwargs"].items()))})'
            items.append(f'({coq_string(run["algorithm"])}, {coq_bool(r["is_model_complex"])}, {coq_assoc(settings)}, {obs}, '
                         f'{coq_assoc(sorted(fns[0]["kwargs"].items()))})')
            icases.append(case)
            ires.append({'call': c, 'objective': fns[0]})
    if with_model and items:
        files = {}
        Bsz = 120
        hdr = ('From Coq Require Import List String Bool.\nFrom BV Require Import Model.PyBase Model.Estim Gen.NegLike Proofs.EstimP.\n'
               'Open Scope string_scope.\n')
        for i in range(0, len(items), Bsz):
            files[f'plumb_{i // Bsz}'] = (hdr + PLUMB_CHK + 'Definition cases := ' + coq_list(items[i:i + Bsz], ';\n') +
                                          '.\nEval vm_compute in (List.map chk cases).\n')
        outs = ctx.coq_eval_many(files)
        for k in sorted(files, key=lambda s: int(s.rsplit('_', 1)[1])):
            ok, out = outs[k]
            i0 = int(k.rsplit('_', 1)[1]) * Bsz
            n_here = len(items[i0:i0 + Bsz])
            if not ok:
                ctx.stream_broken('plumbing', 'model evaluation failed: ' + out[-600:])
                continue
            bs = parse_bools(out)
            if len(bs) != n_here:
                ctx.stream_broken('plumbing', f'could not parse model output ({len(bs)} results for {n_here} cases)')
                continue
            for j, b in enumerate(bs):
                if not b:
                    st.disagree(icases[i0 + j], 'expected_call (generated tables) differs from the recorded call', ires[i0 + j])
    if st.disagreements:
        d = st.disagreements[0]
        ctx.stream_broken('plumbing', f'{len(st.disagreements)} disagreements, first: ' + json.dumps(d, default=str)[:1500])
    # the property oracles apply to these estimations as well
    evaluate(ctx, None, problems, runs, results)


# ============================================================================ driver
GENERATORS = (('NegLike', gen_all),)


def run(ctx):
    ctx.assumptions += ASSUME
    ctx.trusted += [
        'tie A: /verif/lib/py2v with the subclass NLTranslator of lib/props/C07.py (unary minus on vectors / matrices, narrowing of '
        '`if self.x is None: raise`) for NegativeLikelihood._f/_f_g/_f_g_h; specialised fail-closed ast extractors of lib/props/C07.py '
        'for optimization.algorithms, the wrappers (routine called, fct / init_betas / bounds handed on, parameters[...] -> keyword), '
        '_set_algorithm_parameters, _set_function_parameters, optimize, the main path of estimate, RawResults.__init__, '
        'default_parameters (name, section).  The generated tables are validated on every run against recorded calls (stream plumbing)',
        'the hand-written model Model/Estim.v of estimate/optimize/write-back (tied by the static skeleton theorems T07h and by '
        'the streams), the harness: problem generator, numpy reference evaluation of the logit likelihood, oracles of stream estimate',
        'EXTERNAL and only sampled: biogeme_optimization (line search, trust region, simple bounds), scipy.optimize.minimize '
        '(L-BFGS-B), the base class FunctionToMinimize; the calculation engine cythonbiogeme (subject of C01/C02/C04)',
    ]
    try:
        gen_all(ctx)
    except Untranslatable as e:
        ctx.tie_broken('py2v:NegLike', str(e))
    br = ctx.build()
    stream_plumbing(ctx, with_model=br.ok)
    stream_estimate(ctx)
    if ctx.broken and not ctx.violations:
        # failing-input search: something no longer checks.  The oracles of stream `estimate` do not depend on the
        # generated tables (the list of algorithms supporting bounds is the pinned one of T07d): evaluate them on more inputs.
        saved = len(ctx.broken)
        old = ctx.seed
        try:
            for k in range(ctx.n(2, 4)):
                ctx.seed = f'{old}-search{k}'
                stream_estimate(ctx, n_problems=ctx.n(10, 60), name='estimate')
                if ctx.violations:
                    break
        finally:
            ctx.seed = old
        del ctx.broken[saved:]


def replay(ctx, path):
    w = json.load(open(path))
    wit = w.get('witness') if 'witness' in w else w
    if not isinstance(wit, dict) or 'problem' not in wit or 'runs' not in wit:
        print('replay: this file names an obligation/stream; re-run ./check C07')
        return 2
    if '/plumbing/' in str(w.get('key') or ''):
        problems = {'w0': wit['problem']}
        runs = []
        for run in wit['runs']:
            r2 = {kk: vv for kk, vv in run.items() if kk != 'readable'}
            r2['pid'] = 'w0'
            runs.append(r2)
        for run, r in zip(runs, run_impl(ctx, problems, runs, spy=True)):
            fns = [c for c in (r.get('calls') or []) if c['routine'] == 'FunctionToMinimize.__init__']
            if r.get('ok') and len(fns) == 1 and run.get('settings') and {'tolerance', 'steptol'} <= set(run['settings']):
                tolerance_oracle(ctx, problems, run, fns[0])
        evaluate(ctx, None, problems, runs, [r for r in run_impl(ctx, problems, runs)])
    else:
        stream_estimate(ctx, only=[wit])
    bad = bool(ctx.violations) or bool(ctx.known_hits)
    print(json.dumps({'key': w.get('key'), 'still_fails': bad,
                      'violations': [{'key': v['key'], 'what': v['what'][:300]} for v in ctx.violations[:4]],
                      'known_findings': ctx.known_hits}))
    import shutil
    shutil.rmtree(ctx.scratch, ignore_errors=True)
    return 1 if bad else 0
