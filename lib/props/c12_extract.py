"""Tie A of C12: the *recursion table* of the audit machinery, read from the class statements of
/repo/src/biogeme/expressions/*.py and catalog.py with `ast` (nothing is imported or executed).

For every class that derives from Expression the table says which implementation of
`audit`, `check_draws`, `check_rv`, `check_panel_trajectory` and `get_children` it uses (own or
inherited: the C3 linearisation is computed from the class statements) and the *shape* of that
implementation.  Only the shapes present in the source today are recognised; anything else raises
Untranslatable (fail closed).  The table is emitted as rocq/Gen/AuditTable.v; the theorems of
Proofs/AuditP.v are about that generated table.
"""
from __future__ import annotations

import ast
from pathlib import Path

import common
from py2v import Untranslatable

SRC = Path(common.REPO) / 'src' / 'biogeme'     # common.REPO honours the VERIF_REPO test hook
METHODS = ['audit', 'check_draws', 'check_rv', 'check_panel_trajectory', 'get_children']

# Gallina head  ->  Python classes it stands for (all must agree)
BINOPS = {'Plus': 'Plus', 'Minus': 'Minus', 'Times': 'Times', 'Divide': 'Divide', 'Power': 'Power',
          'BMin': 'bioMin', 'BMax': 'bioMax', 'And': 'And', 'Or': 'Or', 'Eq': 'Equal', 'Ne': 'NotEqual',
          'Le': 'LessOrEqual', 'Ge': 'GreaterOrEqual', 'Lt': 'Less', 'Gt': 'Greater'}
UNOPS = {'UMinus': 'UnaryMinus', 'Exp': 'exp', 'Log': 'log', 'Logzero': 'logzero', 'Sin': 'sin', 'Cos': 'cos',
         'NormalCdf': 'bioNormalCdf', 'MonteCarlo': 'MonteCarlo', 'PanelTraj': 'PanelLikelihoodTrajectory'}
HEADS = [
    ('HNum _', ['Numeric']), ('HBeta _ _', ['Beta']), ('HVar _', ['Variable', 'DefineVariable']),
    ('HDraws _ _', ['bioDraws']), ('HRV _', ['RandomVariable']),
    *[(f'HBin {k}', [v]) for k, v in BINOPS.items()],
    *[(f'HUn {k}', [v]) for k, v in UNOPS.items()],
    ('HPowC _', ['PowerConstant']), ('HDerive _', ['Derive']), ('HIntegrate _', ['Integrate']),
    ('HBelongs _', ['BelongsTo']), ('HMultSum', ['bioMultSum']), ('HCondSum', ['ConditionalSum']),
    ('HElem _', ['Elem']), ('HLinUtil', ['bioLinearUtility']),
    ('HLogLogit _ _', ['LogLogit', '_bioLogLogit', '_bioLogLogitFullChoiceSet']),
]
ABSTRACT = ['Expression', 'Elementary', 'BinaryOperator', 'UnaryOperator', 'ComparisonOperator']
TRANSPARENT = ['MultipleExpression', 'Catalog']       # must delegate everything to the selected expression
UNARY_BASE = 'UnaryOperator'


def U(msg):
    return Untranslatable('C12 recursion table: ' + msg)


# ------------------------------------------------------------------------------------ classes
def load_classes():
    files = sorted((SRC / 'expressions').glob('*.py')) + [SRC / 'catalog.py']
    classes = {}
    for f in files:
        try:
            mod = ast.parse(f.read_text())
        except (OSError, SyntaxError) as e:
            raise U(f'cannot parse {f}: {e}')
        for node in mod.body:
            if isinstance(node, ast.ClassDef):
                if node.name in classes:
                    raise U(f'class {node.name} defined twice ({classes[node.name]["file"]} and {f.name})')
                bases = []
                for b in node.bases:
                    if isinstance(b, ast.Name):
                        bases.append(b.id)
                    elif isinstance(b, ast.Attribute):
                        bases.append(b.attr)
                    else:
                        raise U(f'class {node.name}: base expression not understood')
                methods = {}
                for st in node.body:
                    if isinstance(st, (ast.FunctionDef, ast.AsyncFunctionDef)):
                        if st.name in methods and st.name in METHODS:
                            raise U(f'{node.name}.{st.name} defined twice')
                        methods[st.name] = st
                    elif isinstance(st, ast.Assign):
                        for t in st.targets:
                            if isinstance(t, ast.Name) and t.id in METHODS:
                                raise U(f'{node.name}.{t.id} is bound by assignment')
                classes[node.name] = {'file': f.name, 'bases': bases, 'methods': methods, 'node': node}
    # nobody may patch the methods from outside the class statements
    for f in files:
        for node in ast.walk(ast.parse(f.read_text())):
            if isinstance(node, (ast.Assign, ast.AugAssign, ast.AnnAssign)):
                ts = node.targets if isinstance(node, ast.Assign) else [node.target]
                for t in ts:
                    if isinstance(t, ast.Attribute) and t.attr in METHODS:
                        raise U(f'{f.name}: assignment to attribute {t.attr}')
            if isinstance(node, ast.Call) and isinstance(node.func, ast.Name) and node.func.id == 'setattr':
                raise U(f'{f.name}: setattr call')
    return classes


def mro(classes, name, _stack=()):
    """C3 linearisation over the classes known to us; foreign bases (NamedTuple, Enum, object) end a chain."""
    if name in _stack:
        raise U(f'cyclic inheritance at {name}')
    if name not in classes:
        return [name]
    seqs = [mro(classes, b, _stack + (name,)) for b in classes[name]['bases']] + [list(classes[name]['bases'])]
    out = [name]
    seqs = [list(s) for s in seqs if s]
    while seqs:
        for s in seqs:
            cand = s[0]
            if not any(cand in t[1:] for t in seqs):
                break
        else:
            raise U(f'inconsistent hierarchy at {name}')
        out.append(cand)
        seqs = [[x for x in s if x != cand] for s in seqs]
        seqs = [s for s in seqs if s]
    return out


# ------------------------------------------------------------------------------------ shapes
def strip_doc(body):
    if body and isinstance(body[0], ast.Expr) and isinstance(body[0].value, ast.Constant) and isinstance(body[0].value.value, str):
        return body[1:]
    return body


def d(node):
    return ast.dump(node)


def is_name(n, s):
    return isinstance(n, ast.Name) and n.id == s


def is_self_attr(n, attr):
    return isinstance(n, ast.Attribute) and is_name(n.value, 'self') and n.attr == attr


def is_call_self_method(n, meth):
    return (isinstance(n, ast.Call) and is_self_attr(n.func, meth) and not n.args and not n.keywords)


def plain_args(fn, want):
    a = fn.args
    names = [x.arg for x in a.args]
    if a.vararg or a.kwarg or a.kwonlyargs or a.posonlyargs or names != want:
        raise U(f'{fn.name}: unexpected signature {names}')
    if fn.decorator_list:
        raise U(f'{fn.name}: decorated')


def returns_tuple(st, a, b):
    return (isinstance(st, ast.Return) and isinstance(st.value, ast.Tuple) and len(st.value.elts) == 2
            and is_name(st.value.elts[0], a) and is_name(st.value.elts[1], b))


def no_escape(stmts, what):
    """statements that run before / after the recursion must not leave the function or rebind the lists"""
    for st in stmts:
        for n in ast.walk(st):
            if isinstance(n, (ast.Return, ast.Yield, ast.YieldFrom, ast.Break, ast.Continue, ast.Try, ast.With,
                              ast.While, ast.For, ast.Lambda, ast.FunctionDef, ast.Global, ast.Nonlocal, ast.Delete)):
                raise U(f'{what}: statement {type(n).__name__} next to the recursion')
            if isinstance(n, (ast.Assign, ast.AugAssign, ast.AnnAssign, ast.NamedExpr)):
                ts = n.targets if isinstance(n, ast.Assign) else [n.target]
                for t in ts:
                    for m in ast.walk(t):
                        if isinstance(m, ast.Name) and m.id in ('list_of_errors', 'database', 'self'):
                            raise U(f'{what}: {m.id} is rebound next to the recursion')
            if isinstance(n, ast.Call) and isinstance(n.func, ast.Attribute) and is_name(n.func.value, 'list_of_errors') \
                    and n.func.attr != 'append':
                raise U(f'{what}: list_of_errors.{n.func.attr}(...)')


def audit_loop(st, over):
    """for e in <over>: [if not isinstance(e, Expression): ...append] ; err, war = e.audit(database);
    list_of_errors += err; list_of_warnings += war"""
    if not (isinstance(st, ast.For) and is_name(st.target, 'e') and not st.orelse):
        return False
    if over == 'get_children':
        if not is_call_self_method(st.iter, 'get_children'):
            return False
    elif not is_self_attr(st.iter, 'children'):
        return False
    body = list(st.body)
    if body and isinstance(body[0], ast.If):
        # the type guard of Expression.audit: it only appends a message
        g = body[0]
        ok = (isinstance(g.test, ast.UnaryOp) and isinstance(g.test.op, ast.Not) and isinstance(g.test.operand, ast.Call)
              and is_name(g.test.operand.func, 'isinstance') and not g.orelse)
        if not ok:
            return False
        no_escape(g.body, 'type guard of audit loop')
        body = body[1:]
    if len(body) != 3:
        return False
    a, b, c = body
    call_ok = (isinstance(a, ast.Assign) and len(a.targets) == 1 and isinstance(a.targets[0], ast.Tuple)
               and [getattr(x, 'id', None) for x in a.targets[0].elts] == ['err', 'war']
               and isinstance(a.value, ast.Call) and isinstance(a.value.func, ast.Attribute)
               and is_name(a.value.func.value, 'e') and a.value.func.attr == 'audit'
               and len(a.value.args) == 1 and is_name(a.value.args[0], 'database') and not a.value.keywords)
    add_ok = (isinstance(b, ast.AugAssign) and isinstance(b.op, ast.Add) and is_name(b.target, 'list_of_errors') and is_name(b.value, 'err')
              and isinstance(c, ast.AugAssign) and isinstance(c.op, ast.Add) and is_name(c.target, 'list_of_warnings') and is_name(c.value, 'war'))
    return call_ok and add_ok


def empty_list_init(st, name):
    return (isinstance(st, ast.Assign) and len(st.targets) == 1 and is_name(st.targets[0], name)
            and isinstance(st.value, ast.List) and not st.value.elts)


def shape_audit(cls, fn):
    what = f'{cls}.audit'
    plain_args(fn, ['self', 'database'])
    body = strip_doc(fn.body)
    if not body:
        raise U(f'{what}: empty body')
    # --- delegation to the selected expression
    if len(body) == 2 and delegate_prefix(body[0]):
        r = body[1]
        if (isinstance(r, ast.Return) and isinstance(r.value, ast.Call) and isinstance(r.value.func, ast.Attribute)
                and is_name(r.value.func.value, 'expr') and r.value.func.attr == 'audit'
                and len(r.value.args) == 1 and is_name(r.value.args[0], 'database') and not r.value.keywords):
            return 'ADelegate'
        raise U(f'{what}: delegation shape not recognised')
    if not returns_tuple(body[-1], 'list_of_errors', 'list_of_warnings'):
        raise U(f'{what}: does not end with `return list_of_errors, list_of_warnings`')
    mid = body[:-1]
    # --- self.child.audit(database) as the first statement
    f0 = mid[0] if mid else None
    if (isinstance(f0, ast.Assign) and len(f0.targets) == 1 and isinstance(f0.targets[0], ast.Tuple)
            and [getattr(x, 'id', None) for x in f0.targets[0].elts] == ['list_of_errors', 'list_of_warnings']
            and isinstance(f0.value, ast.Call) and isinstance(f0.value.func, ast.Attribute)
            and is_self_attr(f0.value.func.value, 'child') and f0.value.func.attr == 'audit'
            and len(f0.value.args) == 1 and is_name(f0.value.args[0], 'database') and not f0.value.keywords):
        no_escape(mid[1:], what)
        return 'AChild'
    # --- the two lists, then (own rules) and one loop over the children
    if len(mid) < 2 or not empty_list_init(mid[0], 'list_of_errors') or not empty_list_init(mid[1], 'list_of_warnings'):
        raise U(f'{what}: does not start with the two empty lists')
    rest = mid[2:]
    loops = [i for i, st in enumerate(rest) if isinstance(st, ast.For)]
    calls_audit = any(isinstance(n, ast.Attribute) and n.attr == 'audit' for st in rest for n in ast.walk(st))
    if not calls_audit:
        # no recursion at all: only the Variable rule is known
        return leaf_rule(cls, rest)
    if len(loops) != 1:
        raise U(f'{what}: expected exactly one loop over the children')
    i = loops[0]
    others = rest[:i] + rest[i + 1:]
    if cls == 'LogLogit':
        # the rules of LogLogit evaluate the choice and may raise; they come after the loop
        if rest[:i]:
            raise U(f'{what}: statements before the loop over the children')
        for st in rest[i + 1:]:
            for n in ast.walk(st):
                if isinstance(n, (ast.Return, ast.Break, ast.Continue)):
                    raise U(f'{what}: {type(n).__name__} after the loop')
                if isinstance(n, (ast.Assign, ast.AugAssign)):
                    ts = n.targets if isinstance(n, ast.Assign) else [n.target]
                    if any(is_name(t, 'list_of_errors') for t in ts):
                        raise U(f'{what}: list_of_errors is rebound after the loop')
    else:
        no_escape(others, what)
    if any(isinstance(n, ast.Attribute) and n.attr == 'audit' for st in others for n in ast.walk(st)):
        raise U(f'{what}: audit called outside the loop')
    if audit_loop(rest[i], 'get_children'):
        return 'AAll'
    if audit_loop(rest[i], 'children'):
        return 'AChildren'
    raise U(f'{what}: loop over the children not recognised')


def leaf_rule(cls, rest):
    """Variable.audit: `if database is None: raise BiogemeError(...)` then
    `if self.name not in database.data.columns: the_error = ...; list_of_errors.append(the_error)`"""
    what = f'{cls}.audit'
    if cls != 'Variable':
        # an audit that builds its lists and never visits a child: a recognised shape, reported as ANone
        # (the theorems then fail for the kinds that use it)
        no_escape(rest, what)
        return 'ANone'
    if len(rest) != 2 or not all(isinstance(s, ast.If) and not s.orelse for s in rest):
        raise U(f'{what}: expected the database guard and the column test')
    g, t = rest
    if not (isinstance(g.test, ast.Compare) and is_name(g.test.left, 'database') and len(g.test.ops) == 1
            and isinstance(g.test.ops[0], ast.Is) and isinstance(g.test.comparators[0], ast.Constant)
            and g.test.comparators[0].value is None and len(g.body) == 1 and isinstance(g.body[0], ast.Raise)):
        raise U(f'{what}: database guard not recognised')
    cols = t.test.comparators[0] if isinstance(t.test, ast.Compare) and len(t.test.comparators) == 1 else None
    ok = (isinstance(t.test, ast.Compare) and is_self_attr(t.test.left, 'name') and len(t.test.ops) == 1
          and isinstance(t.test.ops[0], ast.NotIn)
          and isinstance(cols, ast.Attribute) and cols.attr == 'columns' and isinstance(cols.value, ast.Attribute)
          and cols.value.attr == 'data' and is_name(cols.value.value, 'database'))
    if not ok:
        raise U(f'{what}: column test `self.name not in database.data.columns` not recognised')
    appends = [s for s in t.body if isinstance(s, ast.Expr) and isinstance(s.value, ast.Call)
               and isinstance(s.value.func, ast.Attribute) and is_name(s.value.func.value, 'list_of_errors')
               and s.value.func.attr == 'append' and len(s.value.args) == 1]
    if len(appends) != 1 or len(t.body) != 2 or not isinstance(t.body[0], ast.Assign):
        raise U(f'{what}: the column test does not append exactly one error')
    return 'AVarRule'


def delegate_prefix(st):
    """_, expr = self.selected()"""
    return (isinstance(st, ast.Assign) and len(st.targets) == 1 and isinstance(st.targets[0], ast.Tuple)
            and [getattr(x, 'id', None) for x in st.targets[0].elts] == ['_', 'expr']
            and is_call_self_method(st.value, 'selected'))


def shape_check(cls, fn, meth):
    what = f'{cls}.{meth}'
    plain_args(fn, ['self'])
    body = strip_doc(fn.body)
    if len(body) == 1 and isinstance(body[0], ast.Return):
        v = body[0].value
        if isinstance(v, ast.Call) and is_name(v.func, 'set') and not v.args and not v.keywords:
            return 'SBlock'
        if isinstance(v, ast.Set) and len(v.elts) == 1 and is_self_attr(v.elts[0], 'name'):
            return 'SSelf'
        raise U(f'{what}: return expression not recognised')
    if len(body) == 2 and delegate_prefix(body[0]):
        r = body[1]
        if (isinstance(r, ast.Return) and isinstance(r.value, ast.Call) and isinstance(r.value.func, ast.Attribute)
                and is_name(r.value.func.value, 'expr') and r.value.func.attr == meth and not r.value.args and not r.value.keywords):
            return 'SDelegate'
        raise U(f'{what}: delegation shape not recognised')
    if len(body) == 2 and isinstance(body[0], ast.Assign) and len(body[0].targets) == 1 and isinstance(body[0].targets[0], ast.Name):
        x = body[0].targets[0].id
        v = body[0].value
        ok = (isinstance(v, ast.Call) and is_name(v.func, 'set') and len(v.args) == 1 and not v.keywords)
        if ok:
            c = v.args[0]
            ok = (isinstance(c, ast.Call) and isinstance(c.func, ast.Attribute) and c.func.attr == 'from_iterable'
                  and is_name(c.func.value, 'chain') and len(c.args) == 1 and not c.keywords and isinstance(c.args[0], ast.ListComp))
        if ok:
            lc = c.args[0]
            gen = lc.generators[0] if len(lc.generators) == 1 else None
            ok = (gen is not None and not gen.ifs and not gen.is_async and is_name(gen.target, 'e')
                  and is_call_self_method(gen.iter, 'get_children')
                  and isinstance(lc.elt, ast.Call) and isinstance(lc.elt.func, ast.Attribute) and is_name(lc.elt.func.value, 'e')
                  and lc.elt.func.attr == meth and not lc.elt.args and not lc.elt.keywords)
        if ok and isinstance(body[1], ast.Return) and is_name(body[1].value, x):
            return 'SAll'
    raise U(f'{what}: shape not recognised')


def shape_children(cls, fn):
    what = f'{cls}.get_children'
    plain_args(fn, ['self'])
    body = strip_doc(fn.body)
    if len(body) == 1 and isinstance(body[0], ast.Return) and is_self_attr(body[0].value, 'children'):
        return 'KOwn'
    if len(body) == 2 and delegate_prefix(body[0]):
        r = body[1]
        if (isinstance(r, ast.Return) and isinstance(r.value, ast.Call) and isinstance(r.value.func, ast.Attribute)
                and is_name(r.value.func.value, 'expr') and r.value.func.attr == 'get_children' and not r.value.args):
            return 'KDelegate'
    raise U(f'{what}: shape not recognised')


def check_unary_children(classes):
    """`self.child` is the only element of `self.children` for every unary operator:
    UnaryOperator.__init__ = Expression.__init__(self); self.child = validate_and_convert(child);
    self.children.append(self.child), and no subclass touches self.children / self.child again."""
    un = classes.get(UNARY_BASE)
    if un is None or '__init__' not in un['methods']:
        raise U('UnaryOperator.__init__ not found')
    body = strip_doc(un['methods']['__init__'].body)
    want = ["Expression.__init__(self)", "self.child = validate_and_convert(child)", "self.children.append(self.child)"]
    got = [ast.unparse(s) for s in body]
    if got != want:
        raise U(f'UnaryOperator.__init__ changed: {got}')
    ex = classes.get('Expression')
    if ex is None or '__init__' not in ex['methods']:
        raise U('Expression.__init__ not found')
    if 'self.children = []' not in [ast.unparse(s) for s in strip_doc(ex['methods']['__init__'].body)]:
        raise U('Expression.__init__ does not start from an empty list of children')
    for name, c in classes.items():
        if name == UNARY_BASE or UNARY_BASE not in mro(classes, name):
            continue
        for mname, fn in c['methods'].items():
            for n in ast.walk(fn):
                if isinstance(n, ast.Attribute) and is_name(n.value, 'self') and n.attr in ('children', 'child') \
                        and isinstance(n.ctx, (ast.Store, ast.Del)):
                    raise U(f'{name}.{mname} rebinds self.{n.attr}')
                if isinstance(n, ast.Attribute) and is_self_attr(n.value, 'children') and n.attr in (
                        'append', 'extend', 'insert', 'pop', 'remove', 'clear', 'reverse', 'sort'):
                    raise U(f'{name}.{mname} mutates self.children')


# ------------------------------------------------------------------------------------ entry-point rules
def find_method(path, cls, meth):
    try:
        mod = ast.parse(path.read_text())
    except (OSError, SyntaxError) as e:
        raise U(f'cannot parse {path}: {e}')
    for node in mod.body:
        if isinstance(node, ast.ClassDef) and node.name == cls:
            fns = [st for st in node.body if isinstance(st, ast.FunctionDef) and st.name == meth]
            if len(fns) != 1:
                raise U(f'{cls}.{meth}: {len(fns)} definitions')
            return fns[0]
    raise U(f'class {cls} not found in {path.name}')


def assigns_name(st, name):
    for n in ast.walk(st):
        if isinstance(n, (ast.Assign, ast.AnnAssign, ast.NamedExpr)):
            ts = n.targets if isinstance(n, ast.Assign) else [n.target]
            for t in ts:
                for m in ast.walk(t):
                    if isinstance(m, ast.Name) and m.id == name:
                        return True
    return False


def shape_biogeme_audit():
    """BIOGEME._audit: the errors of ALL the formulas are accumulated:
         list_of_errors = []
         for v in self.formulas.values():
             check_draws = v.check_draws(); if check_draws: ...; list_of_errors.append(err_msg)
             check_rv = v.check_rv();       if check_rv: ...;    list_of_errors.append(err_msg)
             err, war = v.audit(self.database); list_of_errors += err; list_of_warnings += war
         ...
         if list_of_errors: ...; raise BiogemeError("\\n".join(list_of_errors))
    Returns 'AccAll', or 'AccLast' when the list is re-assigned from v.audit(...) inside the loop."""
    what = 'BIOGEME._audit'
    fn = find_method(SRC / 'biogeme.py', 'BIOGEME', '_audit')
    plain_args(fn, ['self'])
    body = strip_doc(fn.body)
    if len(body) < 4 or not empty_list_init(body[0], 'list_of_errors') or not empty_list_init(body[1], 'list_of_warnings'):
        raise U(f'{what}: does not start with the two empty lists')
    loop = body[2]
    it = loop.iter if isinstance(loop, ast.For) else None
    if not (isinstance(loop, ast.For) and is_name(loop.target, 'v') and not loop.orelse and isinstance(it, ast.Call)
            and isinstance(it.func, ast.Attribute) and it.func.attr == 'values' and is_self_attr(it.func.value, 'formulas')
            and not it.args):
        raise U(f'{what}: the loop `for v in self.formulas.values()` is not the third statement')
    for n in ast.walk(loop):
        if isinstance(n, (ast.Break, ast.Continue, ast.Return, ast.Try)):
            raise U(f'{what}: {type(n).__name__} inside the loop over the formulas')
    # the final raise
    last = body[-1]
    ok = (isinstance(last, ast.If) and is_name(last.test, 'list_of_errors') and not last.orelse
          and isinstance(last.body[-1], ast.Raise) and 'list_of_errors' in ast.unparse(last.body[-1]))
    if not ok:
        raise U(f'{what}: does not end with `if list_of_errors: ... raise BiogemeError(...)`')
    for st in body[3:-1]:
        if assigns_name(st, 'list_of_errors'):
            raise U(f'{what}: list_of_errors is rebound after the loop')
    # inside the loop
    want = {'draws': False, 'rv': False, 'audit': False, 'acc': False}
    reassigned = False
    for st in loop.body:
        src = ast.unparse(st)
        if isinstance(st, ast.Assign) and src == 'check_draws = v.check_draws()':
            want['draws'] = True
        elif isinstance(st, ast.Assign) and src == 'check_rv = v.check_rv()':
            want['rv'] = True
        elif isinstance(st, ast.If) and ast.unparse(st.test) in ('check_draws', 'check_rv') and not st.orelse:
            if 'list_of_errors.append(err_msg)' not in [ast.unparse(x) for x in st.body] or assigns_name(st, 'list_of_errors'):
                raise U(f'{what}: the placement errors are not appended')
        elif src == 'err, war = v.audit(self.database)':
            want['audit'] = True
        elif src == 'list_of_errors += err':
            want['acc'] = want['audit']
        elif src == 'list_of_warnings += war':
            pass
        elif src == 'list_of_errors, list_of_warnings = v.audit(self.database)':
            reassigned = True
        else:
            raise U(f'{what}: statement not recognised in the loop over the formulas: {src[:80]}')
    if not (want['draws'] and want['rv']):
        raise U(f'{what}: check_draws / check_rv not called on every formula')
    if reassigned:
        return 'AccLast'
    if not (want['audit'] and want['acc']):
        raise U(f'{what}: the audit of each formula is not accumulated with +=')
    return 'AccAll'


def check_database_audit():
    """Database._audit looks at the current table only: every attribute of self it reads is `data`"""
    fn = find_method(SRC / 'database.py', 'Database', '_audit')
    plain_args(fn, ['self'])
    attrs = sorted({n.attr for n in ast.walk(fn) if isinstance(n, ast.Attribute) and is_name(n.value, 'self')})
    if attrs != ['data']:
        raise U(f'Database._audit reads {attrs} (expected the current table self.data only)')
    src = ast.unparse(fn)
    for need in ('self.data.dtypes.items()', 'self.data.isnull().values.any()', 'len(self.data.index) == 0'):
        if need not in src:
            raise U(f'Database._audit: `{need}` not found')


def check_nest_intersection():
    """NestsForNestedLogit.check_intersection compares every ordered pair of distinct nests"""
    what = 'NestsForNestedLogit.check_intersection'
    fn = find_method(SRC / 'nests.py', 'NestsForNestedLogit', 'check_intersection')
    plain_args(fn, ['self'])
    body = strip_doc(fn.body)
    if len(body) != 2 or not isinstance(body[0], ast.For) or ast.unparse(body[1]) != "return (True, '')":
        raise U(f'{what}: expected one loop and `return True, \'\'`')
    outer = body[0]
    if ast.unparse(outer.target) != '(i, nest)' or ast.unparse(outer.iter) != 'enumerate(self.tuple_of_nests)' or outer.orelse:
        raise U(f'{what}: outer loop is not `for i, nest in enumerate(self.tuple_of_nests)`')
    inner = [st for st in outer.body if isinstance(st, ast.For)]
    if len(inner) != 1 or ast.unparse(inner[0].target) != '(j, other_nest)' \
            or ast.unparse(inner[0].iter) != 'enumerate(self.tuple_of_nests)' or inner[0].orelse or len(inner[0].body) != 1:
        raise U(f'{what}: inner loop is not `for j, other_nest in enumerate(self.tuple_of_nests)`')
    cond = inner[0].body[0]
    if not (isinstance(cond, ast.If) and ast.unparse(cond.test) == 'i != j' and not cond.orelse
            and ast.unparse(cond.body[0]) == 'the_intersection = nest.intersection(other_nest)'
            and isinstance(cond.body[1], ast.If) and ast.unparse(cond.body[1].test) == 'the_intersection'
            and ast.unparse(cond.body[1].body[-1]) == 'return (False, error_msg)'):
        raise U(f'{what}: the test of a pair of nests is not recognised')
    for n in ast.walk(outer):
        if isinstance(n, (ast.Break, ast.Continue)):
            raise U(f'{what}: {type(n).__name__} in the loops')
    fn2 = find_method(SRC / 'nests.py', 'NestsForNestedLogit', 'check_partition')
    if 'return (valid_union and valid_intersection' not in ast.unparse(fn2):
        raise U('NestsForNestedLogit.check_partition: does not return valid_union and valid_intersection')


def shape_draw_types():
    """IdManager.prepare: after the draws of ALL the formulas have been merged (expr = dict(expr, **d) in the loop, then
    self.draws = expressions_names_indices(expr)), every formula is checked against the merged declarations:
        for f in self.expressions: self._check_types_of_draws(f, expr)          -> ScopeAll
    (a call self._check_types_of_draws(f, d) inside the merging loop = each formula against its own draws -> ScopeOwn)"""
    what = 'IdManager.prepare (types of draws)'
    fn = find_method(SRC / 'expressions' / 'idmanager.py', 'IdManager', 'prepare')
    body = strip_doc(fn.body)
    srcs = [ast.unparse(st) for st in body]
    try:
        i = srcs.index('self.draws = expressions_names_indices(expr)')
    except ValueError:
        raise U(f'{what}: `self.draws = expressions_names_indices(expr)` not found')
    loop = body[i - 1]
    want_loop = ['d = f.dict_of_elementary_expression(the_type=TypeOfElementaryExpression.DRAWS)', 'expr = dict(expr, **d)']
    if not (isinstance(loop, ast.For) and ast.unparse(loop.target) == 'f' and ast.unparse(loop.iter) == 'self.expressions'
            and srcs[i - 2] == 'expr = {}'):
        raise U(f'{what}: the loop merging the draws of the formulas is not recognised')
    inner = [ast.unparse(st) for st in loop.body]
    calls = [k for k, st in enumerate(body) if '_check_types_of_draws' in srcs[k]]
    chk = find_method(SRC / 'expressions' / 'idmanager.py', 'IdManager', '_check_types_of_draws')
    plain_args(chk, ['self', 'expression', 'declared'])
    csrc = ast.unparse(chk)
    for need in ("draw_type = getattr(expression, 'drawType', None)", "name = getattr(expression, 'name', None)",
                 'expected_type = declared[name].drawType', 'draw_type != expected_type', 'raise BiogemeError(',
                 'children = expression.get_children()', 'self._check_types_of_draws(child, declared)'):
        if need not in csrc:
            raise U(f'IdManager._check_types_of_draws: `{need}` not found')
    if inner == want_loop and calls == [i + 1] and isinstance(body[i + 1], ast.For) \
            and srcs[i + 1] == 'for f in self.expressions:\n    self._check_types_of_draws(f, expr)':
        return 'ScopeAll'
    if calls == [i - 1] and inner == [want_loop[0], 'self._check_types_of_draws(f, d)', want_loop[1]]:
        return 'ScopeOwn'
    raise U(f'{what}: the check of the types of the draws is not recognised')


def entry_rules():
    acc = shape_biogeme_audit()
    check_database_audit()
    check_nest_intersection()
    return {'biogeme_audit': acc, 'draw_scope': shape_draw_types()}


# ------------------------------------------------------------------------------------ the table
def build_table():
    classes = load_classes()
    if 'Expression' not in classes:
        raise U('class Expression not found')
    expr_classes = sorted(n for n in classes if 'Expression' in mro(classes, n))
    known = set(ABSTRACT) | set(TRANSPARENT) | {c for _, cs in HEADS for c in cs}
    unknown = [c for c in expr_classes if c not in known]
    if unknown:
        raise U(f'expression classes without a counterpart in Model/Expr.v: {unknown}')
    missing = [c for c in known if c not in expr_classes]
    if missing:
        raise U(f'expected expression classes not found: {missing}')
    check_unary_children(classes)

    shapes = {}   # (class, method) -> shape of the class's OWN implementation

    def own_shape(c, m):
        if (c, m) not in shapes:
            fn = classes[c]['methods'][m]
            if m == 'audit':
                shapes[(c, m)] = shape_audit(c, fn)
            elif m == 'get_children':
                shapes[(c, m)] = shape_children(c, fn)
            else:
                shapes[(c, m)] = shape_check(c, fn, m)
        return shapes[(c, m)]

    table = {}
    for c in expr_classes:
        row = {}
        lin = mro(classes, c)
        for m in METHODS:
            impl = next((k for k in lin if k in classes and m in classes[k]['methods']), None)
            if impl is None:
                raise U(f'{c}: no implementation of {m} in its hierarchy')
            row[m] = (impl, own_shape(impl, m))
        table[c] = row
    return table, {c: mro(classes, c) for c in expr_classes}


def head_rows(table):
    rows = []
    for pat, cs in HEADS:
        r0 = {m: table[cs[0]][m][1] for m in METHODS}
        for c in cs[1:]:
            if {m: table[c][m][1] for m in METHODS} != r0:
                raise U(f'classes {cs} (one model head) do not share their audit machinery')
        rows.append((pat, cs, r0, {m: table[cs[0]][m][0] for m in METHODS}))
    return rows


def emit(table, rules=None):
    rows = head_rows(table)
    rules = rules or entry_rules()
    out = ['(* Recursion table of the audit machinery: for each kind of expression node, the shape of the\n'
           '   implementation of audit / check_draws / check_rv / check_panel_trajectory / get_children that the\n'
           '   class uses (own or inherited), read from src/biogeme/expressions/*.py and catalog.py. *)\n'
           'From BV Require Import Model.Audit.\nOpen Scope string_scope.']

    def fun(name, ty, meth):
        lines = [f'Definition {name} (h : head) : {ty} :=', '  match h with']
        for pat, cs, r, impl in rows:
            lines.append(f'  | {pat} => {r[meth]}   (* {", ".join(cs)}: {impl[meth]}.{meth} *)')
        lines.append('  end.')
        return '\n'.join(lines)

    out.append(fun('gen_audit_mode', 'amode', 'audit'))
    out.append(fun('gen_draws_mode', 'smode', 'check_draws'))
    out.append(fun('gen_rv_mode', 'smode', 'check_rv'))
    out.append(fun('gen_panel_mode', 'smode', 'check_panel_trajectory'))
    out.append(fun('gen_kids_mode', 'kmode', 'get_children'))
    out.append('Definition gen_table : table :=\n  mkTable gen_audit_mode gen_draws_mode gen_rv_mode gen_panel_mode gen_kids_mode.')
    # the classes that stand for "the selected member": everything must be delegated
    tr = []
    for c in TRANSPARENT:
        r = table[c]
        tr.append(f'  ("{c}", ({r["audit"][1]}, {r["check_draws"][1]}, {r["check_rv"][1]}, '
                  f'{r["check_panel_trajectory"][1]}, {r["get_children"][1]}))')
    out.append('Definition gen_transparent : list (string * transparent_row) := [\n'
               + ';\n'.join(tr) + '\n].')
    cl = []
    for c in sorted(table):
        r = table[c]
        cl.append('  ("%s", ["%s"; "%s"; "%s"; "%s"; "%s"])' % (
            c, *[f'{r[m][0]}:{r[m][1]}' for m in METHODS]))
    out.append('(* every Expression class: implementing class and shape of audit, check_draws, check_rv,\n'
               '   check_panel_trajectory, get_children *)\n'
               'Definition gen_classes : list (string * list string) := [\n' + ';\n'.join(cl) + '\n].')
    out.append('(* BIOGEME._audit: the error lists of all the formulas of the specification are accumulated (AccAll),\n'
               '   or only the list of the last formula survives (AccLast) *)\n'
               f'Definition gen_biogeme_acc : accmode := {rules["biogeme_audit"]}.')
    out.append('(* IdManager.prepare: each formula is checked against the draw declarations of all the formulas of the manager\n'
               '   (ScopeAll) or against its own only (ScopeOwn) *)\n'
               f'Definition gen_draw_scope : dscope := {rules["draw_scope"]}.')
    return '\n\n'.join(out) + '\n'
