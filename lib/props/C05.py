"""C05 -- choice models return proper probability distributions over the available options.

Also hosts the machinery shared with C06 (generators of choice-model cases, the structural stream
`build`, the value oracles)."""
import json
import math
from fractions import Fraction

from bridge import json_to_coq, cz, tree_size
from common import coq_string, parse_bools

PID_FILES = ('Model/BuildersChoice.v', 'Proofs/Choice*.v')

ASSUME = [
    'the semantics of expressions is evalX (Model/EvalX.v): reals, -inf only out of a logit with an unavailable '
    'chosen alternative, NaN outside the regular domain (so 0**x with a non-integer x, log 0, x/0 are excluded by '
    'hypotheses: listed alphas > 0, nest parameters and mu > 0)',
    'availability values are real numbers; 0 means unavailable (cross-nested: availabilities >= 0 because cnl.py '
    'multiplies by them)',
    'Python-side arithmetic on numeric (non-Expression) nest parameters is IEEE binary64 round-to-nearest-even away '
    'from overflow/subnormals (Model/BuildersChoice.v round53); identities that depend on the exact value of such '
    'constants (shift invariance, reductions, generating function) are proved under the hypothesis that this '
    'arithmetic was exact, which holds trivially for parameters given as Expressions (Beta, Numeric)',
    'the iteration order of the Python set nests.alone is an input of the model of get_mev_generating_for_nested',
]
TRUSTED = [
    'tie B: hand-written Gallina builders (Model/BuildersChoice.v) compared node for node (expr_eqb, inside Coq) '
    'with the trees built by /repo on generated inputs (stream build); bridge lib/impl/bio_bridge.py + lib/bridge.py',
    'engine numerics (cythonbiogeme) only sampled (stream prob_values)',
    'Phi (normal CDF) is a Section variable: ordered probit range theorem assumes Phi monotone with values in [0,1]',
]


# ---------------------------------------------------------------------------------- encoders
def dy(x):
    """double -> (m, e) with m odd (or (0,0)), as lib/impl/bio_bridge.dyadic"""
    x = float(x)
    if x == 0:
        return (0, 0)
    n, d = x.as_integer_ratio()
    e = -(d.bit_length() - 1)
    while n % 2 == 0:
        n //= 2
        e += 1
    return (n, e)


def coq_dy(d):
    return f'({cz(d[0])}, {cz(d[1])})'


def spec_to_coq(s):
    t = s[0]
    if t == 'Var':
        return f'(EVar {coq_string(s[1])})'
    if t == 'Beta':
        return f'(EBeta {coq_string(s[1])} {"true" if s[3] else "false"})'
    if t == 'Num':
        return f'(ENumD {coq_dy(dy(s[1]))})'
    if t == 'Bin':
        return f'(EBin {s[1]} {spec_to_coq(s[2])} {spec_to_coq(s[3])})'
    if t == 'Un':
        return f'(EUn {"Exp" if s[1] == "exp" else "Log"} {spec_to_coq(s[2])})'
    raise ValueError(s)


def pv_to_coq(p):
    if 'n' in p:
        return f'(PN {coq_dy(dy(p["n"]))})'
    return f'(PE {spec_to_coq(p["e"])})'


def coq_l(items):
    return '[' + '; '.join(items) + ']'


def dict_to_coq(l, f=pv_to_coq):
    return coq_l([f'({cz(int(k))}, {f(v)})' for k, v in l])


def av_to_coq(av):
    return 'None' if av is None else f'(Some {dict_to_coq(av)})'


def zl(l):
    return coq_l([cz(int(x)) for x in l])


def outpv_to_coq(p):
    """a Python value returned by the implementation runner (c05_build.out_pv)"""
    if 'n' in p:
        return f'(PN {coq_dy(p["n"])})'
    return f'(PE {json_to_coq(p["e"])})'


def pyres_to_coq(r, what):
    """expected value, from the implementation: Ok tree / Ok dict / Err k"""
    if 'err' in r:
        return f'(Err {cz(r["err"])})'
    if what == 'tree':
        return f'(Ok {json_to_coq(r["tree"])})'
    if what == 'pvdict':
        return '(Ok ' + coq_l([f'({cz(k)}, {outpv_to_coq(v)})' for k, v in r['dict']]) + ')'
    if what == 'edict':
        items = []
        for k, v in r['dict']:
            if 'e' not in v:
                return None
            items.append(f'({cz(k)}, {json_to_coq(v["e"])})')
        return '(Ok ' + coq_l(items) + ')'
    raise ValueError(what)


NESTED_KINDS = ('lognested', 'nested', 'lognested_mev_mu', 'nested_mev_mu', 'gen_nested', 'mev_nested',
                'mev_nested_mu')
CNL_KINDS = ('logcnl', 'cnl', 'logcnlmu', 'cnlmu', 'mev_cnl', 'mev_cnl_mu')
RESULT_KIND = {'mev_nested': 'pvdict', 'mev_nested_mu': 'pvdict', 'mev_cnl': 'pvdict', 'mev_cnl_mu': 'pvdict',
               'ordered_logit': 'edict', 'ordered_probit': 'edict'}


def coq_opt_string(x):
    return 'None' if x is None else f'(Some {coq_string(x)})'


def carried_names_coq(c):
    """names held by the nest objects when the specification is built (Model: carried_name)"""
    n = len(c['nests'])
    names = c.get('names') or [None] * n
    prev = c.get('prev_pos') or [None] * n
    return [f'(carried_name {coq_opt_string(names[j])} {"None" if not prev[j] else f"(Some {cz(int(prev[j]))})"})'
            for j in range(n)]


def nests_to_coq(c, syntax):
    named = bool(c.get('names') or c.get('prev_pos'))
    if c['kind'] in NESTED_KINDS:
        if syntax == 'legacy':
            return '(NNLegacy ' + coq_l([f'({pv_to_coq(p)}, {zl(a)})' for p, a in c['nests']]) + ')'
        ns = [f'(mkNN {pv_to_coq(p)} {zl(a)})' for p, a in c['nests']]
        if named:
            return (f'(NNObjNamed {zl(c["choice_set"])} '
                    + coq_l([f'({nm}, {n})' for nm, n in zip(carried_names_coq(c), ns)]) + ')')
        return f'(NNObj {zl(c["choice_set"])} ' + coq_l(ns) + ')'
    if syntax == 'legacy':
        return '(CNLegacy ' + coq_l([f'({pv_to_coq(p)}, {dict_to_coq(a)})' for p, a in c['nests']]) + ')'
    ns = [f'(mkCN {pv_to_coq(p)} {dict_to_coq(a)})' for p, a in c['nests']]
    if named:
        return (f'(CNObjNamed {zl(c["choice_set"])} '
                + coq_l([f'({nm}, {n})' for nm, n in zip(carried_names_coq(c), ns)]) + ')')
    return f'(CNObj {zl(c["choice_set"])} ' + coq_l(ns) + ')'


def model_call(c, syntax, r):
    """Gallina term: the model's result for case c in the given syntax"""
    k = c['kind']
    U = 'U'
    if k in ('loglogit', 'logit'):
        return f'({k} U AV CH)'
    if k in ('logmev_es', 'mev_es'):
        fn = 'logmev_endogenous_sampling' if k == 'logmev_es' else 'mev_endogenous_sampling'
        return f'({fn} U {dict_to_coq(c["log_gi"])} AV {dict_to_coq(c["correction"])} CH)'
    if k in ('logmev', 'mev'):
        return f'({k} U {dict_to_coq(c["log_gi"])} AV CH)'
    if k in ('ordered_logit', 'ordered_probit'):
        tau = c['tau']
        taue = spec_to_coq(tau['e']) if 'e' in tau else f'(ENumD {coq_dy(dy(tau["n"]))})'
        return f'({k} {spec_to_coq(c["x"])} {zl(c["vals"])} {taue})'
    N = nests_to_coq(c, syntax)
    if k in ('lognested', 'nested', 'logcnl', 'cnl'):
        return f'({k} U AV {N} CH)'
    if k in ('lognested_mev_mu', 'nested_mev_mu', 'logcnlmu', 'cnlmu'):
        return f'({k} U AV {N} CH MU)'
    if k == 'gen_nested':
        order = r.get('alone_order')
        if order is None:
            order = c.get('alone_sorted', [])
        return f'(get_mev_generating_for_nested U AV {N} {zl(order)})'
    fn = {'mev_nested': 'get_mev_for_nested', 'mev_nested_mu': 'get_mev_for_nested_mu',
          'mev_cnl': 'get_mev_for_cross_nested', 'mev_cnl_mu': 'get_mev_for_cross_nested_mu'}[k]
    if k.endswith('_mu'):
        return f'({fn} U AV {N} MU)'
    return f'({fn} U AV {N})'


def case_to_coq(name, c, res):
    """Definition name : list bool  (one entry per syntax)"""
    what = RESULT_KIND.get(c['kind'], 'tree')
    eqb = {'tree': 'expr_eqb', 'pvdict': '(dict_eqb pv_eqb)', 'edict': '(dict_eqb expr_eqb)'}[what]
    lets = []
    if 'util' in c:
        lets.append(f'let U := {dict_to_coq(c["util"])} in')
        lets.append(f'let AV : avail := {av_to_coq(c.get("av"))} in')
    if c.get('choice') is not None:
        lets.append(f'let CH := {pv_to_coq(c["choice"])} in')
    if c.get('mu') is not None:
        lets.append(f'let MU := {pv_to_coq(c["mu"])} in')
    checks = []
    for syn in c.get('syntaxes', ['legacy', 'objects']):
        r = res[syn]
        exp = pyres_to_coq(r, what)
        if exp is None:
            checks.append('false')
            continue
        chk = f'res_eqb {eqb} {model_call(c, syn, r)} {exp}'
        if syn == 'objects' and isinstance(r.get('names'), list) and 'nests' in c:
            # the names Nests.__init__ leaves on the nest objects vs the model of the naming
            chk = (f'({chk}) && list_eqb String.eqb (assign_names {coq_l(carried_names_coq(c))}) '
                   + coq_l([coq_string(x) for x in r['names']]))
        checks.append(chk)
    return f'Definition {name} : list bool :=\n  ' + '\n  '.join(lets) + '\n  ' + coq_l(checks) + '.\n'


# ---------------------------------------------------------------------------------- generators
def g_util_expr(rng, i):
    r = rng.random()
    if r < 0.30:
        return ['Var', f'x{i}']
    if r < 0.55:
        return ['Bin', 'Times', ['Beta', f'b{rng.randint(1, 3)}', rng.choice([0, 0.5, -1.25]), 0], ['Var', f'x{i}']]
    if r < 0.75:
        return ['Bin', 'Plus', ['Beta', f'asc{i}', 0, rng.choice([0, 0, 1])],
                ['Bin', 'Times', ['Beta', 'b1', -0.5, 0], ['Var', f'x{i}']]]
    if r < 0.85:
        return ['Beta', f'asc{i}', rng.choice([0, 1.5]), 0]
    if r < 0.93:
        return ['Num', rng.choice([0, 1, -2.5, 0.1])]
    return ['Bin', 'Minus', ['Var', f'x{i}'], ['Bin', 'Divide', ['Var', f'z{i}'], ['Num', 10]]]


def g_util(rng, alts, allow_numbers=True):
    u = []
    for i in alts:
        if allow_numbers and rng.random() < 0.06:
            u.append([i, {'n': rng.choice([0, 0.0, 1, -0.5, 2.25, 0.1])}])
        else:
            u.append([i, {'e': g_util_expr(rng, i)}])
    return u


def g_const_av(rng, alts, want_zero=True):
    """availabilities given as plain Python numbers only (no Expression): 1 / 1.0 / True and 0 / 0.0 / False"""
    while True:
        av = [[i, {'n': rng.choice([1, 1.0, True, 1]) if rng.random() < 0.6 else rng.choice([0, 0.0, False])}]
              for i in alts]
        vals = [float(v['n']) for _, v in av]
        if any(vals) and (not want_zero or len(alts) < 2 or not all(vals)):
            return av


def g_av(rng, alts):
    r = rng.random()
    if r < 0.25:
        return None
    if r < 0.40:
        return g_const_av(rng, alts, want_zero=rng.random() < 0.85)
    av = []
    for i in alts:
        q = rng.random()
        if q < 0.6:
            av.append([i, {'e': ['Var', f'av{i}']}])
        elif q < 0.75:
            av.append([i, {'n': rng.choice([1, 1, 0, True, 1.0])}])
        elif q < 0.85:
            av.append([i, {'e': ['Num', rng.choice([1, 0])]}])
        else:
            av.append([i, {'e': ['Bin', 'Times', ['Var', f'av{i}'], ['Var', 'sp']]}])
    if rng.random() < 0.1:
        rng.shuffle(av)
    return av


def g_alts(rng, lo=1, hi=6):
    n = rng.randint(lo, hi)
    if rng.random() < 0.75:
        pool = list(range(1, 8))
    else:
        pool = [0, 3, 8, 9, 10, 16, 17, 23, 31, 32, 64, 100, 255, 1000, -1, -7]
    alts = rng.sample(pool, min(n, len(pool)))
    if rng.random() < 0.6:
        alts.sort()
    return alts


def g_param(rng, name):
    r = rng.random()
    if r < 0.40:
        return {'e': ['Beta', name, rng.choice([1, 1.0, 1.5, 2.3, 4]), rng.choice([0, 0, 1])]}
    if r < 0.72:
        return {'n': rng.choice([1.0, 1.5, 2.0, 1.3, 2.7, 1.1, 3.3, 1.25, 10.0, 1.7, 0.5])}
    if r < 0.84:
        return {'n': rng.choice([1, 2, 3])}
    if r < 0.94:
        return {'e': ['Num', rng.choice([1, 1.5, 2, 1.3])]}
    return {'e': ['Bin', 'Plus', ['Num', 1], ['Un', 'exp', ['Beta', name + '_t', 0, 0]]]}


def g_mu(rng):
    r = rng.random()
    if r < 0.4:
        return {'e': ['Beta', 'MU', rng.choice([1, 1.0, 0.7, 2]), rng.choice([0, 1])]}
    if r < 0.8:
        return {'n': rng.choice([1.0, 1, 0.5, 0.9, 1.3, 2, 2.0, 0.7])}
    return {'e': ['Num', rng.choice([1, 0.8, 1.0])]}


def g_choice(rng, alts):
    r = rng.random()
    if r < 0.5:
        return {'e': ['Var', 'CHOICE']}
    if r < 0.85:
        return {'n': rng.choice(alts)}
    return {'e': ['Num', rng.choice(alts)]}


def g_partition(rng, alts):
    """nests (lists of alternatives) + the alternatives left alone"""
    a = list(alts)
    rng.shuffle(a)
    n_alone = rng.choice([0, 0, 0, 1, 1, 2]) if len(a) > 1 else rng.choice([0, 1])
    n_alone = min(n_alone, len(a))
    alone = a[:n_alone]
    rest = a[n_alone:]
    nests = []
    while rest:
        k = rng.randint(1, max(1, min(4, len(rest))))
        nests.append(sorted(rest[:k]) if rng.random() < 0.7 else rest[:k])
        rest = rest[k:]
    return nests, alone


def g_nested_case(rng, kind, fault=None, dup_pos=None):
    alts = g_alts(rng)
    c = {'kind': kind, 'util': g_util(rng, alts), 'av': g_av(rng, alts), 'choice': g_choice(rng, alts)}
    nests, alone = g_partition(rng, alts)
    c['nests'] = [[g_param(rng, f'MU{j + 1}'), n] for j, n in enumerate(nests)]
    c['choice_set'] = list(alts)
    if kind.endswith('_mu'):
        c['mu'] = g_mu(rng)
    c['fault'] = fault
    if fault == 'overlap' and len(c['nests']) >= 1:
        src = c['nests'][0][1][0]
        if len(c['nests']) >= 2:
            c['nests'][1][1] = c['nests'][1][1] + [src]
        else:
            c['nests'].append([g_param(rng, 'MUX'), [src]])
    elif fault == 'foreign':
        if c['nests']:
            c['nests'][-1][1] = c['nests'][-1][1] + [77]
        else:
            c['nests'] = [[g_param(rng, 'MUX'), [77]]]
    elif fault == 'empty':
        c['nests'].append([g_param(rng, 'MUE'), []])
    elif fault == 'dup' and c['nests']:
        # one nest lists one of its alternatives twice; position of the repetition: first / middle / last
        j = rng.randrange(len(c['nests']))
        l = list(c['nests'][j][1])
        x = rng.choice(l)
        pos = dup_pos if dup_pos is not None else rng.choice(['first', 'middle', 'last'])
        at = {'first': 0, 'middle': (len(l) + 1) // 2, 'last': len(l)}[pos]
        l.insert(at, x)
        c['nests'][j][1] = l
        c['dup'] = {'nest': l, 'alternative': x, 'position': pos}
    elif fault == 'zero' and c['nests']:
        c['nests'][0][0] = {'n': rng.choice([0, 0.0])}
    elif fault == 'nonests':
        c['nests'] = []
    elif fault == 'smallcs' and len(alts) >= 2 and kind not in ('mev_nested', 'mev_nested_mu'):
        # the choice set of the nest object lacks an alternative that has a utility (objects only)
        missing = alone[0] if alone else None
        if missing is not None:
            c['choice_set'] = [a for a in alts if a != missing]
            c['syntaxes'] = ['objects']
    elif fault == 'bigcs' and kind not in ('mev_nested', 'mev_nested_mu', 'gen_nested'):
        c['choice_set'] = list(alts) + [55]
        c['syntaxes'] = ['objects']
    return c


ALPHAS = [0.5, 1, 1.0, 0.3, 0.25, 0.7, 2]


def g_alpha(rng, name):
    r = rng.random()
    if r < 0.5:
        return {'n': rng.choice(ALPHAS)}
    if r < 0.65:
        return {'e': ['Num', rng.choice(ALPHAS)]}
    if r < 0.9:
        return {'e': ['Beta', name, rng.choice([0.5, 0.3, 1]), rng.choice([0, 1])]}
    return {'n': 0}


def g_cnl_case(rng, kind, fault=None):
    alts = g_alts(rng)
    c = {'kind': kind, 'util': g_util(rng, alts), 'av': g_av(rng, alts), 'choice': g_choice(rng, alts)}
    n_alone = rng.choice([0, 0, 0, 1, 2]) if len(alts) > 1 else rng.choice([0, 1])
    shuffled = list(alts)
    rng.shuffle(shuffled)
    alone = shuffled[:n_alone]
    rest = [a for a in alts if a not in alone]
    nn = rng.randint(1, 3)
    member = {j: [] for j in range(nn)}
    for a in rest:
        js = rng.sample(range(nn), rng.randint(1, nn))
        for j in sorted(js):
            member[j].append(a)
    nests = []
    for j in range(nn):
        if not member[j]:
            continue
        al = [[a, g_alpha(rng, f'alpha_{j + 1}_{a}')] for a in member[j]]
        if rng.random() < 0.2:
            rng.shuffle(al)
        nests.append([g_param(rng, f'MU{j + 1}'), al])
    c['nests'] = nests
    c['choice_set'] = list(alts)
    if kind.endswith('mu'):
        c['mu'] = g_mu(rng)
    c['fault'] = fault
    if fault == 'foreign':
        if c['nests']:
            c['nests'][-1][1] = c['nests'][-1][1] + [[77, {'n': 0.5}]]
        else:
            c['nests'] = [[g_param(rng, 'MUX'), [[77, {'n': 0.5}]]]]
    elif fault == 'empty':
        c['nests'].append([g_param(rng, 'MUE'), []])
    elif fault == 'zero' and c['nests']:
        c['nests'][0][0] = {'n': 0}
    elif fault == 'zeromu' and 'mu' in c:
        c['mu'] = {'n': rng.choice([0, 0.0])}
    elif fault == 'nonests':
        c['nests'] = []
    elif fault == 'smallcs' and alone and kind not in ('mev_cnl', 'mev_cnl_mu'):
        c['choice_set'] = [a for a in alts if a != alone[0]]
        c['syntaxes'] = ['objects']
    return c


def g_logit_case(rng, kind):
    alts = g_alts(rng)
    c = {'kind': kind, 'util': g_util(rng, alts), 'av': g_av(rng, alts), 'choice': g_choice(rng, alts),
         'syntaxes': ['legacy']}
    if kind in ('logmev', 'mev', 'logmev_es', 'mev_es'):
        lg = []
        for i in alts:
            r = rng.random()
            if r < 0.6:
                lg.append([i, {'e': ['Bin', 'Times', ['Beta', f'g{i}', 0.5, 0], ['Un', 'log', ['Var', f'y{i}']]]}])
            elif r < 0.8:
                lg.append([i, {'n': rng.choice([0, 0.0, 0.5, -1])}])
            else:
                lg.append([i, {'e': ['Num', rng.choice([0, 0.25])]}])
        if rng.random() < 0.1:
            rng.shuffle(lg)
        if rng.random() < 0.06 and lg:
            lg.pop()
        c['log_gi'] = lg
    if kind in ('logmev_es', 'mev_es'):
        corr = g_correction(rng, alts)
        if rng.random() < 0.1:
            rng.shuffle(corr)
        if rng.random() < 0.06 and corr:
            corr.pop()
        c['correction'] = corr
        # calls made before with the same dictionaries: the tree must not depend on them
        c['warmup'] = [[rng.choice(['P', 'logP']), rng.choice(alts)] for _ in range(rng.choice([0, 1, 2, 3]))]
    return c


def g_ordered_case(rng, kind):
    n = rng.choice([0, 1, 2, 2, 3, 3, 4, 4, 5, 6, 7])
    pool = list(range(-3, 12))
    vals = rng.sample(pool, n)
    if rng.random() < 0.7:
        vals.sort()
    if n >= 3 and rng.random() < 0.08:
        vals[rng.randrange(n)] = vals[rng.randrange(n)]
    r = rng.random()
    if r < 0.9:
        tau = {'e': ['Beta', rng.choice(['tau1', 'tau', 't_1_2']), rng.choice([-1, 0, 0.5]), rng.choice([0, 0, 1])]}
    elif r < 0.95:
        tau = {'n': 0.5}
    else:
        tau = {'e': ['Var', 'tau']}
    return {'kind': kind, 'x': g_util_expr(rng, rng.randint(1, 3)), 'vals': vals, 'tau': tau, 'syntaxes': ['legacy']}


NESTED_FAULTS = ['overlap', 'foreign', 'empty', 'dup', 'zero', 'nonests', 'smallcs', 'bigcs']
CNL_FAULTS = ['foreign', 'empty', 'zero', 'zeromu', 'nonests', 'smallcs']


NAME_POOL = ['A', 'B', 'A', 'nest_1', 'nest_2', 'nest_2', 'Nest']


def add_names(rng, c, mode=None):
    """nest objects that bear a name given by the user and / or were already used, at some position, in an
    earlier specification (they keep the name generated there); equal names arise in both ways"""
    n = len(c.get('nests') or [])
    if n == 0:
        return c
    mode = mode or rng.choice(['explicit', 'equal', 'history', 'collision', 'mixed'])
    names, prev = [None] * n, [None] * n
    if mode == 'explicit':
        names = [rng.choice(NAME_POOL + [None]) for _ in range(n)]
    elif mode == 'equal':
        names = ['N'] * n
    elif mode == 'history':
        prev = [rng.choice([None, 1, 2, 3]) for _ in range(n)]
    elif mode == 'collision':
        # the object now at position j was at position k > j before; the unnamed nest now at k collides
        j = rng.randrange(n)
        k = rng.randrange(n)
        if n >= 2:
            while k == j:
                k = rng.randrange(n)
        prev[j] = k + 1
    else:
        names = [rng.choice(NAME_POOL + [None, None]) for _ in range(n)]
        prev = [rng.choice([None, None, 1, 2, 3]) for _ in range(n)]
    c['names'], c['prev_pos'] = names, prev
    return c


def gen_name_cases(rng):
    """every builder that takes nests x (equal explicit names | names colliding through re-use), >= 2 nests"""
    out = []
    for kind in NESTED_KINDS + CNL_KINDS:
        for mode in ('equal', 'collision'):
            while True:
                c = g_nested_case(rng, kind) if kind in NESTED_KINDS else g_cnl_case(rng, kind)
                if len(c['nests']) >= 2:
                    break
            out.append(add_names(rng, c, mode))
    return out


def gen_const_av_cases(rng):
    """every builder x availabilities that are plain Python numbers with at least one 0"""
    out = []
    for kind in NESTED_KINDS + CNL_KINDS + ('loglogit', 'logit', 'logmev', 'mev', 'logmev_es', 'mev_es'):
        while True:
            if kind in NESTED_KINDS:
                c = g_nested_case(rng, kind)
            elif kind in CNL_KINDS:
                c = g_cnl_case(rng, kind)
            else:
                c = g_logit_case(rng, kind)
                if kind in ('logmev', 'mev', 'logmev_es', 'mev_es') and (len(c['log_gi']) != len(c['util']) or len(c.get('correction', c['util'])) != len(c['util'])):
                    continue
            if len(c['util']) >= 2:
                break
        c['av'] = g_const_av(rng, [k for k, _ in c['util']])
        out.append(c)
    return out


def gen_dup_cases(rng):
    """refusal cases: every nested-logit builder x the position of the repeated alternative (both syntaxes)"""
    out = []
    for kind in NESTED_KINDS:
        for pos in ('first', 'middle', 'last'):
            while True:
                c = g_nested_case(rng, kind, 'dup', dup_pos=pos)
                if 'dup' in c and len(c['dup']['nest']) >= 3:
                    break
            out.append(c)
    return out


def gen_prior_cases(rng):
    """every builder that takes nests, called after the same nests object (and the same utility dict, updated in
    place) served for another model: the tree must be the one of a first call"""
    out = []
    for kind in NESTED_KINDS + CNL_KINDS:
        for mode in ('newdict', 'inplace'):
            while True:
                c = g_nested_case(rng, kind) if kind in NESTED_KINDS else g_cnl_case(rng, kind)
                if c['nests'] and len(c['util']) >= 2:
                    break
            c['prior'] = mode
            out.append(c)
    return out


def gen_build_cases(rng, n):
    cases = gen_dup_cases(rng) + gen_name_cases(rng) + gen_const_av_cases(rng) + gen_prior_cases(rng)
    for _ in range(n):
        r = rng.random()
        if r < 0.42:
            kind = rng.choice(NESTED_KINDS)
            fault = rng.choice(NESTED_FAULTS) if rng.random() < 0.15 else None
            c = g_nested_case(rng, kind, fault)
            if rng.random() < 0.25 and 'syntaxes' not in c:
                add_names(rng, c)
            if rng.random() < 0.2:
                c['prior'] = rng.choice(['newdict', 'inplace'])
            cases.append(c)
        elif r < 0.80:
            kind = rng.choice(CNL_KINDS)
            fault = rng.choice(CNL_FAULTS) if rng.random() < 0.15 else None
            c = g_cnl_case(rng, kind, fault)
            if rng.random() < 0.25 and 'syntaxes' not in c:
                add_names(rng, c)
            cases.append(c)
        elif r < 0.90:
            cases.append(g_logit_case(rng, rng.choice(['loglogit', 'logit', 'logmev', 'mev', 'logmev_es', 'mev_es'])))
        else:
            cases.append(g_ordered_case(rng, rng.choice(['ordered_logit', 'ordered_probit'])))
    return cases


def load_corpus(pid='C05'):
    import glob
    out = []
    for p in sorted(glob.glob(f'/verif/corpus/{pid}/*.json')):
        try:
            d = json.load(open(p))
        except Exception:  # noqa
            continue
        out.append((p, d))
    return out


# ---------------------------------------------------------------------------------- stream build
def repeated_nest(c):
    """a nest of a nested-logit case that lists an alternative more than once (None otherwise)"""
    if c.get('kind') not in NESTED_KINDS:
        return None
    for p, alts in c.get('nests') or []:
        if len(set(alts)) != len(alts):
            return list(alts)
    return None


def refusal_failures(c, r):
    """property oracle on the implementation: a nest that repeats an alternative must be refused with a
    BiogemeError (its nest sum would count the alternative twice, the generating function once)"""
    nest = repeated_nest(c)
    if nest is None:
        return []
    bad = []
    for syn in c.get('syntaxes', ['legacy', 'objects']):
        res = r.get(syn, {})
        if res.get('err') != 1:
            bad.append((syn, nest, summarize(res)))
    return bad


def oracle_refusal(ctx, c, r):
    for syn, nest, obs in refusal_failures(c, r):
        fn = {'mev_nested': 'get_mev_for_nested', 'mev_nested_mu': 'get_mev_for_nested_mu',
              'gen_nested': 'get_mev_generating_for_nested'}.get(c['kind'], c['kind'])
        ctx.violation(f'{ctx.pid}/build/repeated-alternative-accepted/{c["kind"]}',
                      f'{fn} accepts nest {nest} ({syn} syntax), which lists an alternative twice',
                      {'build_case': c, 'syntax': syn}, 'BiogemeError (check_partition refuses the nest)', obs,
                      how='PYTHONPATH=/repo/src /venv/bin/python /verif/lib/impl/c05_build.py < [build_case]')


def nontrivial_build(c, res):
    if any('err' in r for r in res.values()):
        return c.get('fault') is not None
    return True


def stream_build(ctx, n_quick=220, n_thorough=4000):
    st = ctx.stream('build', 'generated (V incl. numeric, av incl. None / numbers / plain Python numbers only with a 0 / shuffled, nest '
                    'objects with user names, equal names, names kept from an earlier specification; nest structures: '
                    'partitions, alternatives alone, overlapping nests with alphas, numeric / Beta / Numeric / '
                    'expression nest parameters, mu, choice; faults: overlap, foreign alternative, empty nest, '
                    'alternative repeated inside a nest (first/middle/last position, all 7 nested builders, must be refused with '
                    'BiogemeError: oracle), zero parameter, no nest, choice set smaller/larger than the utilities) for the 19 '
                    'builders; each case built in the legacy tuple syntax and with nest objects; Python tree vs '
                    'Gallina builder by expr_eqb inside Coq; distinct by case hash; non-trivial = builder succeeded '
                    'or a deliberate fault was injected')
    rng = ctx.sub_rng('build')
    cases = [d['case'] for p, d in load_corpus('C05') + load_corpus('C06') if d.get('stream') == 'build']
    cases += gen_build_cases(rng, ctx.n(n_quick, n_thorough))
    chunks = [cases[i::16] for i in range(16)]
    chunks = [ch for ch in chunks if ch]
    outs = ctx.impl_parallel('c05_build.py', chunks)
    results = [None] * len(cases)
    for ci, ch in enumerate(chunks):
        for j, r in enumerate(outs[ci]):
            results[ci + 16 * j] = r
    files = {}
    B = 60
    index = {}
    legacy_diff = []
    for i, (c, r) in enumerate(zip(cases, results)):
        st.record({k: v for k, v in c.items()}, nontrivial=nontrivial_build(c, r))
        oracle_refusal(ctx, c, r)
        # C06 legacy clause, on the implementation alone: both syntaxes give the same tree
        if 'legacy' in r and 'objects' in r and c.get('choice_set') == [k for k, _ in c.get('util', [])]:
            a, b = dict(r['legacy']), dict(r['objects'])
            a.pop('msg', None), b.pop('msg', None), a.pop('names', None), b.pop('names', None)
            if a != b:
                legacy_diff.append((c, r))
    for i0 in range(0, len(cases), B):
        defs, names = [], []
        for i in range(i0, min(i0 + B, len(cases))):
            nm = f'c{i}'
            defs.append(case_to_coq(nm, cases[i], results[i]))
            names.append(nm)
        files[f'build_{i0 // B}'] = ('From BV Require Import Model.BuildersChoice.\nOpen Scope string_scope.\n'
                                     'Open Scope Z_scope.\n' + ''.join(defs)
                                     + 'Eval vm_compute in (' + coq_l(names) + ').\n')
        index[f'build_{i0 // B}'] = i0
    res = ctx.coq_eval_many(files)
    for k, i0 in sorted(index.items(), key=lambda kv: kv[1]):
        ok, out = res[k]
        here = cases[i0:i0 + B]
        if not ok:
            ctx.stream_broken('build', 'model evaluation failed: ' + out[-800:])
            continue
        bs = parse_bools(out)
        want = sum(len(c.get('syntaxes', ['legacy', 'objects'])) for c in here)
        if len(bs) != want:
            ctx.stream_broken('build', f'could not parse model output ({len(bs)} results for {want} checks)')
            continue
        p = 0
        for j, c in enumerate(here):
            for syn in c.get('syntaxes', ['legacy', 'objects']):
                if not bs[p]:
                    st.disagree(c, f'Gallina builder differs ({syn} syntax)', summarize(results[i0 + j][syn]))
                p += 1
    for c, r in legacy_diff:
        st.disagree(c, 'legacy tuple syntax and nest objects must give identical trees',
                    {k: summarize(v) for k, v in r.items()}, note='legacy')
    st.extra['kinds'] = {}
    for c in cases:
        st.extra['kinds'][c['kind']] = st.extra['kinds'].get(c['kind'], 0) + 1
    if st.disagreements:
        ctx.stream_broken('build', f'{len(st.disagreements)} disagreements, first: '
                          + json.dumps(st.disagreements[0], default=str)[:1500])
    return cases, results


def summarize(r):
    if 'tree' in r:
        return {'tree_size': tree_size(r['tree']), 'alone_order': r.get('alone_order')}
    if 'dict' in r:
        return {'dict_keys': [k for k, _ in r['dict']]}
    return r


# ---------------------------------------------------------------------------------- value cases
def walk_specs(c):
    """all expression specs of a case (for the Beta table)"""
    out = []

    def pv(p):
        if p and 'e' in p:
            out.append(p['e'])

    for k, v in c.get('util', []):
        pv(v)
    for k, v in c.get('av') or []:
        pv(v)
    for k, v in c.get('log_gi') or []:
        pv(v)
    for k, v in c.get('correction') or []:
        pv(v)
    for call in c.get('calls') or []:
        for k, v in call.get('correction') or []:
            pv(v)
    pv(c.get('mu'))
    for key in ('nests', 'nests_alt'):
        for n in c.get(key) or []:
            pv(n[0])
            if n[1] and isinstance(n[1][0], list):
                for k, a in n[1]:
                    pv(a)
    if 'x' in c:
        out.append(c['x'])
    pv(c.get('tau'))
    return out


def beta_value(rng, name):
    if name.startswith('MU') and name.endswith('_t'):
        return rng.choice([-1, -0.5, 0, 0.5, 1])
    if name == 'MU':
        return rng.choice([0.5, 0.75, 1, 1.25, 1.5, 2])
    if name.startswith('MU'):
        return rng.choice([1, 1.25, 1.5, 2, 2.5, 3, 4])
    if name.startswith('alpha'):
        return rng.choice([0.125, 0.25, 0.5, 0.75, 1])
    if name.startswith('g'):
        return rng.choice([0.25, 0.5, 1, -0.5])
    if name.startswith('w'):
        return rng.choice([-1, -0.5, 0.5, 1, 2])
    if name.startswith('tau') or name.startswith('t_'):
        return rng.choice([-1, -0.5, 0, 0.5, 1])
    return rng.choice([-1.5, -1, -0.5, -0.25, 0, 0.25, 0.5, 1, 1.5])


def set_betas(rng, c, force=None):
    """one value and one status per Beta name; rewrites the specs in place; returns the table"""
    table, status = {}, {}

    def go(s):
        if s[0] == 'Beta':
            nm = s[1]
            if nm not in table:
                table[nm] = (force or {}).get(nm, beta_value(rng, nm))
                status[nm] = s[3]
            s[2] = table[nm]
            s[3] = status[nm]
        elif s[0] == 'Bin':
            go(s[2]), go(s[3])
        elif s[0] == 'Un':
            go(s[2])

    for s in walk_specs(c):
        go(s)
    return table


def spec_vars(s, acc):
    if s[0] == 'Var':
        acc.add(s[1])
    elif s[0] == 'Bin':
        spec_vars(s[2], acc), spec_vars(s[3], acc)
    elif s[0] == 'Un':
        spec_vars(s[2], acc)
    return acc


def gen_rows(rng, c, n):
    names = set()
    for s in walk_specs(c):
        spec_vars(s, names)
    rows = []
    for _ in range(n):
        row = {}
        for v in sorted(names):
            if v.startswith('av'):
                row[v] = float(rng.random() < 0.75)
            elif v == 'sp':
                row[v] = float(rng.random() < 0.85)
            elif v.startswith('y'):
                row[v] = rng.choice([0.25, 0.5, 1, 1.5, 2, 3])
            elif v == 'CHOICE':
                row[v] = 1.0
            else:
                row[v] = rng.randint(-16, 16) / 8
        rows.append(row)
    return rows


SMALL_ALTS = dict(lo=2, hi=5)


def value_case_nested(rng, mu=False):
    while True:
        c = g_nested_case(rng, 'lognested_mev_mu' if mu else 'lognested')
        if len(c['util']) >= 2:
            break
    c.pop('fault', None)
    c['choice'] = None
    c['util'] = [[k, v if 'e' in v else {'e': ['Num', v['n']]}] for k, v in c['util']]
    return c


def value_case_cnl(rng, mu=False):
    while True:
        c = g_cnl_case(rng, 'logcnlmu' if mu else 'logcnl')
        ok = len(c['util']) >= 2 and c['nests']
        # every alternative that is not alone needs a positive alpha somewhere
        pos = set()
        for p, al in c['nests']:
            for k, a in al:
                if not ('n' in a and a['n'] == 0):
                    pos.add(k)
        members = {k for p, al in c['nests'] for k, a in al}
        if ok and members <= pos:
            break
    c.pop('fault', None)
    c['choice'] = None
    return c


def finite(v):
    return isinstance(v, (int, float)) and not isinstance(v, bool) and math.isfinite(v)


TOL_SUM = Fraction(1, 10 ** 9)
TOL_RANGE = Fraction(1, 10 ** 12)
TOL_PAIR = Fraction(1, 10 ** 9)


def close(a, b, rel=TOL_PAIR, abs_=Fraction(1, 10 ** 300)):
    fa, fb = Fraction(a), Fraction(b)
    return abs(fa - fb) <= rel * max(abs(fa), abs(fb)) + abs_


def availability(res, alts, r):
    AV = res.get('AV', {}).get('alts', {})
    out = {}
    for k in alts:
        v = AV.get(str(k))
        if not isinstance(v, list) or not finite(v[r]):
            return None
        out[k] = Fraction(v[r]) != 0
    return out


def oracle_distribution(c, res, r, Pname='P', logname='logP', shiftname='Ps'):
    """direct statement of C05 on the implementation's output for row r; returns list of (key, what, detail)"""
    alts = [k for k, _ in c['util']]
    bad = []
    av = availability(res, alts, r)
    if av is None or not any(av.values()):
        return None
    P = res.get(Pname, {})
    if 'exc' in P:
        return [('exception', f'{Pname} raised', P['exc'])]
    vals = {}
    for k in alts:
        v = P['alts'].get(str(k))
        if not isinstance(v, list):
            bad.append(('exception', f'probability of alternative {k} raised', v))
            continue
        vals[k] = v[r]
    if bad:
        return bad
    for k, v in vals.items():
        if not finite(v):
            bad.append(('non-finite', f'probability of alternative {k} is {v}', vals))
    if bad:
        return bad
    total = sum(Fraction(v) for v in vals.values())
    if abs(total - 1) > TOL_SUM:
        bad.append(('sum', f'probabilities sum to {float(total)!r}', vals))
    for k, v in vals.items():
        f = Fraction(v)
        if f < -TOL_RANGE or f > 1 + TOL_RANGE:
            bad.append(('range', f'probability of alternative {k} = {v!r} outside [0,1]', vals))
        if not av[k] and f != 0:
            bad.append(('unavailable', f'unavailable alternative {k} has probability {v!r}', vals))
    L = res.get(logname)
    if L is not None:
        if 'exc' in L:
            bad.append(('exception', f'{logname} raised', L['exc']))
        else:
            for k in alts:
                lv = L['alts'].get(str(k))
                lv = lv[r] if isinstance(lv, list) else lv
                if av[k]:
                    if not finite(lv):
                        bad.append(('log', f'log-probability of available alternative {k} is {lv}', vals[k]))
                    elif not close(math.exp(lv), vals[k], abs_=Fraction(1, 10 ** 15)):
                        bad.append(('log', f'exp(logP)={math.exp(lv)!r} but P={vals[k]!r} (alternative {k})', lv))
                elif lv != 'minf':
                    bad.append(('log', f'log-probability of unavailable alternative {k} is {lv!r}, not -inf', vals[k]))
    S = res.get(shiftname)
    if S is not None:
        if 'exc' in S:
            bad.append(('exception', f'{shiftname} raised', S['exc']))
        else:
            for k in alts:
                sv = S['alts'].get(str(k))
                sv = sv[r] if isinstance(sv, list) else sv
                if not finite(sv) or abs(Fraction(sv) - Fraction(vals[k])) > TOL_SUM:
                    bad.append(('shift', f'P(V+c)={sv!r} but P(V)={vals[k]!r} (alternative {k}, c={c.get("shift")})', None))
    return bad


def oracle_ordered(c, res, r):
    P = res.get('P', {})
    if 'exc' in P:
        return [('exception', 'ordered model raised', P['exc'])]
    vals = {}
    for k in c['vals']:
        v = P['alts'].get(str(k))
        if not isinstance(v, list) or not finite(v[r]):
            return [('non-finite', f'probability of category {k} is {v}', None)]
        vals[k] = v[r]
    bad = []
    total = sum(Fraction(v) for v in vals.values())
    if abs(total - 1) > TOL_SUM:
        bad.append(('sum', f'category probabilities sum to {float(total)!r}', vals))
    for k, v in vals.items():
        if Fraction(v) < -TOL_RANGE or Fraction(v) > 1 + TOL_RANGE:
            bad.append(('range', f'probability of category {k} = {v!r} outside [0,1]', vals))
    return bad


FAMILY_FN = {'logit': ('logit', 'loglogit'), 'mev': ('mev', 'logmev'), 'nested': ('nested', 'lognested'),
             'nested_mu': ('nested_mev_mu', 'lognested_mev_mu'), 'cnl': ('cnl', 'logcnl'),
             'cnlmu': ('cnlmu', 'logcnlmu')}


def g_const_expr(rng, i):
    """utility without any variable: can be evaluated by the pure-Python evaluator get_value()"""
    r = rng.random()
    if r < 0.35:
        return ['Beta', f'asc{i}', 0, rng.choice([0, 1])]
    if r < 0.6:
        return ['Num', rng.choice([0, 1, -2.5, 0.5, 1.25, -0.75])]
    if r < 0.85:
        return ['Bin', 'Times', ['Beta', f'b{rng.randint(1, 3)}', 0.5, 0], ['Num', rng.choice([-2, -0.5, 1.5, 3])]]
    return ['Bin', 'Plus', ['Beta', f'asc{i}', 0, 0], ['Bin', 'Times', ['Beta', 'b1', -0.5, 0], ['Num', rng.choice([1, 2, -1.5])]]]


def g_correction(rng, alts, const=None):
    """correction terms of the endogenous-sampling MEV model, differing across the alternatives"""
    out = []
    for i in alts:
        if const is not None:
            out.append([i, dict(const)])
            continue
        r = rng.random()
        if r < 0.4:
            out.append([i, {'n': rng.choice([0.5, -1, 1.5, 2, -0.25, 0, 3])}])
        elif r < 0.7:
            out.append([i, {'e': ['Beta', f'w{i}', 0.5, rng.choice([0, 1])]}])
        else:
            out.append([i, {'e': ['Num', rng.choice([0.75, -1.25, 2.5])]}])
    return out


def es_orders(rng, alts):
    P = [['P', i] for i in alts]
    L = [['logP', i] for i in alts]
    k = rng.randrange(5)
    if k == 0:
        return P + L
    if k == 1:
        return L + P
    if k == 2:
        return [x for pair in zip(P, L) for x in pair]
    if k == 3:
        return list(reversed(L)) + list(reversed(P))
    o = P + L
    rng.shuffle(o)
    return o


def value_case_es(rng, python=False):
    while True:
        c = g_logit_case(rng, 'mev')
        if len(c['util']) >= 2 and len(c['log_gi']) == len(c['util']):
            break
    alts = [k for k, _ in c['util']]
    c['kind'] = 'mev_es'
    c['family'] = 'mev_es'
    c['correction'] = g_correction(rng, alts)
    return c


def make_python_case(rng, c):
    """variable-free variant of a value case, for the pure-Python evaluator: utilities / ln G_i without variables,
    availabilities None, plain numbers or Numeric (some 0)"""
    alts = [k for k, _ in c['util']]
    c['util'] = [[k, {'e': g_const_expr(rng, k)}] for k in alts]
    r = rng.random()
    if r < 0.15:
        c['av'] = None
    elif r < 0.6:
        c['av'] = g_const_av(rng, alts)
    else:
        c['av'] = [[k, ({'e': ['Num', v['n'] * 1]} if rng.random() < 0.7 else v)] for k, v in g_const_av(rng, alts)]
    if c.get('log_gi'):
        c['log_gi'] = [[k, {'e': ['Bin', 'Times', ['Beta', f'g{k}', 0.5, 0], ['Un', 'log', ['Num', rng.choice([0.5, 1.5, 2, 3])]]]}
                        if rng.random() < 0.7 else {'n': rng.choice([0, 0.5, -1])}] for k in alts]
    # FINDING (reported, not yet repaired): with an alpha = 0 entry whose nest mates are all unavailable and a
    # nest parameter given as an Expression, get_value() computes 0 * inf = nan where the engine gives 0; until
    # Times.get_value is repaired the pure-Python path is exercised with positive alphas only (the engine path
    # keeps the alpha = 0 entries).  Lift this restriction after the repair.
    if c.get('family') in ('cnl', 'cnlmu'):
        for p_, al in c['nests']:
            for ent in al:
                if 'n' in ent[1] and float(ent[1]['n']) == 0:
                    ent[1] = {'n': 0.25}
    c['python'] = True
    return c


def es_view(res, name):
    """present the result of an es_dist call as the P / logP results the oracles read"""
    E = res.get(name)
    if not isinstance(E, dict) or 'exc' in E:
        return E, E
    return ({'alts': E.get('P', {}), 'trees': E.get('trees', {})}, {'alts': E.get('logP', {})})


def normalise_result(c, res):
    if 'exc' in res:
        return res
    for nm, (pn, ln) in (('ES', ('P', 'logP')), ('ESpy', ('Ppy', 'logPpy')), ('ESconst', ('Pconst', 'logPconst'))):
        if nm in res:
            res[pn], res[ln] = es_view(res, nm)
    return res


def case_oracles(c, res, r):
    """all the C05 oracles for row r of one value case; None = row without an available alternative"""
    if c['family'].startswith('ordered'):
        return oracle_ordered(c, res, r)
    if c.get('history'):
        return oracle_history(c, res, r)
    shiftname = 'Ps' if 'Ps' in res else None
    bad = oracle_distribution(c, res, r, 'P', 'logP', shiftname or '-')
    if bad is None:
        return None
    # the caller's dictionaries must come back untouched
    for nm, x in res.items():
        if isinstance(x, dict) and x.get('mutated'):
            bad.append(('caller-dict-modified', f'the call {nm} ({c["family"]}) modified the dictionaries '
                        f'{x["mutated"]} passed by the caller', x.get('order')))
    alts = [k for k, _ in c['util']]
    if c.get('python') and r == 0:
        pb = oracle_distribution(c, res, 0, 'Ppy', 'logPpy', 'Pspy' if 'Pspy' in res else '-')
        for kind, what, detail in pb or []:
            bad.append((f'python-{kind}', 'pure-Python evaluator get_value(): ' + what, detail))
        for k in alts:
            for a_name, b_name in (('P', 'Ppy'), ('logP', 'logPpy')):
                a = res.get(a_name, {}).get('alts', {}).get(str(k)) if isinstance(res.get(a_name), dict) else None
                b = res.get(b_name, {}).get('alts', {}).get(str(k)) if isinstance(res.get(b_name), dict) else None
                a = a[0] if isinstance(a, list) else a
                b = b[0] if isinstance(b, list) else b
                if finite(a) and finite(b):
                    if not close(a, b, abs_=Fraction(1, 10 ** 15)):
                        bad.append(('python-vs-engine', f'{a_name} of alternative {k}: engine {a!r}, get_value() {b!r}', None))
                elif a != b and not (isinstance(a, dict) or isinstance(b, dict)):
                    bad.append(('python-vs-engine', f'{a_name} of alternative {k}: engine {a!r}, get_value() {b!r}', None))
    if 'Pconst' in res and 'Pmev' in res and isinstance(res['Pconst'], dict) and 'alts' in res['Pconst'] \
            and 'alts' in res['Pmev']:
        for k in alts:
            a, b = res['Pconst']['alts'].get(str(k)), res['Pmev']['alts'].get(str(k))
            a = a[r] if isinstance(a, list) else a
            b = b[r] if isinstance(b, list) else b
            if not finite(a) or not finite(b) or not close(a, b, abs_=Fraction(1, 10 ** 15)):
                bad.append(('equal-corrections', f'with the same correction for every alternative the probability of '
                            f'{k} is {a!r} but mev gives {b!r}', None))
    return bad


HISTORY_FNS = {'logit': ['logit', 'loglogit'], 'mev': ['mev', 'logmev'], 'mev_es': ['mev_es', 'logmev_es'],
               'nested': ['nested', 'lognested', 'lnG_nested', 'gen'],
               'nested_mu': ['nested_mev_mu', 'lognested_mev_mu', 'lnG_nested_mu', 'nested', 'lognested'],
               'cnl': ['cnl', 'logcnl', 'lnG_cnl'], 'cnlmu': ['cnlmu', 'logcnlmu', 'lnG_cnl_mu', 'cnl']}
PROB_FNS = ('logit', 'mev', 'mev_es', 'nested', 'nested_mev_mu', 'cnl', 'cnlmu')


def history_steps(rng, fam, alts, has_av):
    """evaluate, then 1-3 rounds of (update of the utilities / availabilities: a new dict or the same dict changed
    in place) followed by evaluations on the SAME nests / dict objects"""
    fns = HISTORY_FNS[fam]
    steps = [{'op': 'eval', 'fn': fns[0]}]
    if rng.random() < 0.5:
        steps.append({'op': 'eval', 'fn': rng.choice(fns)})
    for _ in range(rng.randint(1, 3)):
        kinds = ['shift_new', 'shift_inplace', 'bump_inplace', 'bump_new']
        if has_av:
            kinds += ['av_inplace', 'av_new']
        k = rng.choice(kinds)
        if k.startswith('shift'):
            steps.append({'op': k, 'c': rng.choice([-2, -0.75, 0.5, 1.5, 3])})
        elif k.startswith('bump'):
            steps.append({'op': k, 'alt': rng.choice(alts), 'h': rng.choice([-1.5, 0.8, 2])})
        else:
            steps.append({'op': k, 'alt': rng.choice(alts), 'value': rng.choice([0, 1, 1, 0.0])})
        steps.append({'op': 'eval', 'fn': fns[0]})
        for f in rng.sample(fns, rng.randint(0, min(2, len(fns)))):
            steps.append({'op': 'eval', 'fn': f})
    return steps


def gen_history_case(rng, fam, fresh_syntax=None, syntax=None):
    if fam in ('logit', 'mev'):
        while True:
            c = g_logit_case(rng, 'mev' if fam == 'mev' else 'logit')
            if len(c['util']) >= 2 and (fam != 'mev' or len(c['log_gi']) == len(c['util'])):
                break
    elif fam == 'mev_es':
        c = value_case_es(rng)
    else:
        while True:
            c = (value_case_nested(rng, fam == 'nested_mu') if fam.startswith('nested')
                 else value_case_cnl(rng, fam == 'cnlmu'))
            if c['nests']:
                break
    c['family'] = fam
    c['history'] = True
    c.pop('syntaxes', None)
    c['choice'] = None
    c['util'] = [[k, v if 'e' in v else {'e': ['Num', v['n']]}] for k, v in c['util']]
    force = None
    if 'nests' in c:
        vals = rng.sample([1.25, 1.5, 1.75, 2.0, 2.5, 3.0, 4.0], len(c['nests']))
        force = {}
        for j, nst in enumerate(c['nests']):
            nst[0] = {'n': vals[j]} if rng.random() < 0.5 else {'e': ['Beta', f'MU{j + 1}', vals[j], 0]}
            force[f'MU{j + 1}'] = vals[j]
    c['betas'] = set_betas(rng, c, force=force)
    c['rows'] = gen_rows(rng, c, 3)
    alts = [k for k, _ in c['util']]
    syn = syntax or ('objects' if 'nests' in c and rng.random() < 0.8 else 'legacy')
    call = {'name': 'H', 'fn': 'history', 'syntax': syn, 'steps': history_steps(rng, fam, alts, c.get('av') is not None)}
    if fresh_syntax:
        call['fresh_syntax'] = fresh_syntax
    c['calls'] = [call]
    return c


def hv(d, k, r):
    v = d.get(str(k)) if isinstance(d, dict) else None
    if isinstance(v, list):
        return v[r] if r < len(v) else v[0]
    return ('exc', v)


def oracle_history(c, res, r, distribution=True):
    """every evaluation of a history on the same nests / util / availability objects must (1) equal the evaluation
    on freshly built objects in the same state, (2) be a distribution, (3) not move under a uniform shift"""
    H = res.get('H')
    if not isinstance(H, dict) or 'evals' not in H:
        return [('exception', 'the history could not be run', H)]
    bad = []
    any_row = False
    last = {}
    for n, ev in enumerate(H['evals']):
        fn = ev['fn']
        keys = list(ev['fresh'].keys())
        avail = {}
        for k, v in ev['av'].items():
            x = v[r] if isinstance(v, list) and r < len(v) else (v[0] if isinstance(v, list) else v)
            avail[k] = finite(x) and Fraction(x) != 0
        if not any(avail.values()):
            last.pop(fn, None)
            continue
        any_row = True
        desc = f'evaluation {n} ({fn}) after ' + json.dumps(ev['after'])
        for k in keys:
            a, b = hv(ev['hist'], k, r), hv(ev['fresh'], k, r)
            if isinstance(a, tuple) or isinstance(b, tuple):
                if isinstance(a, tuple) != isinstance(b, tuple):
                    bad.append(('history', f'{desc}: alternative {k}: {a!r} on the re-used objects, {b!r} on fresh ones', None))
                continue
            if k in avail and not avail[k] and fn.startswith('lnG'):
                continue
            if finite(a) and finite(b):
                if not close(a, b, abs_=Fraction(1, 10 ** 15)):
                    bad.append(('history', f'{desc}: alternative {k}: {a!r} on the re-used objects but {b!r} on '
                                'freshly built objects in the same state', None))
            elif a != b:
                bad.append(('history', f'{desc}: alternative {k}: {a!r} on the re-used objects but {b!r} on fresh ones', None))
        if fn in PROB_FNS and distribution:
            vals = {k: hv(ev['hist'], k, r) for k in keys}
            if all(finite(v) for v in vals.values()):
                tot = sum(Fraction(v) for v in vals.values())
                if abs(tot - 1) > TOL_SUM:
                    bad.append(('history-sum', f'{desc}: probabilities sum to {float(tot)!r}', vals))
                for k, v in vals.items():
                    if not avail.get(k, True) and Fraction(v) != 0:
                        bad.append(('history-unavailable', f'{desc}: unavailable alternative {k} has probability {v!r}', vals))
            else:
                bad.append(('history-non-finite', f'{desc}: {vals}', None))
            if fn in last and fn != 'mev' and fn != 'mev_es':
                pn, pvals = last[fn]
                since = ev['after'][len(H['evals'][pn]['after']):]
                if since and all(o['op'].startswith('shift') for o in since):
                    for k in keys:
                        if finite(pvals.get(k)) and finite(vals.get(k)) and abs(Fraction(pvals[k]) - Fraction(vals[k])) > TOL_SUM:
                            bad.append(('history-shift', f'{desc}: P={vals[k]!r} but it was {pvals[k]!r} before the same '
                                        f'constant was added to all utilities (alternative {k})', None))
            last[fn] = (n, vals)
    return bad if any_row else None


def gen_value_cases(rng, n):
    cases = []
    plan = [(f, True, False) for f in ('logit', 'mev', 'nested', 'nested_mu', 'cnl', 'cnlmu', 'mev_es')]
    plan += [(f, False, True) for f in ('logit', 'logit', 'mev', 'mev_es', 'mev_es', 'nested', 'nested_mu', 'cnl', 'cnlmu')]
    plan += [('mev_es', False, False)] * 3
    # nest objects whose names collide (equal names / re-use of an object), nest parameters all different
    plan += [(f, False, False, m) for f in ('nested', 'nested_mu', 'cnl', 'cnlmu') for m in ('collision', 'equal')]
    for fam in ('nested', 'nested', 'nested_mu', 'cnl', 'cnlmu', 'logit', 'mev', 'mev_es'):
        cases.append(gen_history_case(rng, fam, syntax='objects' if fam in ('nested', 'nested_mu', 'cnl', 'cnlmu') else None))
    for _ in range(max(0, n // 10)):
        cases.append(gen_history_case(rng, rng.choice(['nested', 'nested', 'nested_mu', 'cnl', 'cnlmu', 'logit', 'mev', 'mev_es'])))
    for it in range(n + len(plan)):
        const_av, python, name_mode = False, False, None
        if it < len(plan):
            fam, const_av, python = plan[it][:3]
            name_mode = plan[it][3] if len(plan[it]) > 3 else None
        else:
            fam = rng.choice(['logit', 'mev', 'mev_es', 'nested', 'nested', 'nested_mu', 'cnl', 'cnl', 'cnlmu',
                              'ordered_logit', 'ordered_probit'])
            python = not fam.startswith('ordered') and rng.random() < 0.2
        if fam in ('ordered_logit', 'ordered_probit'):
            c = g_ordered_case(rng, fam)
            while len(c['vals']) < 2 or len(set(c['vals'])) != len(c['vals']) or 'e' not in c['tau'] \
                    or c['tau']['e'][0] != 'Beta':
                c = g_ordered_case(rng, fam)
            c['family'] = fam
            tb = set_betas(rng, c)
            tau = c['tau']['e'][1]
            for k in c['vals'][1:-1]:
                tb[f'{tau}_diff_{k}'] = rng.choice([0, 0.25, 0.5, 1, 2])
            c['betas'] = tb
            c['rows'] = gen_rows(rng, c, 3)
            c['calls'] = [{'name': 'P', 'fn': fam, 'x': c['x'], 'vals': c['vals'], 'tau': c['tau'], 'trees': True}]
            cases.append(c)
            continue
        if fam in ('logit', 'mev'):
            c = g_logit_case(rng, 'mev' if fam == 'mev' else 'logit')
            while len(c['util']) < 2 or (fam == 'mev' and len(c['log_gi']) != len(c['util'])):
                c = g_logit_case(rng, 'mev' if fam == 'mev' else 'logit')
        elif fam in ('nested', 'nested_mu'):
            c = value_case_nested(rng, fam == 'nested_mu')
        elif fam == 'mev_es':
            c = value_case_es(rng)
        else:
            c = value_case_cnl(rng, fam == 'cnlmu')
        c['family'] = fam
        if python:
            make_python_case(rng, c)
        c.pop('syntaxes', None)
        c['choice'] = None
        if const_av:
            c['av'] = g_const_av(rng, [k for k, _ in c['util']])
        syn = rng.choice(['legacy', 'objects'])
        force = None
        if name_mode:
            syn = 'objects'
            while len(c['nests']) < 2:
                c = value_case_nested(rng, fam == 'nested_mu') if fam.startswith('nested') else value_case_cnl(rng, fam == 'cnlmu')
                c['family'] = fam
                c['choice'] = None
            vals = rng.sample([1.25, 1.5, 1.75, 2.0, 2.5, 3.0, 4.0], len(c['nests']))
            force = {}
            for j, nst in enumerate(c['nests']):
                nst[0] = {'n': vals[j]} if rng.random() < 0.5 else {'e': ['Beta', f'MU{j + 1}', vals[j], 0]}
                force[f'MU{j + 1}'] = vals[j]
            add_names(rng, c, name_mode)
        elif syn == 'objects' and 'nests' in c and rng.random() < 0.3:
            add_names(rng, c)
        c['betas'] = set_betas(rng, c, force=force)
        c['rows'] = [{}] if python else gen_rows(rng, c, 3)
        c['shift'] = rng.choice([-3, -1.5, 0.5, 1, 2.25, 5])
        calls = [{'name': 'AV', 'fn': 'AV'}, {'name': 'V', 'fn': 'V'}]
        if fam == 'mev_es':
            alts = [k for k, _ in c['util']]
            calls.append({'name': 'ES', 'fn': 'es_dist', 'order': es_orders(rng, alts), 'trees': True})
            cst = g_correction(rng, alts, const=rng.choice([{'n': 1.5}, {'n': 0}, {'e': ['Num', -0.75]}]))
            calls.append({'name': 'ESconst', 'fn': 'es_dist', 'order': es_orders(rng, alts), 'correction': cst})
            calls.append({'name': 'Pmev', 'fn': 'mev'})
            if python:
                calls.append({'name': 'ESpy', 'fn': 'es_dist', 'order': es_orders(rng, alts), 'python': True})
        else:
            pf, lf = FAMILY_FN[fam]
            calls += [{'name': 'P', 'fn': pf, 'trees': True, 'syntax': syn}, {'name': 'logP', 'fn': lf, 'syntax': syn}]
            if fam != 'mev':
                calls.append({'name': 'Ps', 'fn': pf, 'shift': c['shift'], 'syntax': syn})
            if python:
                calls += [{'name': 'Ppy', 'fn': pf, 'syntax': syn, 'python': True},
                          {'name': 'logPpy', 'fn': lf, 'syntax': syn, 'python': True}]
                if fam != 'mev':
                    calls.append({'name': 'Pspy', 'fn': pf, 'shift': c['shift'], 'syntax': syn, 'python': True})
        c['calls'] = calls
        cases.append(c)
    return cases


def run_value_cases(ctx, cases):
    chunks = [cases[i::16] for i in range(16)]
    chunks = [ch for ch in chunks if ch]
    outs = ctx.impl_parallel('c05_values.py', chunks)
    results = [None] * len(cases)
    for ci, ch in enumerate(chunks):
        for j, r in enumerate(outs[ci]):
            results[ci + 16 * j] = normalise_result(ch[j], r)
    return results


def env_of(c, r):
    return {'beta': c['betas'], 'var': c['rows'][r]}


def stream_prob_values(ctx, n_quick=110, n_thorough=1500):
    st = ctx.stream('prob_values', 'logit / MEV with user ln G_i / MEV with endogenous-sampling correction (whole distribution = one call per '
                    'alternative and per function with the SAME dictionaries, several call orders; the dictionaries must '
                    'come back unmodified; equal corrections = mev) / nested / nested+mu / cnl / cnl+mu / ordered logit '
                    '/ ordered probit on generated (V, av, nests, mu, Beta values) and 3 random rows each; engine '
                    '(get_value_c) probabilities of ALL alternatives: sum in [1 +- 1e-9], each in [0,1], exactly 0 when '
                    'unavailable (also when the availabilities are plain Python numbers), exp(logP) = P, P(V+c) = P(V) (1e-9); plus engine value vs proved interval enclosure '
                    'of evalX of the same tree (lib/values.py) on the first row; variable-free variants are also evaluated by the '
                    'pure-Python evaluator get_value() (numeric availabilities with zeros, every alternative chosen in turn): '
                    'same oracles + agreement with the engine; HISTORIES: the same nests object / util / availability dicts '
                    're-used over several evaluations with the dicts replaced or updated in place in between (uniform '
                    'shift, one utility, one availability): each evaluation = the one on freshly built objects, is a '
                    'distribution, and does not move under a uniform shift; '
                    'same oracles + agreement with the engine; non-trivial = row with >= 2 '
                    'alternatives of which >= 1 available')
    rng = ctx.sub_rng('prob_values')
    cases = [d['case'] for p, d in load_corpus('C05') if d.get('stream') == 'prob_values']
    cases += gen_value_cases(rng, ctx.n(n_quick, n_thorough))
    results = run_value_cases(ctx, cases)
    vcases, vmeta = [], []
    skipped_rows = 0
    for ci, (c, res) in enumerate(zip(cases, results)):
        if 'exc' in res:
            st.record({'family': c['family'], 'exc': res['exc']}, nontrivial=False)
            ctx.violation(f'C05/prob_values/{c["family"]}/harness', 'the case could not be evaluated', c, None, res)
            continue
        for r in range(len(c['rows'])):
            bad = case_oracles(c, res, r)
            if bad is None:
                skipped_rows += 1
                st.record({'case': ci, 'row': r, 'skipped': 'no available alternative'}, nontrivial=False)
                continue
            st.record({'family': c['family'], 'util': c.get('util'), 'av': c.get('av'), 'nests': c.get('nests'),
                       'mu': c.get('mu'), 'row': c['rows'][r], 'betas': c['betas'], 'vals': c.get('vals')},
                      nontrivial=True)
            for kind, what, detail in bad:
                ctx.violation(f'C05/prob_values/{c["family"]}/{kind}', what,
                              {'case': c, 'row_index': r, 'row': c['rows'][r]},
                              'a probability distribution over the available alternatives', detail,
                              how='PYTHONPATH=/repo/src /venv/bin/python /verif/lib/impl/c05_values.py < [case]')
        # enclosure check on row 0
        P = res.get('P', {})
        if 'trees' in P and ci % 3 == 0:
            for k, tree in P['trees'].items():
                v = P['alts'].get(k)
                if isinstance(v, list):
                    vcases.append({'expr': tree, 'env': env_of(c, 0), 'observed': v[0] if finite(v[0]) else 'error'})
                    vmeta.append((ci, k))
    st.extra['rows_without_available_alternative'] = skipped_rows
    if vcases:
        try:
            from values import check_values
            verdicts = check_values(ctx, 'c05pv', vcases, relbits=-30, batch=20, phi='PhiI_none')
        except Exception as ex:  # noqa
            verdicts = None
            st.extra['enclosure_check'] = f'not run: {type(ex).__name__}: {str(ex)[:300]}'
        if verdicts is not None:
            cnt = {'agree': 0, 'differ': 0, 'undecided': 0}
            for (ci, k), (v, info) in zip(vmeta, verdicts):
                cnt[v] += 1
                if v == 'differ':
                    st.disagree({'case': cases[ci], 'alternative': k, 'row': cases[ci]['rows'][0]},
                                info, 'engine value outside the enclosure of evalX')
            st.extra['enclosure_check'] = cnt
    if st.disagreements:
        ctx.stream_broken('prob_values', f'{len(st.disagreements)} engine values outside the proved enclosure, first: '
                          + json.dumps(st.disagreements[0], default=str)[:1500])
    return cases, results


KIND_FAMILY = {'loglogit': 'logit', 'logit': 'logit', 'logmev': 'mev', 'mev': 'mev',
               'logmev_es': 'mev_es', 'mev_es': 'mev_es',
               'lognested': 'nested', 'nested': 'nested', 'mev_nested': 'nested', 'gen_nested': 'nested',
               'lognested_mev_mu': 'nested_mu', 'nested_mev_mu': 'nested_mu', 'mev_nested_mu': 'nested_mu',
               'logcnl': 'cnl', 'cnl': 'cnl', 'mev_cnl': 'cnl', 'logcnlmu': 'cnlmu', 'cnlmu': 'cnlmu',
               'mev_cnl_mu': 'cnlmu', 'ordered_logit': 'ordered_logit', 'ordered_probit': 'ordered_probit'}


def cnl_alphas_positive(c):
    """cross-nested case inside the quantifier of the property: every listed alternative has a positive alpha"""
    pos, members = set(), set()
    for p, al in c.get('nests') or []:
        for k, a in al:
            members.add(k)
            if not ('n' in a and float(a['n']) == 0):
                pos.add(k)
    return members <= pos


def value_case_from_build(rng, bc, rows=5):
    """turn a (disagreeing) case of the structural stream into a case of the value stream"""
    import copy
    c = copy.deepcopy(bc)
    fam = KIND_FAMILY[c['kind']]
    if fam in ('cnl', 'cnlmu') and not cnl_alphas_positive(c):
        return None
    if c.get('fault'):
        return None
    c['family'] = fam
    c.pop('fault', None)
    if fam.startswith('ordered'):
        if 'e' not in c['tau'] or c['tau']['e'][0] != 'Beta' or len(c['vals']) < 2 or len(set(c['vals'])) != len(c['vals']):
            return None
        tb = set_betas(rng, c)
        tau = c['tau']['e'][1]
        for k in c['vals'][1:-1]:
            tb[f'{tau}_diff_{k}'] = rng.choice([0, 0.25, 0.5, 1, 2])
        c['betas'] = tb
        c['rows'] = gen_rows(rng, c, rows)
        c['calls'] = [{'name': 'P', 'fn': fam, 'x': c['x'], 'vals': c['vals'], 'tau': c['tau']}]
        return c
    if len(c.get('util', [])) < 1:
        return None
    syn = (c.get('syntaxes') or ['legacy'])[0]
    c.pop('syntaxes', None)
    c['choice'] = None
    c['betas'] = set_betas(rng, c)
    c['rows'] = gen_rows(rng, c, rows)
    c['shift'] = rng.choice([-3, -1.5, 0.5, 1, 2.25, 5])
    if fam == 'mev_es':
        if len(c.get('correction') or []) != len(c['util']) or len(c.get('log_gi') or []) != len(c['util']):
            return None
        c['calls'] = [{'name': 'AV', 'fn': 'AV'}, {'name': 'V', 'fn': 'V'},
                      {'name': 'ES', 'fn': 'es_dist', 'order': es_orders(rng, [k for k, _ in c['util']])}]
        return c
    pf, lf = FAMILY_FN[fam]
    calls = [{'name': 'AV', 'fn': 'AV'}, {'name': 'V', 'fn': 'V'},
             {'name': 'P', 'fn': pf, 'syntax': syn}, {'name': 'logP', 'fn': lf, 'syntax': syn}]
    if fam != 'mev':
        calls.append({'name': 'Ps', 'fn': pf, 'shift': c['shift'], 'syntax': syn})
    c['calls'] = calls
    return c


def apply_c05_oracles(ctx, cases, results, st=None, tag='prob_values'):
    found = 0
    for c, res in zip(cases, results):
        if 'exc' in res:
            continue
        for r in range(len(c['rows'])):
            bad = case_oracles(c, res, r)
            if st is not None:
                st.record({'search': True, 'family': c['family'], 'row': c['rows'][r], 'util': c.get('util')},
                          nontrivial=bad is not None)
            for kind, what, detail in bad or []:
                if kind == 'exception':
                    continue        # the builder refuses this input: not a probability statement
                found += 1
                ctx.violation(f'C05/{tag}/{c["family"]}/{kind}', what,
                              {'case': c, 'row_index': r, 'row': c['rows'][r]},
                              'a probability distribution over the available alternatives', detail,
                              how='PYTHONPATH=/repo/src /venv/bin/python /verif/lib/impl/c05_values.py < [case]')
    return found


def search_failing_input(ctx):
    """something broke (a tie or a stream): evaluate the property oracle on the disagreeing cases of the
    structural stream first (the fresh random inputs were already evaluated by stream prob_values)"""
    st = ctx.streams.get('build')
    if st is None or not st.disagreements:
        return
    rng = ctx.sub_rng('search')
    cases = []
    for d in st.disagreements[:40]:
        bc = d['case']
        if bc.get('kind') not in KIND_FAMILY:
            continue
        for _ in range(2):
            vc = value_case_from_build(rng, bc)
            if vc is not None:
                cases.append(vc)
    if not cases:
        return
    results = run_value_cases(ctx, cases)
    pv = ctx.stream('prob_values', '')
    n = apply_c05_oracles(ctx, cases, results, st=pv, tag='prob_values')
    ctx.notes['failing_input_search'] = {'cases': len(cases), 'oracle_failures': n}


def replay_case(ctx, w):
    """re-evaluate one recorded witness {'case', 'row_index'}; returns (still_fails, details)"""
    wit = w.get('witness') or {}
    if isinstance(wit.get('build_case'), dict):
        bc = wit['build_case']
        r = ctx.impl('c05_build.py', [bc])[0]
        bad = refusal_failures(bc, r)
        return bool(bad), [(syn, f'accepts nest {nest}') for syn, nest, _ in bad]
    c = wit.get('case')
    if not isinstance(c, dict) or 'calls' not in c:
        return None, 'this file names an obligation / a stream, not an input: re-run ./check'
    res = ctx.impl('c05_values.py', [c])[0]
    r = wit.get('row_index', 0)
    if 'exc' in res:
        return True, res
    if c.get('pair_kind') == 'history':
        bad = oracle_history(c, res, r, distribution=False)
    elif c.get('pair_kind'):
        from props import C06
        bad = C06.oracle_gen(c, res, r) if c['pair_kind'] == 'gen' else C06.oracle_pair(c, res, r)
    else:
        bad = case_oracles(c, normalise_result(c, res), r)
    bad = [b for b in (bad or [])]
    return bool(bad), [(k, what) for k, what, _ in bad]


def run(ctx):
    ctx.assumptions += ASSUME
    ctx.trusted += TRUSTED
    ctx.build()
    stream_build(ctx)
    stream_prob_values(ctx)
    if ctx.broken and not ctx.violations:
        search_failing_input(ctx)


def gen_all(ctx):
    pass


def replay(ctx, path):
    w = json.load(open(path))
    still, detail = replay_case(ctx, w)
    if still is None:
        print('replay: ' + detail)
        return 2
    print(json.dumps({'still_fails': still, 'detail': detail}, default=str)[:3000])
    return 1 if still else 0
