"""C01 -- every expression evaluates to its mathematical value on both evaluation paths."""
import json

import py2v
from py2v import External, Untranslatable, simple

from bridge import heads_in, tree_depth, tree_size
from gen_expr import count_shared, gen_case, strip_sids
from values import check_values

ASSUME = [
    'the compiled engine (cythonbiogeme, C++) is external: its operator semantics are modelled by evalX '
    '(rocq/Model/EvalX.v) and tied by differential runs only',
    'IEEE rounding inside the engine / numpy is covered by the relative tolerance 2^-30 of the membership test, not modelled',
    'normal CDF: Phi is DEFINED as Phi_def x = 1/2 + RInt npdf 0 x, npdf t = exp(-t^2/2)/sqrt(2 pi) (rocq/Model/PhiDef.v, Coquelicot '
    'Riemann integral); the interval extension PhiI_series (rocq/Model/PhiI.v: Taylor series with geometric tail bound) is PROVED to '
    'enclose it (theorem T01f_PhiI_series_correct, rocq/Proofs/PhiP.v), which discharges the hypothesis PhiI_correct of the soundness '
    'theorem (T01f_evalI_sound_concrete); what remains assumed is only that the engine/scipy "normal CDF" means this function '
    '(cross-checked against scipy on a grid); 0 <= Phi_def <= 1 is not proved (no Gaussian integral), so the enclosures are not clipped to [0,1]',
]


PYEVAL = [
    # (file, class, Gallina name, parameters)
    ('binary_expressions.py', 'Plus', 'py_Plus', 'lr'), ('binary_expressions.py', 'Minus', 'py_Minus', 'lr'),
    ('binary_expressions.py', 'Times', 'py_Times', 'lr'), ('binary_expressions.py', 'Divide', 'py_Divide', 'lr'),
    ('binary_expressions.py', 'Power', 'py_Power', 'lr'), ('binary_expressions.py', 'bioMin', 'py_bioMin', 'lr'),
    ('binary_expressions.py', 'bioMax', 'py_bioMax', 'lr'), ('binary_expressions.py', 'And', 'py_And', 'lr'),
    ('binary_expressions.py', 'Or', 'py_Or', 'lr'),
    ('comparison_expressions.py', 'Equal', 'py_Equal', 'lr'), ('comparison_expressions.py', 'NotEqual', 'py_NotEqual', 'lr'),
    ('comparison_expressions.py', 'LessOrEqual', 'py_LessOrEqual', 'lr'), ('comparison_expressions.py', 'GreaterOrEqual', 'py_GreaterOrEqual', 'lr'),
    ('comparison_expressions.py', 'Less', 'py_Less', 'lr'), ('comparison_expressions.py', 'Greater', 'py_Greater', 'lr'),
    ('unary_expressions.py', 'UnaryMinus', 'py_UnaryMinus', 'c'), ('unary_expressions.py', 'exp', 'py_exp', 'c'),
    ('unary_expressions.py', 'sin', 'py_sin', 'c'), ('unary_expressions.py', 'cos', 'py_cos', 'c'),
    ('unary_expressions.py', 'log', 'py_log', 'c'), ('unary_expressions.py', 'logzero', 'py_logzero', 'c'),
    ('nary_expressions.py', 'bioMultSum', 'py_bioMultSum', 'kids'), ('nary_expressions.py', 'ConditionalSum', 'py_ConditionalSum', 'terms'),
]


def gen_all(ctx):
    """tie A for the pure-Python evaluator: every simple `get_value` method is translated to a real function of the
    values of its children (self.left.get_value() -> l, ...).  Proofs/PyEvalP.v proves each equal to the semantics evalX uses."""
    ident = External(lambda tr, node, args: args[0])
    ext = {
        '.get_value()': ident,
        'np.exp': simple('exp', ['R'], 'R'), 'np.log': simple('ln', ['R'], 'R'),
        'np.sin': simple('sin', ['R'], 'R'), 'np.cos': simple('cos', ['R'], 'R'),
        '.condition': External(lambda tr, node, args: (f'(fst {args[0][0]})', 'R')),
        '.term': External(lambda tr, node, args: (f'(snd {args[0][0]})', 'R')),
    }
    attrs = {'self.left': ('l', 'R'), 'self.right': ('r', 'R'), 'self.child': ('c', 'R'),
             'self.list_of_terms': ('terms', 'list (R * R)')}
    ext2 = dict(ext)
    ext2['self.get_children'] = External(lambda tr, node, args: ('kids', 'list R'))
    out = ['From Coq Require Import Reals List.', 'From BV Require Import Model.PyBase Model.Stats.', 'Import ListNotations.',
           'Open Scope R_scope.']
    cache = {}
    for fn, cls, name, params in PYEVAL:
        if fn not in cache:
            cache[fn] = py2v.load('src/biogeme/expressions/' + fn, externals=ext2, attrs=attrs)
        tr = cache[fn]
        pre = {'lr': {'l': 'R', 'r': 'R'}, 'c': {'c': 'R'}, 'kids': {'kids': 'list R'}, 'terms': {'terms': 'list (R * R)'}}[params]
        tr.attrs = {k: v for k, v in attrs.items()}
        d = tr.function(f'{cls}.get_value', {}, 'R', coqname=name, pre_env=pre)
        # the parameters are the children's values, not Python arguments
        head = ' '.join(f'({k} : {t})' for k, t in pre.items())
        d = d.replace(f'Definition {name}  : R', f'Definition {name} {head} : R')
        out.append(d)
    ctx.gen('PyEval', '\n'.join(out) + '\n')
    try:
        gen_loglogit(ctx)        # also for setup.sh (lib/genall.py); run() reports a template mismatch as its own broken tie
    except Untranslatable:
        pass


LOGLOGIT_TEMPLATE = [
    "choice = int(self.choice.get_value())",
    "if choice not in self.util:\n    error_msg = <msg>\n    raise BiogemeError(error_msg)",
    "if choice not in self.av:\n    error_msg = <msg>\n    raise BiogemeError(error_msg)",
    "if self.av[choice].get_value() == 0.0:\n    return -np.inf",
    "v_chosen = self.util[choice].get_value()",
    "denom = 0.0",
    "for i, V in self.util.items():\n    if self.av[i].get_value() != 0.0:\n        denom += np.exp(V.get_value() - v_chosen)",
    "return -np.log(denom)",
]

LOGLOGIT_GALLINA = """
(* from src/biogeme/expressions/logit_expressions.py LogLogit.get_value: the method matched the statement-by-statement
   template of lib/props/C01.py (LOGLOGIT_TEMPLATE) on this run; this is its transcription.  Dictionaries are parallel lists
   (keys, values); None = the method raises (BiogemeError for an unknown chosen alternative, KeyError for a utility without
   availability). *)
Fixpoint py_logit_loop (v_chosen : R) (ak : list Z) (avs : list R) (uk : list Z) (us : list R) (denom : R) : option R :=
  match uk, us with
  | i :: uk', V :: us' =>
      match assoc_Z i ak avs with
      | Some a => py_logit_loop v_chosen ak avs uk' us' (if Rnz a then denom + exp (V - v_chosen) else denom)
      | None => None
      end
  | _, _ => Some denom
  end.

Definition py_LogLogit (choice : Z) (uk : list Z) (us : list R) (ak : list Z) (avs : list R) : option xval :=
  match assoc_Z choice uk us with
  | None => None
  | Some v_chosen =>
      match assoc_Z choice ak avs with
      | None => None
      | Some a_chosen =>
          if Rnz a_chosen then
            match py_logit_loop v_chosen ak avs uk us 0 with
            | Some denom => Some (XR (- ln denom))
            | None => None
            end
          else Some XmInf
      end
  end.
"""


def gen_loglogit(ctx):
    """tie A (template) for LogLogit.get_value: the method must consist of exactly the statements of LOGLOGIT_TEMPLATE (error
    messages are free text); then its fixed transcription is emitted.  Any other shape breaks the tie."""
    import ast
    from common import REPO
    src = (REPO / 'src/biogeme/expressions/logit_expressions.py').read_text()
    fn = None
    for c in ast.parse(src).body:
        if isinstance(c, ast.ClassDef) and c.name == 'LogLogit':
            for f in c.body:
                if isinstance(f, ast.FunctionDef) and f.name == 'get_value':
                    fn = f
    if fn is None:
        raise Untranslatable('LogLogit.get_value not found')
    body = [st for st in fn.body if not (isinstance(st, ast.Expr) and isinstance(getattr(st, 'value', None), ast.Constant))]
    got = []
    for st in body:
        if isinstance(st, ast.If) and len(st.body) == 2 and isinstance(st.body[0], ast.Assign) and isinstance(st.body[1], ast.Raise):
            # the message of a refusal is free text
            st.body[0].value = ast.Name(id='<msg>')
        got.append(ast.unparse(st))
    if got != LOGLOGIT_TEMPLATE:
        diff = [f'statement {i}: {g!r} (expected {e!r})' for i, (g, e) in enumerate(zip(got, LOGLOGIT_TEMPLATE)) if g != e]
        raise Untranslatable('LogLogit.get_value does not match its template: ' + ('; '.join(diff) or f'{len(got)} statements instead of {len(LOGLOGIT_TEMPLATE)}'))
    ctx.gen('PyLogit', 'From Coq Require Import Reals List ZArith.\nFrom BV Require Import Model.PyBase Model.Expr Model.EvalX.\nImport ListNotations.\nOpen Scope R_scope.\n'
            + LOGLOGIT_GALLINA)


def chunks(l, n):
    return [l[i:i + n] for i in range(0, len(l), n)]


def stream_values(ctx):
    st_e = ctx.stream('val_engine', 'typed random DAGs over all node kinds (depth<=5, sharing p=0.15, scrambled parameter '
                      'names, mixed free/fixed), 3 dyadic rows each; engine value per row vs proved enclosure of evalX; '
                      'non-trivial = tree with >= 4 nodes whose verdict is decided; distinct by (tree, row)')
    st_p = ctx.stream('val_python', 'variable-free trees; pure-Python get_value vs proved enclosure of evalX and vs the engine; '
                      'non-trivial = >= 4 nodes and decided')
    rng = ctx.sub_rng('values')
    n_e, n_p = ctx.n(260, 6000), ctx.n(140, 3000)
    corpus = load_corpus()
    cases = [c for c in corpus if c['rows']] + [gen_case(rng, variables=True, max_depth=rng.choice([3, 4, 5])) for _ in range(n_e)]
    pcases = [c for c in corpus if not c['rows']] + [gen_case(rng, variables=False, max_depth=rng.choice([2, 3, 4, 5])) for _ in range(n_p)]
    res = ctx.impl_cases('c01_values.py', cases, {'python': False})
    pres = ctx.impl_cases('c01_values.py', pcases, {'python': True})

    cov = {}
    vcases, meta = [], []
    for c, r in zip(cases, res):
        heads_in(c['tree'], cov)
        plain = strip_sids(c['tree'])
        if 'crash' in r:
            st_e.record({'tree': plain, 'crash': True})
            ctx.violation(f'C01/engine-crash/{root_kind(c["tree"])}', 'the process died while evaluating a well-formed formula',
                          {'tree': c['tree'], 'betas': c['betas'], 'rows': c['rows']}, 'a value per row', r['crash'])
            continue
        if 'build_exc' in r:
            ctx.violation('C01/build/exception', 'a well-formed formula could not be built', c, 'an Expression', r['build_exc'])
            continue
        if strip_sids(r.get('tree_back') or {'h': ['none'], 'k': []}) != plain:
            st_e.disagree(c, 'bridge round trip differs', r.get('tree_back'))
            continue
        benv = {k: v['value'] for k, v in c['betas'].items()}
        if 'engine_exc' in r:
            # the model must say "outside the domain" for at least one row
            for row in c['rows']:
                vcases.append({'expr': plain, 'env': {'beta': benv, 'var': row}, 'observed': 'error'})
                meta.append(('e', c, row, r['engine_exc'], 'any-row'))
            continue
        for row, v in zip(c['rows'], r['engine']):
            vcases.append({'expr': plain, 'env': {'beta': benv, 'var': row}, 'observed': v})
            meta.append(('e', c, row, v, None))
    for c, r in zip(pcases, pres):
        heads_in(c['tree'], cov)
        plain = strip_sids(c['tree'])
        if 'build_exc' in r:
            ctx.violation('C01/build/exception', 'a well-formed formula could not be built', c, 'an Expression', r['build_exc'])
            continue
        benv = {k: v['value'] for k, v in c['betas'].items()}
        if 'engine' in r:
            vcases.append({'expr': plain, 'env': {'beta': benv}, 'observed': r['engine'][0]})
            meta.append(('e', c, None, r['engine'][0], None))
        elif 'engine_exc' in r:
            vcases.append({'expr': plain, 'env': {'beta': benv}, 'observed': 'error'})
            meta.append(('e', c, None, r['engine_exc'], None))
        if 'python' in r:
            vcases.append({'expr': plain, 'env': {'beta': benv}, 'observed': r['python']})
            meta.append(('p', c, None, r['python'], None))
        # where the Python evaluator refuses (python_exc) nothing is claimed ("where it accepts")

    verdicts = check_values(ctx, 'c01', vcases, relbits=-30)
    # classification of disagreements through bioNormalCdf: do they match the KNOWN engine defect
    # (1 + (1 - Phi x) for x >= 6)?  Re-judge them against the defect model; an agreement there is the known finding.
    ncdf = [i for i, (v, _) in enumerate(verdicts) if v == 'differ' and meta[i][0] == 'e' and 'NormalCdf' in json.dumps(vcases[i]['expr'])]
    known_ncdf = set()
    if ncdf:
        again = check_values(ctx, 'c01defect', [vcases[i] for i in ncdf], relbits=-30, phi='PhiI_engine_defect')
        known_ncdf = {i for i, (v, _) in zip(ncdf, again) if v == 'agree'}
    st_e.extra['normalcdf_disagreements'] = len(ncdf)
    st_e.extra['normalcdf_disagreements_matching_known_engine_defect'] = len(known_ncdf)
    und = {'e': 0, 'p': 0}
    anyrow = {}
    for idx, ((kind, c, row, obs, flag), (v, info)) in enumerate(zip(meta, verdicts)):
        st = st_e if kind == 'e' else st_p
        if idx in known_ncdf:
            c = dict(c, key='C01/known/normalcdf-upper-tail-above-one')
        case = {'tree': strip_sids(c['tree']), 'betas': {k: b['value'] for k, b in c['betas'].items()}, 'row': row}
        if flag == 'any-row':
            key = id(c)
            anyrow.setdefault(key, [c, obs, []])[2].append(v == 'agree')
            continue
        if v == 'undecided':
            und[kind] += 1
            st.evaluations += 1
            continue
        st.record(case, nontrivial=tree_size(c['tree']) >= 4)
        if v == 'differ':
            path = 'compiled engine' if kind == 'e' else 'pure-Python evaluator'
            if ctx.violation(vkey(c, f'C01/value/{"engine" if kind == "e" else "python"}/{root_kind(c["tree"])}'),
                             c.get('what') or f'the {path} returns a number outside the enclosure of the mathematical value',
                             {'tree': c['tree'], 'betas': c['betas'], 'row': row}, info, obs,
                             how='build the tree with lib/impl/bio_build.py and evaluate get_value_c / get_value'):
                st.disagree(case, info, obs)
    for key, (c, exc, oks) in anyrow.items():
        st_e.record({'tree': strip_sids(c['tree']), 'error': exc}, nontrivial=True)
        if not any(oks):
            st_e.disagree({'tree': strip_sids(c['tree'])}, 'model: inside the domain on every row', exc)
            ctx.violation(f'C01/value/engine-error/{root_kind(c["tree"])}',
                          'the engine fails on a formula that is inside the regular domain on every row',
                          {'tree': c['tree'], 'betas': c['betas'], 'rows': c['rows']}, 'a value per row', exc)
    st_e.extra.update({'undecided': und['e'], 'operator_coverage': cov,
                       'max_depth': max(tree_depth(c['tree']) for c in cases),
                       'trees_with_sharing': sum(1 for c in cases + pcases if count_shared(c['tree']) > 0)})
    st_p.extra.update({'undecided': und['p']})
    for st in (st_e, st_p):
        if st.disagreements:
            ctx.stream_broken(st.name, f'{len(st.disagreements)} disagreements; first: {json.dumps(st.disagreements[0], default=str)[:600]}')


def load_corpus():
    import glob
    out = []
    for f in sorted(glob.glob('/verif/corpus/C01/*.json')):
        c = json.load(open(f))
        if c.get('stream'):
            continue                 # witnesses of the history streams are loaded by those streams
        c['corpus'] = f
        out.append(c)
    return out


def load_stream_corpus(stream):
    import glob
    out = []
    for f in sorted(glob.glob('/verif/corpus/C01/*.json')):
        c = json.load(open(f))
        if c.get('stream') == stream:
            out.append(c['case'])
    return out


def vkey(c, default):
    return c.get('key') or default


def root_kind(t):
    h = t['h']
    return h[1] if h[0] in ('Bin', 'Un') else h[0]


def stream_sig(ctx):
    from sigstream import run_sig_streams
    st_sig = ctx.stream('sig', 'typed random DAGs (1-3 formulas side by side, sharing p=0.25): get_signature() bytes parsed into the '
                        'fields the engine reads vs Model/Sig.v signature; decode(signature) = resolve(erase) evaluated on the same '
                        'case; non-trivial = at least 4 lines; distinct by case')
    st_ids = ctx.stream('ids', 'IdManager tables (names per class, global indices) vs Model/IdMgr.v prepare; a malformed sub-stream '
                        'plants a name used for two kinds of element; non-trivial = at least 2 parameters')
    run_sig_streams(ctx, st_sig, st_ids, ctx.n(150, 3000), ctx.n(20, 300))


def stream_history(ctx):
    """Sharing / side-by-side over HISTORIES: a sub-formula E shared by parents P and Q; P keeps its ids
    while E and Q are evaluated (each preparing its own ids) in between evaluations of P."""
    from gen_expr import Gen
    st = ctx.stream('history_shared', 'E shared by two parents P = E + A_first*x1 (a parameter sorting before those of E) and Q = E*z_last; '
                    'script P,E,P,Q,P with persistent ids on P; every value vs the enclosure of its own formula; non-trivial = E has a parameter')
    rng = ctx.sub_rng('history')
    cases = []
    for _ in range(ctx.n(50, 800)):
        g = Gen(rng, variables=True, max_depth=rng.choice([2, 3]), share_p=0.1, heads={'exclude': ['NormalCdf']})
        E = g.real(g.max_depth)
        if not E['k']:
            E = g.node(['Bin', 'Times'], [g.beta() or g.num(), g.var()], 'real')
        if 'sid' not in E:
            g.sid += 1
            E['sid'] = g.sid
        betas = dict(g.betas)
        betas['A_first'] = {'value': 0.75, 'fixed': False, 'positive': True, 'lb': None, 'ub': None}
        betas['z_last'] = {'value': -1.25, 'fixed': False, 'positive': False, 'lb': None, 'ub': None}
        # in half of the cases the shared object sits two levels below the roots of P and Q (E*1 + 0), not directly under them
        Ed = E if rng.random() < 0.5 else {'h': ['Bin', 'Plus'], 'k': [{'h': ['Bin', 'Times'], 'k': [E, {'h': ['Num', 1, 0], 'k': []}]}, {'h': ['Num', 0, 0], 'k': []}]}
        P = {'h': ['Bin', 'Plus'], 'k': [Ed, {'h': ['Bin', 'Times'], 'k': [{'h': ['Beta', 'A_first', False], 'k': []}, {'h': ['Var', 'x1'], 'k': []}]}]}
        Q = {'h': ['Bin', 'Times'], 'k': [Ed, {'h': ['Beta', 'z_last', False], 'k': []}]}
        script = ['P', 'E', 'P', 'Q', 'P'] if rng.random() < 0.7 else ['P', 'Q', 'E', 'P']
        cases.append({'E': E, 'P': P, 'Q': Q, 'betas': betas, 'rows': g.rows(2), 'script': script})
    res = ctx.impl_cases('c01_history.py', cases, chunk=10)
    vc, meta = [], []
    for c, r in zip(cases, res):
        if 'crash' in r or 'build_exc' in r:
            ctx.violation('C01/history/exception', 'a history of evaluations of well-formed formulas failed', {'script': c['script'], 'E': strip_sids(c['E'])},
                          None, r.get('crash') or r.get('build_exc'))
            continue
        benv = {k: v['value'] for k, v in c['betas'].items()}
        st.record({'E': strip_sids(c['E']), 'script': c['script']}, nontrivial=bool(c['betas']) and len(c['betas']) > 2)
        for step, (who, vals) in enumerate(zip(c['script'], r['steps'])):
            tree = strip_sids(c[who])
            if not isinstance(vals, list):
                # the engine aborts the whole evaluation when ONE row is outside the domain: nothing is claimed
                # about such a step (the value streams judge domain errors row by row)
                st.extra['steps_outside_domain'] = st.extra.get('steps_outside_domain', 0) + 1
                break
            for row, v in zip(c['rows'], vals):
                vc.append({'expr': tree, 'env': {'beta': benv, 'var': row}, 'observed': v})
                meta.append((c, step, who))
    for (c, step, who), (v, info) in zip(meta, check_values(ctx, 'c01hist', vc, relbits=-30)):
        if v == 'differ':
            w = {'E': c['E'], 'P': c['P'], 'Q': c['Q'], 'betas': c['betas'], 'rows': c['rows'], 'script': c['script'], 'step': step}
            if ctx.violation(f'C01/history/{who}-step{step}', f'in the history {c["script"]} the value of {who} at step {step} is outside the '
                             'enclosure of its mathematical value (another evaluation in between changed it)', w, info, None):
                st.disagree({'script': c['script'], 'step': step, 'who': who, 'E': strip_sids(c['E'])}, info, None)
    if st.disagreements:
        ctx.stream_broken('history_shared', f'{len(st.disagreements)} disagreements; first: {json.dumps(st.disagreements[0], default=str)[:500]}')


MODEL_SCRIPTS = [
    [['new', 'Q'], ['new', 'P'], ['sim', 'Q', 0]],
    [['new', 'E'], ['new', 'P'], ['sim', 'E', 1], ['sim', 'P', 0], ['sim', 'E', 0]],
    [['new', 'P'], ['gvc', 'E', 1], ['sim', 'P', 0], ['gvc', 'Q', 0], ['sim', 'P', 1]],
    [['new', 'P'], ['new', 'Q'], ['sim', 'P', 0], ['sim', 'Q', 1], ['sim', 'P', 1], ['sim', 'Q', 0]],
    [['new', 'E'], ['sim', 'E', 0], ['new', 'P'], ['sim', 'P', 1], ['sim', 'E', 1], ['new', 'Q'], ['sim', 'E', 0], ['sim', 'Q', 1]],
    # the same formula object evaluated again and again with temporary identifiers: another dictionary, then none
    [['gvc', 'E', 1], ['gvc', 'E', None], ['gvc', 'E', 0], ['gvc', 'P', 1], ['gvc', 'P', None], ['gvc', 'E', 1]],
    [['gvc', 'P', None], ['gvc', 'P', 1], ['gvc', 'P', None], ['gvc', 'Q', 1], ['gvc', 'Q', 0]],
    # identifiers stored once (prepare), evaluations with prepare_ids=False, other formulas prepared / built in between
    [['prep', 'P'], ['gvp', 'P', 0], ['new', 'Q'], ['gvp', 'P', 1], ['sim', 'Q', 0], ['gvp', 'P', 0]],
    [['prep', 'P'], ['prep', 'Q'], ['gvp', 'P', 0], ['gvp', 'Q', 1], ['gvp', 'P', 1], ['prep', 'E'], ['gvp', 'Q', 0], ['gvp', 'E', 1]],
    [['prep', 'Q'], ['gvp', 'Q', 1], ['gvc', 'P', 0], ['gvp', 'Q', 0], ['new', 'P'], ['gvp', 'Q', 1]],
]
MODEL_SCRIPTS_ONE_ROW = [
    [['fn', 'P', 0], ['gvc', 'E', 1], ['fn', 'P', 1], ['new', 'Q'], ['fn', 'P', 0], ['sim', 'Q', 1]],
    [['new', 'P'], ['ll', 'P', 0], ['new', 'Q'], ['ll', 'P', 1], ['sim', 'Q', 0], ['ll', 'P', 0], ['ll', 'Q', 1]],
    [['fn', 'E', 0], ['new', 'P'], ['sim', 'P', 1], ['fn', 'E', 1], ['gvc', 'Q', 0], ['fn', 'E', 0]],
]


def random_model_script(rng):
    script, have = [], set()
    for _ in range(rng.choice([5, 6, 7, 8])):
        m = rng.choice(['E', 'P', 'Q'])
        if rng.random() < 0.35:
            script.append(['gvc', m, rng.choice([0, 1, None])])
            continue
        if m not in have:
            script.append(['new', m])
            have.add(m)
            if rng.random() < 0.5:
                continue
        script.append(['sim', m, rng.choice([0, 1])])
    return script


def stream_models(ctx):
    """Sharing over HISTORIES OF MODELS: one sub-formula object E inside the formulas of several BIOGEME objects (and evaluated
    separately in between); simulate / calculate_likelihood / a function created once must keep returning the mathematical value."""
    from gen_expr import Gen
    st = ctx.stream('history_models', 'one sub-formula object E shared by E, P = E + A_first*x1 (a parameter sorting first) and Q = E*z_last, '
                    'each the formula of its own BIOGEME object; scripts of: build a model, simulate(model, value set), separate '
                    'get_value_c with temporary identifiers, a function created once (create_function) and called again later, '
                    'calculate_likelihood; two distinct value sets; every value vs the enclosure of its own formula at that value set; '
                    'non-trivial = E has a free parameter and the script evaluates a model built before another one was built')
    rng = ctx.sub_rng('models')
    cases = load_stream_corpus('history_models')
    for i in range(ctx.n(40, 600)):
        g = Gen(rng, variables=True, max_depth=rng.choice([2, 3]), share_p=0.1, heads={'exclude': ['NormalCdf']})
        E = g.real(g.max_depth)
        if not [b for b, v in g.betas.items() if not v['fixed']]:
            nb = {'h': ['Beta', 'b_mid', False], 'k': []}
            g.betas['b_mid'] = {'value': 0.5, 'fixed': False, 'positive': False, 'lb': None, 'ub': None}
            E = g.node(['Bin', 'Plus'], [E, g.node(['Bin', 'Times'], [nb, g.var()], 'real')], 'real')
        if 'sid' not in E:
            g.sid += 1
            E['sid'] = g.sid
        betas = dict(g.betas)
        betas['A_first'] = {'value': 0.75, 'fixed': False, 'positive': True, 'lb': None, 'ub': None}
        betas['z_last'] = {'value': -1.25, 'fixed': False, 'positive': False, 'lb': None, 'ub': None}
        # in half of the cases the shared object sits two levels below the roots of P and Q (E*1 + 0), not directly under them
        Ed = E if rng.random() < 0.5 else {'h': ['Bin', 'Plus'], 'k': [{'h': ['Bin', 'Times'], 'k': [E, {'h': ['Num', 1, 0], 'k': []}]}, {'h': ['Num', 0, 0], 'k': []}]}
        P = {'h': ['Bin', 'Plus'], 'k': [Ed, {'h': ['Bin', 'Times'], 'k': [{'h': ['Beta', 'A_first', False], 'k': []}, {'h': ['Var', 'x1'], 'k': []}]}]}
        Q = {'h': ['Bin', 'Times'], 'k': [Ed, {'h': ['Beta', 'z_last', False], 'k': []}]}
        r = rng.random()
        if r < 0.25:
            script, nrows = rng.choice(MODEL_SCRIPTS_ONE_ROW), 1
        elif r < 0.65:
            script, nrows = rng.choice(MODEL_SCRIPTS), 2
        else:
            script, nrows = random_model_script(rng), 2
        v0 = {k: v['value'] for k, v in betas.items()}
        v1 = {k: (v['value'] if v['fixed'] else (v['value'] + 0.25 if v['value'] > 0 else v['value'] - 0.25)) for k, v in betas.items()}
        cases.append({'E': E, 'P': P, 'Q': Q, 'betas': betas, 'rows': g.rows(nrows), 'script': script, 'valsets': [v0, v1]})
    res = ctx.impl_cases('c01_models.py', cases, chunk=8)
    vc, meta = [], []
    for c, r in zip(cases, res):
        if 'crash' in r or 'build_exc' in r:
            ctx.violation(f'{ctx.pid}/models/exception', 'a history of models sharing a well-formed sub-formula failed',
                          {'script': c['script'], 'E': strip_sids(c['E'])}, None, r.get('crash') or r.get('build_exc'))
            continue
        news = [i for i, s_ in enumerate(c['script']) if s_[0] in ('new', 'prep')]
        late = any(s_[0] in ('sim', 'll', 'fn', 'gvp') and any(n > [j for j, t in enumerate(c['script']) if t[0] in ('new', 'fn', 'prep') and t[1] == s_[1]][0] and n < i
                                                       for n in news)
                   for i, s_ in enumerate(c['script']))
        st.record({'E': strip_sids(c['E']), 'script': c['script']}, nontrivial=late)
        for step, (s_, vals) in enumerate(zip(c['script'], r['steps'])):
            if s_[0] in ('new', 'prep'):
                if vals != 'ok':
                    st.extra['steps_outside_domain'] = st.extra.get('steps_outside_domain', 0) + 1
                    break
                continue
            if isinstance(vals, dict):
                vals = [vals['sum']]
            if not isinstance(vals, list):
                # the engine aborts the whole evaluation when one row is outside the domain: nothing is claimed here
                st.extra['steps_outside_domain'] = st.extra.get('steps_outside_domain', 0) + 1
                break
            tree = strip_sids(c[s_[1]])
            for row, v in zip(c['rows'], vals):
                vc.append({'expr': tree, 'env': {'beta': c['valsets'][s_[2] if s_[2] is not None else 0], 'var': row}, 'observed': v})
                meta.append((c, step, s_))
    for (c, step, s_), (v, info) in zip(meta, check_values(ctx, 'c01models', vc, relbits=-30)):
        if v == 'differ':
            w = {'E': c['E'], 'P': c['P'], 'Q': c['Q'], 'betas': c['betas'], 'rows': c['rows'], 'script': c['script'], 'valsets': c['valsets'],
                 'step': step}
            if ctx.violation(f'{ctx.pid}/models/{s_[0]}-{s_[1]}-step{step}', f'in the history {c["script"]} the value returned by step {step} {s_} is '
                             'outside the enclosure of the mathematical value of its formula at that value set (identifiers or values left by '
                             'another model / evaluation were used)', w, info, None):
                st.disagree({'script': c['script'], 'step': step, 'E': strip_sids(c['E'])}, info, None)
    if st.disagreements:
        ctx.stream_broken('history_models', f'{len(st.disagreements)} disagreements; first: {json.dumps(st.disagreements[0], default=str)[:500]}')


def stream_dsl(ctx):
    """The formula as the USER writes it: Python operators, with plain numbers / booleans on either side (reflected
    operators), must denote the tree the notation means: `2 - x` is Minus(2, x), `x ** 2` a constant power, `3 / x` a division."""
    st = ctx.stream('dsl', 'formulas written with Python operators (binary + - * / ** & | and comparisons, unary -, exp, log) with plain '
                    'int / float / bool literals on the left or the right; engine value vs enclosure of the INTENDED tree, and the built '
                    'tree vs the intended one; non-trivial = at least one reflected operator (literal on the left)')
    rng = ctx.sub_rng('dsl')

    def leaf():
        r = rng.random()
        if r < 0.35:
            return {'h': ['Var', rng.choice(['x1', 'x2', 'x3'])], 'k': []}
        if r < 0.6:
            return {'h': ['Beta', rng.choice(['b1', 'b2']), False], 'k': []}
        m = rng.choice([1, 2, 3, 5, -1, -3, 0])
        kind = rng.choice(['int', 'float', 'bool', None]) if m in (0, 1) else rng.choice(['int', 'float', None])
        e = 0 if kind in ('int', 'bool') else rng.choice([0, -1, -2])
        n = {'h': ['Num'] + norm_dy([m, e]), 'k': []}
        if kind:
            n['lit'] = kind
        return n

    def is_lit(n):
        return n['h'][0] == 'Num' and 'lit' in n

    def gen(d):
        if d <= 0 or rng.random() < 0.25:
            return leaf()
        r = rng.random()
        if r < 0.1:
            a = gen(d - 1)
            if is_lit(a):
                a = {'h': ['Var', 'x1'], 'k': []}
            return {'h': ['Un', 'UMinus'], 'k': [a]}
        if r < 0.18:
            return {'h': ['Un', 'Exp'], 'k': [expr_not_lit(gen(d - 1))]}
        op = rng.choice(['Plus', 'Minus', 'Times', 'Divide', 'Minus', 'Divide', 'And', 'Or', 'Eq', 'Ne', 'Le', 'Ge', 'Lt', 'Gt', 'BMin', 'BMax'])
        a, b = gen(d - 1), gen(d - 1)
        if is_lit(a) and is_lit(b):
            b = {'h': ['Var', 'x2'], 'k': []}       # Python would fold two literals itself
        if op in ('BMin', 'BMax'):
            a = expr_not_lit(a)
        if op == 'Divide':
            # denominator away from zero: exp(...) or a non-zero literal
            if is_lit(b):
                if b['h'][1] == 0:
                    b['h'] = ['Num', 1, 0]
            else:
                b = {'h': ['Un', 'Exp'], 'k': [b if not is_lit(b) else {'h': ['Var', 'x3'], 'k': []}]}
        return {'h': ['Bin', op], 'k': [a, b]}

    def expr_not_lit(n):
        return {'h': ['Var', 'x3'], 'k': []} if is_lit(n) else n

    def reflected(n):
        return (n['h'][0] == 'Bin' and is_lit(n['k'][0])) or any(reflected(k) for k in n['k'])

    def comparisons_ok(n):
        # Python evaluates `literal == expr` through expr.__eq__ (fine) -- but chained comparison objects are not formulas
        return True

    cases = []
    for _ in range(ctx.n(120, 2500)):
        t = gen(rng.choice([2, 3, 4]))
        if is_lit(t):
            t = {'h': ['Bin', 'Plus'], 'k': [t, {'h': ['Var', 'x1'], 'k': []}]}
        betas = {'b1': {'value': 0.75, 'fixed': False}, 'b2': {'value': -1.5, 'fixed': False}}
        rows = [{'x1': rng.choice([-2.0, -0.5, 0.25, 1.5, 3.0]), 'x2': rng.choice([-1.25, 0.5, 2.0]), 'x3': rng.choice([-0.75, 0.125, 1.0])} for _ in range(2)]
        cases.append({'tree': t, 'betas': betas, 'rows': rows})
    res = ctx.impl_cases('c01_dsl.py', cases, chunk=30)
    vc, meta = [], []

    def plain(n):
        return {'h': n['h'], 'k': [plain(k) for k in n['k']]}

    for c, r in zip(cases, res):
        intended = plain(c['tree'])
        st.record({'tree': c['tree'], 'rows': c['rows']}, nontrivial=reflected(c['tree']))
        if 'crash' in r or 'build_exc' in r:
            ctx.violation('C01/dsl/build', 'a formula written with Python operators cannot be built', c, None, r.get('crash') or r.get('build_exc'))
            continue
        benv = {k: v['value'] for k, v in c['betas'].items()}
        if 'engine' in r:
            for row, v in zip(c['rows'], r['engine']):
                vc.append({'expr': intended, 'env': {'beta': benv, 'var': row}, 'observed': v})
                meta.append(c)
        elif 'engine_exc' in r:
            for row in c['rows']:
                vc.append({'expr': intended, 'env': {'beta': benv, 'var': row}, 'observed': 'error'})
                meta.append(c)
    bad = {}
    for c, (v, info) in zip(meta, check_values(ctx, 'c01dsl', vc, relbits=-30)):
        if v == 'differ' and id(c) not in bad:
            bad[id(c)] = True
            if ctx.violation(f'C01/dsl/value/{root_kind(c["tree"])}', 'a formula written with Python operators does not evaluate to the value '
                             'the notation denotes', c, info, None):
                st.disagree({'tree': c['tree']}, info, None)
    if st.disagreements:
        ctx.stream_broken('dsl', f'{len(st.disagreements)} disagreements; first: {json.dumps(st.disagreements[0], default=str)[:500]}')


def stream_phi_grid(ctx):
    st = ctx.stream('phi_grid', 'dyadic grid on [-9, 9]: scipy norm.cdf and the engine\'s bioNormalCdf vs the interval extension '
                    'PhiI_series (proved to enclose Phi_def x = 1/2 + RInt npdf 0 x: T01f_PhiI_series_correct; the grid ties scipy/the engine to '
                    'that function); non-trivial = |x| > 1/8; distinct by x')
    rng = ctx.sub_rng('phi')
    xs = [[m, -3] for m in range(-72, 73, 3)] + [[rng.randint(-4000, 4000), -9] for _ in range(ctx.n(40, 400))]
    ref = ctx.impl('c01_phi.py', {'xs': xs})
    trees = [{'tree': {'h': ['Un', 'NormalCdf'], 'k': [{'h': ['Num'] + norm_dy(x), 'k': []}]}, 'betas': {}, 'rows': []} for x in xs]
    eng = ctx.impl_cases('c01_values.py', trees, {'python': False})
    vc, meta = [], []
    for x, t, y, e in zip(xs, trees, ref, eng):
        vc.append({'expr': t['tree'], 'env': {}, 'observed': y})
        meta.append(('scipy', x))
        if 'engine' in e:
            vc.append({'expr': t['tree'], 'env': {}, 'observed': e['engine'][0]})
            meta.append(('engine', x))
    for (who, x), (v, info) in zip(meta, check_values(ctx, 'phi', vc, relbits=-30)):
        st.record({'x': x, 'who': who}, nontrivial=abs(x[0]) * 2.0 ** x[1] > 0.125)
        if v == 'differ':
            if who == 'scipy':
                st.disagree({'x': x, 'who': who}, info, None)
            if who == 'engine':
                xv = x[0] * 2.0 ** x[1]
                obs = info.get('observed') if isinstance(info, dict) else None
                above = xv >= 6.0 and isinstance(obs, float) and obs > 1.0
                ctx.violation('C01/known/normalcdf-upper-tail-above-one' if above else 'C01/value/engine/NormalCdf',
                              'bioNormalCdf is outside the enclosure of Phi', {'x': x, 'value': xv}, info, None)
    if any(d['case']['who'] == 'scipy' for d in st.disagreements):
        ctx.stream_broken('phi_grid', 'the proved interval extension of Phi_def disagrees with scipy: ' + str(st.disagreements[0])[:300])


def norm_dy(x):
    m, e = x
    if m == 0:
        return [0, 0]
    while m % 2 == 0:
        m //= 2
        e += 1
    return [m, e]


def stream_stale(ctx):
    st = ctx.stream('stale_exception', 'history of two evaluations over a 2-row table in ONE process: a formula outside the domain '
                    '(absent key), then x + 2; non-trivial = the first evaluation failed')
    r = ctx.impl('c01_stale.py', {})
    failed_first = r.get('second') != 'no error'
    st.record({'history': ["Elem({1: x}, 7) on rows x=1,2", 'x + 2 on the same rows'], 'observed': r}, nontrivial=failed_first)
    st.record({'history': ['x + 2 alone'], 'expected': [3.0, 4.0]}, nontrivial=True)
    if failed_first and r.get('after') != [3.0, 4.0]:
        ctx.violation('C01/known/engine-stale-exception',
                      'after one failing evaluation, a valid formula evaluated in the same process fails',
                      {'history': ["Elem({1: Variable('x')}, Numeric(7)).get_value_c(database=db, prepare_ids=True)",
                                   "(Variable('x') + Numeric(2)).get_value_c(database=db, prepare_ids=True)"], 'rows': [{'x': 1.0}, {'x': 2.0}]},
                      [3.0, 4.0], r.get('after_exc', r.get('after')))


def run(ctx):
    ctx.assumptions += ASSUME
    try:
        gen_all(ctx)
    except Untranslatable as e:
        ctx.tie_broken('py2v:PyEval', str(e))
    try:
        gen_loglogit(ctx)
    except Untranslatable as e:
        ctx.tie_broken('template:PyLogit', str(e))
    ctx.trusted += ['engine semantics modelled (rocq/Model/EvalX.v), not verified',
                    'py2v translator (tie A) for the get_value methods of the pure-Python evaluator (Gen/PyEval.v)',
                    'expression bridge lib/impl/bio_bridge.py / bio_build.py (round trip checked on every case)']
    ctx.build()
    stream_values(ctx)
    stream_sig(ctx)
    stream_stale(ctx)
    stream_phi_grid(ctx)
    stream_history(ctx)
    stream_models(ctx)
    stream_dsl(ctx)


def replay(ctx, path):
    w = json.load(open(path))
    wit = w.get('witness') or {}
    if 'tree' not in wit:
        print('replay: this file names an obligation/stream; re-run ./check C01')
        return 2
    c = {'tree': wit['tree'], 'betas': wit['betas'], 'rows': [wit['row']] if wit.get('row') else wit.get('rows', [])}
    r = ctx.impl('c01_values.py', {'cases': [c], 'python': not c['rows']})[0]
    print(json.dumps({'observed_now': {k: v for k, v in r.items() if k != 'tree_back'}, 'recorded': w.get('observed')}))
    return 0
