"""C08 -- reported statistics obey their defining formulas.

Tie A : Gen/Stats.v is regenerated on every run from /repo/src/biogeme/results.py and
        /repo/src/biogeme/tools/likelihood_ratio.py (py2v + the specialised, fail-closed extractors below);
        Proofs/StatsP.v proves the property's formulas about the generated definitions.
Tie B : stream `stats` -- synthetic raw estimation outcomes through bioResults, EVERY reported number compared with
        the defining formula evaluated independently (exact Fractions + sqrt/erfc/log with explicit tolerances).
"""
import ast
import json
import math
import os
from fractions import Fraction as Fr

import py2v
from py2v import External, Untranslatable, mangle, simple

# test hook (mutation testing of this check on a scratch copy of the repository; ./check runs under `env -i`
# and can never see it): the tree that is translated and executed
REPO_ROOT = os.environ.get('VERIF_REPO', '/repo')
RESULTS = 'src/biogeme/results.py'
LRFILE = 'src/biogeme/tools/likelihood_ratio.py'

ASSUME = [
    'floating-point arithmetic is read over the reals in the theorems (rounding is outside the model; the stream '
    'bounds it by explicit tolerances)',
    'np.nan_to_num is the identity: its argument is finite (guard: no division by an exact zero other than the '
    'std_err == 0 / r <= 0 branches the code tests itself; initLogLike / nullLogLike non-zero)',
    'np.finfo(float).max is an arbitrary real constant fmax (Section variable)',
    'scipy.stats.norm.cdf is a function Phi : R -> R (Section variable); range/monotonicity/symmetry only where a '
    'theorem lists them as hypotheses',
    'scipy.stats.chi2.ppf is an uninterpreted function chi2_ppf : R -> Z -> R (the stream checks it against the '
    'closed-form chi-square CDF)',
    'try: x = E except ZeroDivisionError: x = None  is modelled as  x = None when a divisor of E is 0 (Python float '
    'semantics; numpy scalars return inf/nan instead -- outside the model)',
    'scipy.linalg.pinv, numpy dot, np.cov are not verified: pinv is a Section variable constrained by the '
    'Moore-Penrose equations, dot is the textbook matrix product; the stream checks the implementation matrices '
    'exactly against Penrose / V.B.V / the sample covariance',
]

BETA_STATE = ['stdErr', 'tTest', 'pValue', 'robust_stdErr', 'robust_tTest', 'robust_pValue',
              'bootstrap_stdErr', 'bootstrap_tTest', 'bootstrap_pValue']
BETA_FIELDS = ['name', 'value', 'lb', 'ub'] + BETA_STATE


# ------------------------------------------------------------------------------------------------ translator
class StatsTr(py2v.Translator):
    """py2v + three constructs needed by results.py (all fail-closed):
       * narrowing of `X is not None` for option-typed X in `E if X is not None else None` and in `A and B`;
       * `try: t = E  except ZeroDivisionError: t = None` (zero-divisor guard, see ASSUME);
       * unary minus on small matrices."""

    def _not_none_name(self, test, env):
        if (isinstance(test, ast.Compare) and len(test.ops) == 1 and isinstance(test.ops[0], ast.IsNot)
                and isinstance(test.comparators[0], ast.Constant) and test.comparators[0].value is None):
            d = self.dotted(test.left)
            if d is not None and d in env and env[d].startswith('option '):
                return d
        return None

    def _expr(self, node, env, want=None):
        if isinstance(node, ast.IfExp):
            nm = self._not_none_name(node.test, env)
            if nm is not None:
                if not (isinstance(node.orelse, ast.Constant) and node.orelse.value is None):
                    self.err(node, '`E if X is not None else F` only supported with F = None')
                env2 = dict(env)
                env2[nm] = env[nm][len('option '):]
                c, t = self.expr(node.body, env2)
                body = f'(Some {c})'
                if getattr(node, '_zero_guard', False):
                    divs = []
                    for sub in ast.walk(node.body):
                        if isinstance(sub, ast.BinOp) and isinstance(sub.op, (ast.Div, ast.FloorDiv, ast.Mod)):
                            dc, dt = self.expr(sub.right, env2)
                            divs.append(self.coerce(dc, dt, 'R', sub))
                    if divs:
                        cond = ' || '.join(f'(Reqb {d} 0%R)' for d in divs)
                        body = f'(if ({cond}) then None else Some {c})'
                m = mangle(nm)
                return f'(match {m} with Some {m} => {body} | None => None end)', f'option {t}'
            if getattr(node, '_zero_guard', False):
                self.err(node, 'try/except ZeroDivisionError around an unexpected expression')
        elif getattr(node, '_zero_guard', False):
            self.err(node, 'try/except ZeroDivisionError around an unexpected expression')
        if isinstance(node, ast.BoolOp) and isinstance(node.op, ast.And) and len(node.values) >= 2:
            nm = self._not_none_name(node.values[0], env)
            if nm is not None:
                env2 = dict(env)
                env2[nm] = env[nm][len('option '):]
                parts = [self.truth(*self.expr(v, env2), v) for v in node.values[1:]]
                m = mangle(nm)
                return f'(match {m} with Some {m} => ({" && ".join(parts)}) | None => false end)', 'bool'
        if isinstance(node, ast.UnaryOp) and isinstance(node.op, ast.USub):
            c, t = self.expr(node.operand, env)
            if t == 'nmat':
                return f'(mopp {c})', 'nmat'
        return super()._expr(node, env, want)

    def block(self, stmts, env, tail, rettype):
        if stmts and isinstance(stmts[0], ast.Try):
            s = stmts[0]
            ok = (len(s.body) == 1 and isinstance(s.body[0], ast.Assign) and len(s.body[0].targets) == 1
                  and len(s.handlers) == 1 and not s.orelse and not s.finalbody
                  and isinstance(s.handlers[0].type, ast.Name) and s.handlers[0].type.id == 'ZeroDivisionError'
                  and len(s.handlers[0].body) == 1 and isinstance(s.handlers[0].body[0], ast.Assign)
                  and len(s.handlers[0].body[0].targets) == 1
                  and isinstance(s.handlers[0].body[0].value, ast.Constant) and s.handlers[0].body[0].value.value is None
                  and ast.dump(s.handlers[0].body[0].targets[0]) == ast.dump(s.body[0].targets[0]))
            if not ok:
                self.err(s, 'unsupported try statement (expected: try: t = E / except ZeroDivisionError: t = None)')
            a = s.body[0]
            a.value._zero_guard = True
            return self.block([a] + list(stmts[1:]), env, tail, rettype)
        return super().block(stmts, env, tail, rettype)


def _ext_finfo(tr, node, args):
    if len(args) != 1 or args[0] != ('py_float', 'pytype'):
        tr.err(node, 'np.finfo: expected np.finfo(float)')
    return 'finfo_float', 'finfo'


def _ext_max(tr, node, args):
    if args[0] != ('finfo_float', 'finfo'):
        tr.err(node, '.max: only np.finfo(float).max is declared')
    return 'fmax', 'R'


def _ext_nan_to_num(tr, node, args):
    if len(args) != 1:
        tr.err(node, 'np.nan_to_num: one argument expected')
    c, t = args[0]
    if t == 'nmat':
        return f'(nan_to_num_m {c})', 'nmat'
    return f'(nan_to_num {tr.coerce(c, t, "R", node)})', 'R'


def _ext_sub_matrix(tr, node, args):
    (m, tm), (ix, ti) = args
    if ti != '(Z * Z)':
        tr.err(node, f'matrix subscript must be [int, int], got {ti}')
    return f'(mget {m} {ix})', 'R'


def _ext_sub_vector(tr, node, args):
    (v, tv), (ix, ti) = args
    if ti != 'Z':
        tr.err(node, f'vector subscript must be an int, got {ti}')
    return f'(vget {v} {ix})', 'R'


def _ext_lrtuple(tr, node, args, kwargs):
    if args or list(kwargs) != ['message', 'statistic', 'threshold']:
        tr.err(node, 'LRTuple(message=, statistic=, threshold=) expected')
    m, s, t = kwargs['message'], kwargs['statistic'], kwargs['threshold']
    return f'({tr.coerce(*m, "string", node)}, {tr.coerce(*s, "R", node)}, {tr.coerce(*t, "R", node)})', '(string * R * R)'


def externals():
    return {
        'stats.norm.cdf': simple('Phi', ['R'], 'R', 'normal CDF: Section variable'),
        'calc_p_value': simple('calc_p_value', ['R'], 'R'),
        'np.nan_to_num': External(_ext_nan_to_num, 'identity on finite input'),
        'np.finfo': External(_ext_finfo),
        '.max': External(_ext_max, 'np.finfo(float).max -> Section variable fmax'),
        'np.abs': simple('Rabs', ['R'], 'R'),
        'np.sqrt': simple('sqrt', ['R'], 'R'),
        'np.log': simple('ln', ['R'], 'R'),
        'subscript:matrix': External(_ext_sub_matrix),
        'subscript:vector': External(_ext_sub_vector),
        'chi2.ppf': simple('chi2_ppf', ['R', 'Z'], 'R', 'chi-square quantile: Section variable'),
        'kw:LRTuple': External(_ext_lrtuple),
        '.dot()': simple('mmul n', ['nmat', 'nmat'], 'nmat', 'numpy dot of two n x n matrices'),
        'linalg.pinv': simple('pinv', ['nmat'], 'nmat', 'scipy.linalg.pinv: Section variable'),
    }


def _find_func(tr, qual):
    return tr.find(qual)


def _assign_of(tr, fd, target):
    """the unique `target = value` assignment (dotted target) anywhere inside fd"""
    hits = [n for n in ast.walk(fd) if isinstance(n, ast.Assign) and len(n.targets) == 1
            and tr.dotted(n.targets[0]) == target]
    if len(hits) != 1:
        raise Untranslatable(f'{fd.name}: expected exactly one assignment to {target}, found {len(hits)}')
    return hits[0]


def gen_scalar_block(tr):
    """`_calculate_stats`: the statements between `if self.data is None: return` and
    `if self.data.H is not None:` (likelihood ratios, rho squares, AIC, BIC)."""
    fd = tr.find('bioResults._calculate_stats')
    body = [s for s in fd.body if not tr.ignorable(s)]
    if not body:
        raise Untranslatable('_calculate_stats: empty body')
    s0 = body[0]
    if not (isinstance(s0, ast.If) and ast.unparse(s0.test) == 'self.data is None' and len(s0.body) == 1
            and isinstance(s0.body[0], ast.Return) and s0.body[0].value is None and not s0.orelse):
        raise Untranslatable('_calculate_stats: expected to start with `if self.data is None: return`')
    if not (len(body) > 1 and isinstance(body[1], ast.Expr) and ast.unparse(body[1].value) == 'self._clear_stats()'):
        raise Untranslatable('_calculate_stats: expected `self._clear_stats()` right after `if self.data is None: return` '
                             '(derived statistics of an earlier processing must be cleared before they are recomputed)')
    stmts = []
    for s in body[2:]:
        if isinstance(s, ast.If) and ast.unparse(s.test) == 'self.data.H is not None':
            break
        stmts.append(s)
    else:
        raise Untranslatable('_calculate_stats: `if self.data.H is not None:` not found')
    if s is not body[-1]:
        raise Untranslatable('_calculate_stats: statements after the `if self.data.H is not None:` block')
    want = ['likelihoodRatioTestNull', 'likelihoodRatioTest', 'rhoSquare', 'rhoSquareNull', 'rhoBarSquare',
            'rhoBarSquareNull', 'akaike', 'bayesian']
    targets = []
    for st in stmts:
        a = st.body[0] if isinstance(st, ast.Try) and st.body else st
        if not (isinstance(a, ast.Assign) and len(a.targets) == 1):
            tr.err(st, 'scalar block: only assignments (possibly inside try/except ZeroDivisionError) expected')
        targets.append(tr.dotted(a.targets[0]))
    if targets != ['self.data.' + w for w in want]:
        raise Untranslatable(f'_calculate_stats: scalar block assigns {targets}, expected {want}')
    env = {'self.data.nullLogLike': 'option R', 'self.data.initLogLike': 'option R', 'self.data.logLike': 'R',
           'self.data.nparam': 'Z', 'self.data.sampleSize': 'Z'}
    params = list(env.items())
    tr.partial = False
    types = {}

    def tail(e):
        for t in targets:
            types[t] = e[t]
        return tr.tup(targets)

    code = tr.block(stmts, dict(env), tail, None)
    expect = {'self.data.' + w: ('R' if w in ('akaike', 'bayesian') else 'option R') for w in want}
    if types != expect:
        raise Untranslatable(f'_calculate_stats: unexpected types of the scalar statistics {types}')
    ps = ' '.join(f'({mangle(a)} : {t})' for a, t in params)
    rt = ' * '.join(types[t] for t in targets)
    return (f'(* from {RESULTS}:{fd.lineno} bioResults._calculate_stats (scalar block) *)\n'
            f'Definition calculate_stats_scalars {ps} : ({rt}) :=\n{code}.\n')


def gen_clear_stats(tr):
    """`_clear_stats`: which derived attributes are reset to None / deleted.  Exact expected shape:
         for b in self.data.betas: <chained assignments b.X = b.Y = ... = None>
         self.data.<attr> = None ...
         for a in (<string constants>): if hasattr(self.data, a): delattr(self.data, a)"""
    fd = tr.find('bioResults._clear_stats')
    if [a.arg for a in fd.args.args] != ['self']:
        raise Untranslatable('_clear_stats: signature changed')
    attrs = []
    for st in [x for x in fd.body if not tr.ignorable(x)]:
        if (isinstance(st, ast.For) and isinstance(st.target, ast.Name) and ast.unparse(st.iter) == 'self.data.betas'
                and not st.orelse):
            bv = st.target.id
            for a in st.body:
                if not (isinstance(a, ast.Assign) and isinstance(a.value, ast.Constant) and a.value.value is None):
                    tr.err(a, '_clear_stats: only `b.x = ... = None` expected in the loop over the betas')
                for t in a.targets:
                    if not (isinstance(t, ast.Attribute) and isinstance(t.value, ast.Name) and t.value.id == bv
                            and t.attr in BETA_STATE):
                        tr.err(a, '_clear_stats: unexpected target in the loop over the betas')
                    attrs.append(f'A_beta F_{t.attr}')
        elif (isinstance(st, ast.Assign) and isinstance(st.value, ast.Constant) and st.value.value is None
              and all(isinstance(t, ast.Attribute) and ast.unparse(t.value) == 'self.data' for t in st.targets)):
            for t in st.targets:
                attrs.append(f'A_data "{t.attr}"%string')
        elif (isinstance(st, ast.For) and isinstance(st.target, ast.Name) and isinstance(st.iter, ast.Tuple)
              and all(isinstance(e, ast.Constant) and isinstance(e.value, str) and e.value.isidentifier() for e in st.iter.elts)
              and not st.orelse and len(st.body) == 1 and isinstance(st.body[0], ast.If) and not st.body[0].orelse
              and ast.unparse(st.body[0].test) == f'hasattr(self.data, {st.target.id})'
              and len(st.body[0].body) == 1 and isinstance(st.body[0].body[0], ast.Expr)
              and ast.unparse(st.body[0].body[0].value) == f'delattr(self.data, {st.target.id})'):
            for e in st.iter.elts:
                attrs.append(f'A_data "{e.value}"%string')
        else:
            tr.err(st, '_clear_stats: unsupported statement')
    return (f'(* from {RESULTS}:{fd.lineno} bioResults._clear_stats: attributes reset to None or deleted; it is the first\n'
            f'   statement of _calculate_stats after the `data is None` test (checked by the extractor) *)\n'
            'Definition clear_stats_attrs : list attr :=\n  [' + ';\n   '.join(attrs) + '].\n')


def gen_matrix_exprs(tr):
    fd = tr.find('bioResults._calculate_stats')
    env = {'self.data.H': 'nmat', 'self.data.bhhh': 'nmat', 'self.data.varCovar': 'nmat'}
    a1 = _assign_of(tr, fd, 'self.data.varCovar')
    c1, t1 = tr.expr(a1.value, {'self.data.H': 'nmat'})
    a2 = _assign_of(tr, fd, 'self.data.robust_varCovar')
    c2, t2 = tr.expr(a2.value, env)
    if t1 != 'nmat' or t2 != 'nmat':
        raise Untranslatable('varCovar / robust_varCovar: not matrix expressions')
    return (f'(* from {RESULTS}:{a1.lineno} *)\nDefinition varCovar_of (self_data_H : nmat) : nmat :=\n{c1}.\n'
            f'(* from {RESULTS}:{a2.lineno} *)\nDefinition robust_varCovar_of (self_data_varCovar self_data_bhhh : nmat) : nmat :=\n{c2}.\n')


def gen_family_wiring(tr):
    """the three loops `for i in range(nparam): if M[i,i] < 0: betas[i].set_X(fmax) else: betas[i].set_X(sqrt(M[i,i]))`"""
    fd = tr.find('bioResults._calculate_stats')
    defs, wiring = [], []
    for f in ast.walk(fd):
        if not (isinstance(f, ast.For) and ast.unparse(f.iter) == 'range(self.data.nparam)'
                and isinstance(f.target, ast.Name) and len(f.body) == 1 and isinstance(f.body[0], ast.If)):
            continue
        iff = f.body[0]
        if not (len(iff.body) == 1 and len(iff.orelse) == 1 and isinstance(iff.body[0], ast.Expr)
                and isinstance(iff.orelse[0], ast.Expr) and isinstance(iff.body[0].value, ast.Call)
                and isinstance(iff.orelse[0].value, ast.Call)):
            continue
        ivar = f.target.id
        calls = [iff.body[0].value, iff.orelse[0].value]
        setters = []
        for c in calls:
            fn = c.func
            if not (isinstance(fn, ast.Attribute) and ast.unparse(fn.value) == f'self.data.betas[{ivar}]'
                    and len(c.args) == 1 and not c.keywords):
                tr.err(c, 'standard-error loop: unexpected call')
            setters.append(fn.attr)
        if setters[0] != setters[1]:
            tr.err(iff, 'standard-error loop: the two branches call different setters')
        mats = sorted({tr.dotted(n.value) for n in ast.walk(iff) if isinstance(n, ast.Subscript)
                       and tr.dotted(n.value) not in (None, 'self.data.betas')})
        if len(mats) != 1:
            tr.err(iff, f'standard-error loop: expected one matrix, found {mats}')
        env = {mats[0]: 'matrix', ivar: 'Z'}
        test = tr.truth(*tr.expr(iff.test, env), iff.test)
        a, _ = tr.expr(calls[0].args[0], env, 'R')
        b, _ = tr.expr(calls[1].args[0], env, 'R')
        defs.append(f'(* from {RESULTS}:{f.lineno} *)\n'
                    f'Definition se_arg_{setters[0]} ({mangle(mats[0])} : matrix) ({mangle(ivar)} : Z) : R :=\n'
                    f'if {test} then {a} else {b}.\n')
        wiring.append((setters[0], mats[0].split('.')[-1]))
    if len(defs) != 3:
        raise Untranslatable(f'_calculate_stats: expected 3 standard-error loops, found {len(defs)}')
    w = '; '.join(f'("{s}"%string, "{m}"%string)' for s, m in wiring)
    return ''.join(defs) + f'Definition family_wiring : list (string * string) := [{w}].\n'


def gen_compile_rows(tr):
    """non-formatted branch of compile_estimation_results: which Beta attribute goes under which row label"""
    fd = tr.find('compile_estimation_results')
    flags_all = [a.arg for a in fd.args.args]
    ifs = [n for n in ast.walk(fd) if isinstance(n, ast.If) and isinstance(n.test, ast.Name) and n.test.id == 'formatted']
    if len(ifs) != 1 or len(ifs[0].orelse) != 1 or not isinstance(ifs[0].orelse[0], ast.For):
        raise Untranslatable('compile_estimation_results: `if formatted: ... else: for b in ...` not found')
    loop = ifs[0].orelse[0]
    if not (isinstance(loop.target, ast.Name) and ast.unparse(loop.iter) == 'res.data.betas' and not loop.orelse):
        raise Untranslatable('compile_estimation_results: unexpected loop in the non-formatted branch')
    bv = loop.target.id

    def label(node):
        if isinstance(node, ast.Attribute) and ast.unparse(node) == f'{bv}.name':
            return 'b_name'
        if isinstance(node, ast.JoinedStr):
            parts = []
            for v in node.values:
                if isinstance(v, ast.Constant) and isinstance(v.value, str) and all(32 <= ord(ch) < 127 for ch in v.value):
                    parts.append('"' + v.value.replace('"', '""') + '"')
                elif (isinstance(v, ast.FormattedValue) and v.conversion == -1 and v.format_spec is None
                      and ast.unparse(v.value) == f'{bv}.name'):
                    parts.append('b_name')
                else:
                    tr.err(node, 'row label: unsupported f-string part')
            return '(' + ' ++ '.join(parts) + ')%string'
        tr.err(node, 'row label: expected b.name or an f-string over b.name')

    def assign(a):
        if not (isinstance(a, ast.Assign) and len(a.targets) == 1 and isinstance(a.targets[0], ast.Subscript)
                and ast.unparse(a.targets[0].value) == 'df.loc' and isinstance(a.targets[0].slice, ast.Tuple)
                and len(a.targets[0].slice.elts) == 2 and ast.unparse(a.targets[0].slice.elts[1]) == 'col'):
            tr.err(a, 'non-formatted branch: expected df.loc[label, col] = b.<attr>')
        v = a.value
        if not (isinstance(v, ast.Attribute) and isinstance(v.value, ast.Name) and v.value.id == bv and v.attr in BETA_FIELDS):
            tr.err(a, 'non-formatted branch: the stored value is not an attribute of the Beta object')
        return f'({label(a.targets[0].slice.elts[0])}, F_{v.attr})'

    items = []
    for s in loop.body:
        if isinstance(s, ast.If):
            if not (isinstance(s.test, ast.Name) and s.test.id in ('include_robust_stderr', 'include_robust_ttest')
                    and s.test.id in flags_all and not s.orelse):
                tr.err(s, 'non-formatted branch: unexpected condition')
            inner = '; '.join(assign(a) for a in s.body)
            items.append(f'(if {s.test.id} then [{inner}] else [])')
        else:
            items.append(f'[{assign(s)}]')
    return (f'(* from {RESULTS}:{loop.lineno} compile_estimation_results, formatted=False *)\n'
            'Definition compile_rows (include_robust_stderr include_robust_ttest : bool) (b_name : string)\n'
            '  : list (string * beta_field) :=\n(' + ' ++ '.join(items) + ')%list.\n')


def gen_stats_text():
    ext = externals()
    attrs = {'float': ('py_float', 'pytype')}
    tr = StatsTr(_read(RESULTS), RESULTS, externals=ext, attrs=attrs)
    out = []
    out.append('From BV Require Import Model.Stats.\n')
    out.append('Section Ext.\nVariable fmax : R.\nVariable Phi : R -> R.\n')
    out.append(tr.function('calc_p_value', {'t': 'R'}, 'R'))
    # ---- Beta: the attributes are Section variables (the state before the call): a setter that reads
    #      another family's attribute gets an extra parameter and the theorems no longer typecheck.
    out.append('Section BetaState.\nVariable self_value : R.\nVariables self_lb self_ub : option R.\n'
               'Variables ' + ' '.join('self_' + a for a in BETA_STATE) + ' : R.\n')
    pre = {'self.value': 'R'}
    pre.update({'self.' + a: 'R' for a in BETA_STATE})
    for fam, pfx in (('set_std_err', ''), ('set_robust_std_err', 'robust_'), ('set_bootstrap_std_err', 'bootstrap_')):
        out.append(tr.function('Beta.' + fam, {'std_err': 'R'}, None, pre_env=dict(pre),
                               result_attrs=[f'self.{pfx}stdErr', f'self.{pfx}tTest', f'self.{pfx}pValue']))
    out.append(tr.function('Beta.is_bound_active', {'threshold': 'R'}, 'bool', partial=True,
                           pre_env={'self.value': 'R', 'self.lb': 'option R', 'self.ub': 'option R'}))
    out.append('End BetaState.\n')
    # ---- bioResults
    out.append('Section Results.\nVariable self_data_betaValues : vector.\n')
    out.append(tr.function('bioResults._calculate_test', {'i': 'Z', 'j': 'Z', 'matrix': 'matrix'}, 'R',
                           coqname='calculate_test', pre_env={'self.data.betaValues': 'vector'}))
    out.append('End Results.\n')
    out.append(gen_scalar_block(tr))
    out.append(gen_clear_stats(tr))
    out.append(gen_family_wiring(tr))
    out.append('Section Mat.\nVariable n : nat.\nVariable pinv : nmat -> nmat.\n')
    out.append(gen_matrix_exprs(tr))
    out.append('End Mat.\n')
    out.append(gen_compile_rows(tr))
    # ---- tools/likelihood_ratio.py
    tr2 = StatsTr(_read(LRFILE), LRFILE, externals=ext, attrs=attrs, formats={('R', '.1f'): 'fmt_1f'})
    out.append('Section LR.\nVariable chi2_ppf : R -> Z -> R.\nVariable fmt_1f : R -> string.\n')
    out.append(tr2.function('likelihood_ratio_test', {'model1': '(R * Z)', 'model2': '(R * Z)', 'significance_level': 'R'},
                            '(string * R * R)', partial=True))
    # bioResults.likelihood_ratio_test: self is passed as the second model
    ext3 = dict(ext)
    ext3['biogeme.tools.likelihood_ratio.likelihood_ratio_test'] = simple(
        'likelihood_ratio_test', ['(R * Z)', '(R * Z)', 'R'], 'option (string * R * R)')
    tr3 = StatsTr(_read(RESULTS), RESULTS, externals=ext3, attrs=attrs)
    out.append('Section TwoResults.\nVariables self_data_logLike other_model_data_logLike : R.\n'
               'Variables self_data_nparam other_model_data_nparam : Z.\n')
    out.append(tr3.function(
        'bioResults.likelihood_ratio_test', {'other_model': 'unit', 'significance_level': 'R'},
        'option (string * R * R)', coqname='results_likelihood_ratio_test',
        pre_env={'self.data.logLike': 'R', 'self.data.nparam': 'Z', 'other_model.data.logLike': 'R',
                 'other_model.data.nparam': 'Z'}))
    out.append('End TwoResults.\nEnd LR.\nEnd Ext.\n')
    return ''.join(out)


def _read(rel):
    try:
        return (py2v.Path(REPO_ROOT) / rel).read_text()
    except Exception as e:
        raise Untranslatable(f'cannot read {rel}: {e}')


def gen_all(ctx):
    try:
        text = gen_stats_text()
    except SyntaxError as e:
        raise Untranslatable(f'syntax error in the source: {e}')
    ctx.gen('Stats', text)


# ================================================================================================ stream `stats`
FMAX = float.fromhex('0x1.fffffffffffffp+1023')
TAU = Fr(1, 10 ** 9)          # relative tolerance of every comparison (see the module docstring / MANIFEST)
P_ABS = Fr(5, 10 ** 15)       # absolute slack of 2(1 - cdf): cdf is within a few ulp of 1 (2^-53 each)
GROUPS = ['construct', 'scalars', 'varcovar', 'sandwich', 'bootcov', 'family', 'pvalue', 'correlation', 'pairwise',
          'bounds', 'tables', 'compile', 'lr']
DEFAULT_STATS = ['Number of estimated parameters', 'Sample size', 'Final log likelihood',
                 'Akaike Information Criterion', 'Bayesian Information Criterion']


def H(fr):
    """exact Fraction (dyadic) -> float.hex text"""
    if fr is None:
        return None
    f = float(fr)
    assert Fr(f) == fr, fr
    return f.hex()


def F(h):
    """value reported by the runner -> Fraction | 'nan' | 'inf' | '-inf' | None | other"""
    if h is None:
        return None
    if isinstance(h, str):
        if h in ('nan', 'inf', '-inf'):
            return h
        return Fr(float.fromhex(h))
    if isinstance(h, dict) and 'int' in h:
        return Fr(h['int'])
    return h


def isnum(x):
    return isinstance(x, Fr)


def close(obs, exp, rel=TAU, abs_=Fr(0)):
    if not (isnum(obs) and isnum(exp)):
        return False
    return abs(obs - exp) <= rel * abs(exp) + abs_


def fsqrt(x):
    return Fr(math.sqrt(float(x)))


def dy(rng, lo, hi, den=16):
    return Fr(rng.randint(lo * den, hi * den), den)


# ------------------------------------------------------------------ exact linear algebra on Fractions
def mm(A, B):
    return [[sum(A[i][k] * B[k][j] for k in range(len(B))) for j in range(len(B[0]))] for i in range(len(A))]


def mabs(A):
    return [[abs(v) for v in r] for r in A]


def mT(A):
    return [list(r) for r in zip(*A)]


def mmax(A):
    return max((abs(v) for r in A for v in r), default=Fr(0))


def fro(A):
    return math.sqrt(sum(float(v) ** 2 for r in A for v in r))


def inv_exact(A):
    n = len(A)
    M = [list(r) + [Fr(int(i == j)) for j in range(n)] for i, r in enumerate(A)]
    for c in range(n):
        p = next((r for r in range(c, n) if M[r][c] != 0), None)
        if p is None:
            return None
        M[c], M[p] = M[p], M[c]
        pv = M[c][c]
        M[c] = [v / pv for v in M[c]]
        for r in range(n):
            if r != c and M[r][c] != 0:
                f = M[r][c]
                M[r] = [a - f * b for a, b in zip(M[r], M[c])]
    return [r[n:] for r in M]


# ------------------------------------------------------------------ generator
NAMES = ['asc_car', 'asc_train', 'b_cost', 'b_time', 'b_hw', 'mu', 'lambda1', 'sigma', 'b_time_s', 'zeta']


def gen_matrix_psd(rng, K, rows, den=4, span=6):
    C = [[Fr(rng.randint(-span, span), den) for _ in range(K)] for _ in range(rows)]
    return mm(mT(C), C)


def gen_case(rng, focus=None, kmax=6, K=None, names=None):
    fixedK = K is not None
    if K is None:
        K = rng.randint(1, kmax)
    if focus in ('pairwise', 'correlation', 'sandwich') and K < 2 and not fixedK:
        K = rng.randint(2, kmax)
    kinds = ['negdef'] * 5 + ['singular'] * 2 + ['indefinite'] * 2 + ['zero_row', 'none', 'badscale']
    kind = rng.choice(kinds)
    if focus == 'varcovar' and rng.random() < 0.5:
        kind = 'badscale'
    if focus in ('family', 'pvalue', 'pairwise', 'sandwich', 'varcovar', 'correlation', 'bootcov') and kind == 'none':
        kind = 'negdef'
    if K == 1 and kind in ('singular', 'zero_row', 'indefinite'):
        kind = rng.choice(['negdef', 'negdef', 'zero_row'])
    if names is None:
        names = rng.sample(NAMES, K)
        if rng.random() < 0.5:
            names = sorted(names)
    names = list(names)
    betas = [dy(rng, -4, 4) if rng.random() < 0.9 else Fr(0) for _ in range(K)]
    import numpy as np
    for _attempt in range(50):
        if kind == 'negdef':
            A = gen_matrix_psd(rng, K, K + rng.randint(0, 3))
            d = Fr(rng.randint(1, 16), 8)
            for i in range(K):
                A[i][i] += d
        elif kind == 'badscale':
            # INVERTIBLE, positive definite, badly scaled: A = M.D.M^T, M unit lower triangular with small dyadic
            # shears, D = diag(2^e) with the smallest entry in 2^-28..2^-18 (4e-9..4e-6: an attribute of order
            # 1e-3..1e-4) and the largest in 2^-2..2^4; condition number kept <= 1e10, i.e. five orders of
            # magnitude above scipy's default pinv cut-off max(M,N)*eps
            e_lo, e_hi = rng.randint(-28, -18), rng.randint(-2, 4)
            es = [e_lo] + [rng.randint(e_lo, e_hi) for _ in range(K - 2)] + ([e_hi] if K >= 2 else [])
            rng.shuffle(es)
            Mx = [[Fr(int(i == j)) if j >= i else Fr(rng.randint(-2, 2), 4) for j in range(K)] for i in range(K)]
            A = [[sum(Mx[i][k] * Fr(2) ** es[k] * Mx[j][k] for k in range(K)) for j in range(K)] for i in range(K)]
            if any(Fr(float(v)) != v for r_ in A for v in r_):
                continue
            sv = np.linalg.svd(np.array([[float(v) for v in r_] for r_ in A]), compute_uv=False)
            if sv[-1] <= 0 or sv[0] / sv[-1] > 1e10 or sv[-1] > 5e-6:
                continue
            break
        elif kind == 'singular':
            r = rng.randint(1, K - 1)
            A = gen_matrix_psd(rng, K, r)
        elif kind == 'zero_row':
            A = gen_matrix_psd(rng, K, K + 1)
            for i in range(K):
                A[i][i] += Fr(1, 2)
            z = rng.randrange(K)
            for i in range(K):
                A[z][i] = A[i][z] = Fr(0)
        elif kind == 'indefinite':
            C = [[Fr(rng.randint(-6, 6), 4) for _ in range(K)] for _ in range(K)]
            D = [rng.choice([-1, 1]) * Fr(rng.randint(1, 8), 4) for _ in range(K)]
            if all(x > 0 for x in D) or all(x < 0 for x in D):
                D[0] = -D[0]
            A = [[sum(C[k][i] * D[k] * C[k][j] for k in range(K)) for j in range(K)] for i in range(K)]
        else:
            A = None
            break
        sv = np.linalg.svd(np.array([[float(v) for v in r] for r in A]), compute_uv=False)
        if sv[0] == 0:
            continue
        nz = [x for x in sv if x > 1e-9 * sv[0]]
        if kind in ('negdef', 'indefinite') and len(nz) < K:
            continue  # accidental singularity
        if sv[0] / nz[-1] <= 1e4:
            break
    else:
        kind, A = 'negdef', [[Fr(int(i == j)) for j in range(K)] for i in range(K)]
    Hm = None if A is None else [[-v for v in r] for r in A]
    B = None if A is None else gen_matrix_psd(rng, K, rng.choice([1, K, K + 2, K + 5]), den=4, span=5)
    L = -dy(rng, 20, 400)
    L0 = None if rng.random() < 0.1 else L - dy(rng, 0, 200)
    Lnull = None if (rng.random() < 0.4 or focus == 'nonull') else (L0 if L0 is not None else L) - dy(rng, 0, 100)
    if focus == 'scalars' and rng.random() < 0.7:
        L0 = L - dy(rng, 1, 200)
        Lnull = L0 - dy(rng, 0, 100)
    N = rng.choice([rng.randint(2, 30), rng.randint(30, 1000), rng.randint(1000, 100000)])
    nobs = N if rng.random() < 0.7 else N * rng.randint(2, 9)
    bounds = []
    for ib, b in enumerate(betas):
        u = rng.random()
        if (u < 0.03 or (focus == 'bounds' and u < 0.3)):
            # distance to the bound EXACTLY equal to the threshold 1e-6 (as a double): active (`<=`)
            betas[ib] = Fr(0)
            bounds.append([-Fr(1.0e-6), None] if rng.random() < 0.5 else [None, Fr(1.0e-6)])
        elif u < 0.7 and focus != 'bounds':
            bounds.append([None, None])
        elif u < 0.8:
            bounds.append([b - dy(rng, 1, 5), b + dy(rng, 1, 5)])
        elif u < 0.86:
            bounds.append([b, None])                       # active lower bound
        elif u < 0.92:
            bounds.append([None, b])                       # active upper bound
        elif u < 0.96:
            bounds.append([b - Fr(1, 2 ** 20), b + 3])     # 9.5e-7 <= 1e-6: active
        else:
            bounds.append([b - 3, b + Fr(1, 2 ** 19)])     # 1.9e-6 > 1e-6: not active
    boot = None
    want_boot = rng.random() < 0.45 or focus in ('bootstrap', 'bootcov')
    if Hm is not None and want_boot:
        R = rng.choice([2, 3, 5, 8, 13])
        boot = [[b + dy(rng, -2, 2, 8) for b in betas] for _ in range(R)]
        if rng.random() < 0.08 and K >= 1:
            z = rng.randrange(K)                           # a parameter that never moves: variance 0
            for row in boot:
                row[z] = betas[z]
    g = [Fr(rng.randint(-8, 8), 2 ** 12) for _ in range(K)]
    return {
        'kind': kind, 'names': names, 'betas': [H(b) for b in betas],
        'bounds': [[H(lb), H(ub)] for lb, ub in bounds], 'g': [H(x) for x in g],
        'L': H(L), 'L0': H(L0), 'Lnull': H(Lnull), 'N': N, 'nobs': nobs,
        'H': None if Hm is None else [[H(v) for v in r] for r in Hm],
        'B': None if B is None else [[H(v) for v in r] for r in B],
        'boot': None if boot is None else [[H(v) for v in r] for r in boot],
        'monte_carlo': rng.random() < 0.2, 'draws': 100, 'excluded': rng.choice([0, 0, 7]),
    }


def gen_cases(rng, n, focus=None, kmax=6):
    cases = []
    for _ in range(n):
        c = gen_case(rng, focus, kmax)
        if rng.random() < 0.35 or focus == 'lr':
            o = gen_case(rng, 'nolr', kmax)
            u = rng.random()
            if u < 0.15:
                o['L'] = c['L']                                       # tie of the log likelihoods
            o['H'] = o['B'] = o['boot'] = None                        # only L and K matter
            c['lr_with'] = o
            c['alphas'] = [H(Fr(1, 20)) if False else (0.05).hex(), rng.choice([(0.01).hex(), (0.1).hex(), (0.5).hex()])]
        cases.append(c)
    return cases


# ------------------------------------------------------------------ histories of one raw outcome object
STEP_KINDS = ['H', 'H', 'HB', 'B', 'boot', 'scalars', 'betas', 'all', 'all', 'nothing']
MODES = ['same_object', 'same_object', 'deepcopy', 'pickle_then_modify', 'pickle_then_modify', 'modify_then_pickle',
         'raw_pickle']
RAW_FIELDS = ['kind', 'betas', 'bounds', 'L', 'L0', 'Lnull', 'N', 'nobs', 'H', 'B', 'boot', 'excluded']


def gen_history_case(rng, kmax=6, focus=None):
    """a raw outcome that is reported, then UPDATED (any subset of its raw inputs replaced: Hessian alone, Hessian
    and BHHH, BHHH alone, bootstrap sample, likelihoods and sample size, estimates, everything, nothing) and
    reported again, 1 to 3 times, through the entry points of results.py (same object, copy, write_pickle +
    bioResults(pickle_file=), plain pickle).  Same parameters throughout."""
    c = gen_case(rng, focus, kmax)
    c.pop('lr_with', None)
    K, names = len(c['names']), c['names']
    prev, hist, modes, whats = c, [], [], []
    for _ in range(rng.choice([1, 1, 2, 3])):
        fresh = gen_case(rng, focus, kmax, K=K, names=names)
        what = rng.choice(STEP_KINDS)
        nxt = {k: prev[k] for k in prev if k not in ('history', 'modes', 'whats', 'lr_with', 'alphas', 'corpus', 'note')}
        take = {'H': ['H', 'kind'], 'HB': ['H', 'kind', 'B'], 'B': ['B'], 'boot': ['boot'],
                'scalars': ['L', 'L0', 'Lnull', 'N', 'nobs', 'excluded'], 'betas': ['betas', 'bounds'],
                'all': RAW_FIELDS, 'nothing': []}[what]
        for k in take:
            nxt[k] = fresh[k]
        # keep the raw outcome well formed: Hessian and BHHH come together, a bootstrap sample only with them
        if (nxt['H'] is None) != (nxt['B'] is None):
            nxt['H'], nxt['B'], nxt['kind'] = fresh['H'], fresh['B'], fresh['kind']
        if nxt['H'] is None:
            nxt['boot'] = None
        if 'betas' in take and nxt.get('boot') is not None and 'boot' not in take:
            pass    # the bootstrap replications need not be centred on the estimates
        hist.append(nxt)
        modes.append(rng.choice(MODES))
        whats.append(what)
        prev = nxt
    c['history'], c['modes'], c['whats'] = hist, modes, whats
    return c


def check_any(c, o, groups=None):
    """check_case on a plain case; on a history, on every step (each report must follow from the raw inputs
    the object holds AT THAT STEP)"""
    if not c.get('history'):
        return check_case(c, o, groups)
    c0 = {k: v for k, v in c.items() if k not in ('history', 'modes', 'whats', 'lr_with', 'alphas')}
    outs = o.get('history_outs') if isinstance(o, dict) else None
    if outs is None:
        return check_case(c0, o if isinstance(o, dict) else {'runner': {'exc': 'NoOutput', 'msg': str(o)[:200]}}, groups)
    steps = [c0] + list(c['history'])
    ms_all, tot = [], {'compared': 0, 'undecided': 0, 'convention': 0}
    for k, (ck, ok) in enumerate(zip(steps, outs)):
        ms, cnt = check_case(ck, ok, groups)
        h_removed = ck['H'] is None and any(s_['H'] is not None for s_ in steps[:k])
        b_removed = ck.get('boot') is None and any(s_.get('boot') is not None for s_ in steps[:k])
        for m in ms:
            # figures of a matrix the raw outcome NO LONGER holds (they were stored in the raw object by an earlier
            # report and are never cleared): one witness class of its own
            if m.expected is None and m.group in ('family', 'pvalue', 'bootcov', 'pairwise', 'varcovar', 'sandwich', 'correlation'):
                boot_q = m.quantity.startswith('bootstrap_')
                if boot_q and b_removed:
                    m.group, m.quantity = 'stale', f'after-bootstrap-removed[{m.quantity}]'
                elif (not boot_q) and h_removed:
                    m.group, m.quantity = 'stale', f'after-hessian-removed[{m.quantity}]'
            if k > 0:
                m.note = (m.note + '; ' if m.note else '') + (
                    f'history step {k} of {len(steps) - 1}: raw inputs updated ({c.get("whats", ["?"] * k)[k - 1]}) '
                    f'and reported again through {c["modes"][k - 1]}')
                m.step = k
        ms_all += ms
        for kk in tot:
            tot[kk] += cnt[kk]
    return ms_all, tot


# ------------------------------------------------------------------ the oracle
class Mismatch:
    def __init__(self, group, quantity, expected, observed, note=''):
        self.group, self.quantity, self.expected, self.observed, self.note = group, quantity, expected, observed, note

    def as_json(self):
        def j(v):
            if isinstance(v, Fr):
                return {'float': float(v), 'hex': float(v).hex()} if v.denominator & (v.denominator - 1) == 0 and abs(v) < 2 ** 1023 else {'fraction': str(v), 'float': float(v)}
            return v
        return {'group': self.group, 'quantity': self.quantity, 'expected': j(self.expected),
                'observed': j(self.observed), 'note': self.note}


def phi_p(t):
    """2 (1 - Phi(|t|)) = erfc(|t| / sqrt 2), evaluated independently of scipy"""
    return Fr(math.erfc(abs(float(t)) / math.sqrt(2.0)))


def chi2_cdf(x, df):
    """closed forms of the chi-square CDF (integer df >= 1)"""
    if x <= 0:
        return 0.0
    h = x / 2.0
    if df % 2 == 0:
        s, term = 0.0, 1.0
        for k in range(df // 2):
            if k > 0:
                term *= h / k
            s += term
        return 1.0 - math.exp(-h) * s
    s = 0.0
    for k in range(1, (df - 1) // 2 + 1):
        s += h ** (k - 0.5) / math.gamma(k + 0.5)
    return math.erf(math.sqrt(h)) - math.exp(-h) * s


def is_exc(x):
    return isinstance(x, dict) and 'exc' in x


def check_case(c, out, groups=None):
    """Every reported number against its defining formula.  Returns (mismatches, stats) where stats counts
    the comparisons made and the undecided ones (radicand within rounding noise of 0)."""
    ms = []
    cnt = {'compared': 0, 'undecided': 0, 'convention': 0}
    on = (lambda g: True) if not groups else (lambda g: g in groups)

    def bad(group, q, exp, obs, note=''):
        ms.append(Mismatch(group, q, exp, obs, note))

    def cmp(group, q, obs, exp, rel=TAU, abs_=Fr(0), note=''):
        if not on(group):
            return
        cnt['compared'] += 1
        if exp is None:
            if obs is not None and obs != 'nan':
                bad(group, q, None, obs, note)
            return
        if not close(obs, exp, rel, abs_):
            bad(group, q, exp, obs, note)

    K = len(c['names'])
    names = c['names']
    beta = [F(b) for b in c['betas']]
    L, L0, Lnull = F(c['L']), F(c['L0']), F(c['Lnull'])
    N, nobs = c['N'], c['nobs']
    for stage in ('build', 'construct', 'runner'):
        if stage in out:
            k1boot = (stage == 'construct' and K == 1 and c.get('boot') is not None
                      and out[stage].get('exc') == 'IndexError')
            if on('construct'):
                bad('construct', 'bootstrap-K1-IndexError' if k1boot else f'{stage}-{out[stage].get("exc")}',
                    'a bioResults object', out[stage],
                    'bioResults could not be built from this raw outcome')
            return ms, cnt
    sc = {k: F(v) for k, v in out['scalars'].items()}
    # ---------------------------------------------------------------- scalars
    cmp('scalars', 'nparam', sc['nparam'], Fr(K))
    cmp('scalars', 'sampleSize', sc['sampleSize'], Fr(N))
    cmp('scalars', 'numberOfObservations', sc['numberOfObservations'], Fr(nobs))
    cmp('scalars', 'logLike', sc['logLike'], L)
    cmp('scalars', 'likelihoodRatioTestNull', sc['likelihoodRatioTestNull'], None if Lnull is None else -2 * (Lnull - L))
    cmp('scalars', 'likelihoodRatioTest', sc['likelihoodRatioTest'], None if L0 is None else -2 * (L0 - L))
    cmp('scalars', 'rhoSquare', sc['rhoSquare'], None if L0 is None else 1 - L / L0, abs_=Fr(1, 10 ** 15))
    cmp('scalars', 'rhoSquareNull', sc['rhoSquareNull'], None if Lnull is None else 1 - L / Lnull, abs_=Fr(1, 10 ** 15))
    cmp('scalars', 'rhoBarSquare', sc['rhoBarSquare'], None if L0 is None else 1 - (L - K) / L0, abs_=Fr(1, 10 ** 15))
    cmp('scalars', 'rhoBarSquareNull', sc['rhoBarSquareNull'], None if Lnull is None else 1 - (L - K) / Lnull, abs_=Fr(1, 10 ** 15))
    cmp('scalars', 'akaike', sc['akaike'], 2 * K - 2 * L)
    cmp('scalars', 'bayesian', sc['bayesian'], -2 * L + K * Fr(math.log(N)))
    gn = sum(F(x) ** 2 for x in c['g'])
    cmp('scalars', 'gradientNorm', sc['gradientNorm'], fsqrt(gn), abs_=Fr(1, 10 ** 300))

    # ---------------------------------------------------------------- bounds
    act = []
    for b, (lb, ub) in zip(beta, c['bounds']):
        lb, ub = F(lb), F(ub)
        thr = Fr(1.0e-6)
        act.append((lb is not None and abs(b - lb) <= thr) or (ub is not None and abs(b - ub) <= thr))
    if on('bounds'):
        for i, bo in enumerate(out['betas']):
            cnt['compared'] += 1
            if bo['active'] is not act[i]:
                bad('bounds', f'is_bound_active[{names[i]}]', act[i], bo['active'])
        cnt['compared'] += 1
        if out.get('nfree') != K - sum(act):
            bad('bounds', 'number_of_free_parameters', K - sum(act), out.get('nfree'))

    fam = {'': None, 'robust_': None, 'bootstrap_': None}     # validated implementation matrices, per family
    have_H = c['H'] is not None
    have_boot = have_H and c.get('boot') is not None
    M = out['matrices']

    def getmat(key):
        m = M.get(key)
        if m is None or isinstance(m, dict):
            return None
        m = [[F(v) for v in r] for r in m]
        if len(m) != K or any(len(r) != K for r in m) or not all(isnum(v) for r in m for v in r):
            return None
        return m

    if have_H:
        A = [[-F(v) for v in r] for r in c['H']]
        Bm = [[F(v) for v in r] for r in c['B']]
        V = getmat('varCovar')
        if V is None:
            if on('varcovar'):
                bad('varcovar', 'varCovar', 'a finite K x K matrix', M.get('varCovar'))
        else:
            fam[''] = V
            if on('varcovar'):
                # Moore-Penrose equations in exact arithmetic, tolerance scaled by kappa = |A|_F |V|_F
                kappa = max(1.0, fro(A) * fro(V))
                tol = TAU * Fr(kappa)
                AV, VA = mm(A, V), mm(V, A)
                checks = [
                    ('penrose1[A.V.A = A]', mm(AV, A), A, mmax(A)),
                    ('penrose2[V.A.V = V]', mm(VA, V), V, mmax(V)),
                    ('penrose3[(A.V)^T = A.V]', mT(AV), AV, Fr(1)),
                    ('penrose4[(V.A)^T = V.A]', mT(VA), VA, Fr(1)),
                ]
                for nm, X, Y, scale in checks:
                    cnt['compared'] += 1
                    err = max(abs(X[i][j] - Y[i][j]) for i in range(K) for j in range(K))
                    if err > tol * max(scale, Fr(1, 10 ** 30)):
                        bad('varcovar', nm, {'max_abs_error_allowed': float(tol * scale)}, {'max_abs_error': float(err)},
                            'varCovar is not the pseudo-inverse of -H')
                if c['kind'] in ('negdef', 'indefinite', 'badscale', 'estimated'):
                    Vx = inv_exact(A)
                    if Vx is not None:
                        # A is exactly invertible: V.A = I in exact rationals.  A backward-stable SVD inverse has
                        # |V.A - I| <~ K eps cond(A); tolerance 1000 * 2^-52 * |A|_F |A^-1|_F with the EXACT inverse
                        # (independent of the reported V, so a truncated pseudo-inverse cannot shrink it)
                        kx = max(1.0, fro(A) * fro(Vx))
                        tolI = Fr(1000 * 2.0 ** -52 * kx)
                        cnt['compared'] += 1
                        VAm = mm(V, A)
                        err = max(abs(VAm[i][j] - (1 if i == j else 0)) for i in range(K) for j in range(K))
                        if err > tolI:
                            bad('varcovar', 'inverse[varCovar.(-H) = I]', {'max_abs_error_allowed': float(tolI), 'cond': kx},
                                {'max_abs_error': float(err)},
                                '-H is invertible but varCovar is not its inverse')
                        cnt['compared'] += 1
                        err = max(abs(Vx[i][j] - V[i][j]) for i in range(K) for j in range(K))
                        if err > tol * mmax(Vx):
                            bad('varcovar', 'exact_inverse[varCovar = (-H)^-1]', {'max_abs_error_allowed': float(tol * mmax(Vx))},
                                {'max_abs_error': float(err)})
            # robust: V.B.V from the implementation's own V
            Vr = getmat('robust_varCovar')
            if Vr is None:
                if on('sandwich'):
                    bad('sandwich', 'robust_varCovar', 'a finite K x K matrix', M.get('robust_varCovar'))
            else:
                fam['robust_'] = Vr
                if on('sandwich'):
                    X = mm(V, mm(Bm, V))
                    S = mm(mabs(V), mm(mabs(Bm), mabs(V)))
                    for i in range(K):
                        for j in range(K):
                            cmp('sandwich', f'robust_varCovar[{i},{j}]', Vr[i][j], X[i][j], rel=Fr(0),
                                abs_=TAU * S[i][j] + Fr(1, 10 ** 300))
        if have_boot:
            Vb = getmat('bootstrap_varCovar')
            if Vb is None:
                if on('bootcov'):
                    bad('bootcov', 'bootstrap_varCovar', 'a finite K x K matrix', M.get('bootstrap_varCovar'))
            else:
                fam['bootstrap_'] = Vb
                if on('bootcov'):
                    X = [[F(v) for v in r] for r in c['boot']]
                    R = len(X)
                    mean = [sum(X[k][i] for k in range(R)) / R for i in range(K)]
                    for i in range(K):
                        for j in range(K):
                            cov = sum((X[k][i] - mean[i]) * (X[k][j] - mean[j]) for k in range(R)) / (R - 1)
                            scale = sum((abs(X[k][i]) + abs(mean[i])) * (abs(X[k][j]) + abs(mean[j])) for k in range(R)) / (R - 1)
                            cmp('bootcov', f'bootstrap_varCovar[{i},{j}]', Vb[i][j], cov, rel=Fr(0),
                                abs_=TAU * scale + Fr(1, 10 ** 300), note='sample covariance, ddof = 1')
    # a matrix of a family the raw outcome does not hold must not be reported (fresh RawResults: attribute absent)
    absent = []
    if not have_H:
        absent += [('varcovar', 'varCovar'), ('correlation', 'correlation'), ('sandwich', 'robust_varCovar'),
                   ('correlation', 'robust_correlation')]
    if not have_boot:
        absent += [('bootcov', 'bootstrap_varCovar'), ('correlation', 'bootstrap_correlation')]
    for g_, k_ in absent:
        if on(g_):
            cnt['compared'] += 1
            if M.get(k_) is not None:
                bad(g_, k_, None, M.get(k_) if isinstance(M.get(k_), dict) else [r_[:3] for r_ in M.get(k_)[:3]],
                    'no matrix for this family' if k_[:4] != 'boot' else 'no bootstrap sample was given')
    if not have_boot and on('tables') and 'bootvar' in out:
        cnt['compared'] += 1
        if out['bootvar'] is not None:
            bad('bootcov', 'bootstrap_get_bootstrap_var_covar', None, out['bootvar'], 'no bootstrap sample was given')

    # ---------------------------------------------------------------- the three families
    FAMS = [('', 'classical'), ('robust_', 'robust'), ('bootstrap_', 'bootstrap')]
    for pfx, fname in FAMS:
        mtx = fam[pfx]
        for i, bo in enumerate(out['betas']):
            se, t, p = F(bo[pfx + 'stdErr']), F(bo[pfx + 'tTest']), F(bo[pfx + 'pValue'])
            if i == 0 and pfx == '':
                pass
            if on('family'):
                cnt['compared'] += 1
                if not close(F(bo['value']), beta[i]):
                    bad('family', f'value[{names[i]}]', beta[i], F(bo['value']))
            if mtx is None:
                expect_none = not have_H or (pfx == 'bootstrap_' and not have_boot)
                if expect_none:
                    for q, v in (('stdErr', se), ('tTest', t), ('pValue', p)):
                        cmp('family', f'{pfx}{q}[{names[i]}]', v, None, note='no matrix for this family')
                continue
            d = mtx[i][i]
            if d < 0:
                cnt['convention'] += 1          # sqrt of a negative variance is undefined: the code reports fmax
                cmp('family', f'{pfx}stdErr[{names[i]}]', se, Fr(FMAX), note='negative variance: code convention fmax')
            else:
                cmp('family', f'{pfx}stdErr[{names[i]}]', se, fsqrt(d), abs_=Fr(1, 10 ** 300),
                    note=f'sqrt of the diagonal of the {fname} matrix')
            if isnum(se):
                if se == 0:
                    cnt['convention'] += 1      # t undefined: code convention fmax
                    cmp('family', f'{pfx}tTest[{names[i]}]', t, Fr(FMAX), note='zero standard error: code convention fmax')
                else:
                    cmp('family', f'{pfx}tTest[{names[i]}]', t, beta[i] / se, abs_=Fr(1, 10 ** 300),
                        note=f't = value / {fname} standard error')
            if isnum(t):
                cmp('pvalue', f'{pfx}pValue[{names[i]}]', p, phi_p(t), abs_=P_ABS,
                    note=f'p = 2(1 - Phi(|t|)) with the {fname} t')

    # ---------------------------------------------------------------- correlations and pairwise tests
    sot = out.get('secondOrderTable')
    sot_map = {}
    if not have_H and on('pairwise'):
        cnt['compared'] += 1
        if sot:
            bad('pairwise', 'secondOrderTable', None, sot[:2], 'no matrix for this family')
    if have_H and fam[''] is not None and fam['robust_'] is not None:
        if sot is None:
            if on('pairwise'):
                bad('pairwise', 'secondOrderTable', 'a table', None)
        else:
            for a, b, vals in sot:
                sot_map[(a, b)] = [F(v) for v in vals]
            want_keys = [(names[i], names[j]) for i in range(K) for j in range(i)]
            if on('pairwise'):
                cnt['compared'] += 1
                if list(sot_map) != want_keys:
                    bad('pairwise', 'secondOrderTable keys', want_keys, list(sot_map))
        fam_list = [('', 0, 'correlation'), ('robust_', 4, 'robust_correlation')]
        if have_boot and fam['bootstrap_'] is not None:
            fam_list.append(('bootstrap_', 8, 'bootstrap_correlation'))
        for pfx, off, ckey in fam_list:
            mtx = fam[pfx]
            Cm = M.get(ckey)
            Cm = None if Cm is None or isinstance(Cm, dict) else [[F(v) for v in r] for r in Cm]
            allpos = all(mtx[i][i] > 0 for i in range(K))
            if Cm is None:
                if on('correlation'):
                    bad('correlation', ckey, 'a matrix', M.get(ckey))
            else:
                for i in range(K):
                    for j in range(K):
                        if allpos:
                            e = mtx[i][j] / (fsqrt(mtx[i][i]) * fsqrt(mtx[j][j]))
                            cmp('correlation', f'{ckey}[{i},{j}]', Cm[i][j], e, abs_=Fr(1, 10 ** 15),
                                note='covariance / (se_i se_j)')
                        else:
                            cnt['convention'] += 1
                            cmp('correlation', f'{ckey}[{i},{j}]', Cm[i][j], Fr(FMAX),
                                note='a non-positive variance: code convention fmax everywhere')
            for i in range(K):
                for j in range(i):
                    row = sot_map.get((names[i], names[j]))
                    if row is None or len(row) < off + 4:
                        if on('pairwise') and sot is not None:
                            bad('pairwise', f'secondOrderTable[{names[i]},{names[j]}]', f'>= {off + 4} entries', row)
                        continue
                    cmp('pairwise', f'{pfx}cov[{names[i]},{names[j]}]', row[off], mtx[i][j], rel=Fr(1, 10 ** 12))
                    if Cm is not None and isnum(Cm[i][j]):
                        cmp('pairwise', f'{pfx}corr[{names[i]},{names[j]}]', row[off + 1], Cm[i][j], rel=Fr(1, 10 ** 12))
                    r = mtx[i][i] + mtx[j][j] - 2 * mtx[i][j]
                    S = abs(mtx[i][i]) + abs(mtx[j][j]) + 2 * abs(mtx[i][j])
                    t = row[off + 2]
                    if abs(r) <= TAU * S:
                        cnt['undecided'] += 1     # radicand within rounding noise of zero: either branch is legitimate
                    elif r < 0:
                        cnt['convention'] += 1
                        cmp('pairwise', f'{pfx}t[{names[i]},{names[j]}]', t, Fr(FMAX), note='negative radicand: code convention fmax')
                    else:
                        rel = TAU + Fr(4 * 2.3e-16) * S / r
                        cmp('pairwise', f'{pfx}t[{names[i]},{names[j]}]', t, (beta[i] - beta[j]) / fsqrt(r), rel=rel,
                            abs_=Fr(1, 10 ** 300), note='(b_i - b_j) / sqrt(v_ii + v_jj - 2 v_ij)')
                    if isnum(t):
                        cmp('pvalue', f'{pfx}p[{names[i]},{names[j]}]', row[off + 3], phi_p(t), abs_=P_ABS,
                            note='p = 2(1 - Phi(|t|)) of the pairwise test')

    # ---------------------------------------------------------------- tabular views
    bo_of = {bo['name']: bo for bo in out['betas']}

    def cell_ok(obs, exp):
        """a table cell must hold the quantity its label names (value already validated above)"""
        if exp is None:
            return obs is None or obs == 'nan' or obs == {'str': ''}
        if isinstance(exp, str) and exp in ('nan', 'inf', '-inf'):
            return obs == exp
        return close(F(obs), exp, rel=Fr(1, 10 ** 12))

    def table(group, key, want_cols, want_rows, cellfn):
        if not on(group):
            return
        t = out.get(key)
        cnt['compared'] += 1
        if t is None or is_exc(t):
            bad(group, key, 'a table', t)
            return
        if t['columns'] != want_cols:
            bad(group, f'{key} columns', want_cols, t['columns'])
            return
        if t['index'] != want_rows:
            bad(group, f'{key} rows', want_rows, t['index'])
            return
        for r in want_rows:
            for col in want_cols:
                cnt['compared'] += 1
                e = cellfn(r, col)
                if not cell_ok(t['cells'][r][col], e):
                    bad(group, f'{key}[{r}, {col}]', e, F(t['cells'][r][col]), 'the cell does not hold the quantity its label names')

    anyact = any(act)
    R = len(c['boot']) if have_boot else None
    colmap = {'Value': 'value', 'Std err': 'stdErr', 't-test': 'tTest', 'p-value': 'pValue',
              'Rob. Std err': 'robust_stdErr', 'Rob. t-test': 'robust_tTest', 'Rob. p-value': 'robust_pValue',
              'Bootstrap t-test': 'bootstrap_tTest', 'Bootstrap p-value': 'bootstrap_pValue'}
    if R is not None:
        colmap[f'Bootstrap[{R}] Std err'] = 'bootstrap_stdErr'

    def est_cell(r, col):
        if col == 'Active bound':
            return Fr(1) if act[names.index(r)] else Fr(0)
        return F(bo_of[r][colmap[col]])

    rob = ['Rob. Std err', 'Rob. t-test', 'Rob. p-value']
    cls = ['Std err', 't-test', 'p-value']
    ab = ['Active bound'] if anyact else []
    table('tables', 'est_robust', ['Value'] + ab + rob, names, est_cell)
    cols_all = ['Value'] + ab + cls + rob
    if c.get('boot') is not None and R is not None:
        cols_all += [f'Bootstrap[{R}] Std err', 'Bootstrap t-test', 'Bootstrap p-value']
    table('tables', 'est_all', cols_all, names, est_cell)
    if have_H and sot is not None:
        ccols = ['Covariance', 'Correlation', 't-test', 'p-value', 'Rob. cov.', 'Rob. corr.', 'Rob. t-test', 'Rob. p-value']
        if have_boot:
            ccols += ['Boot. cov.', 'Boot. corr.', 'Boot. t-test', 'Boot. p-value']
        rows = [f'{names[i]}-{names[j]}' for i in range(K) for j in range(i)]
        rowkey = {f'{names[i]}-{names[j]}': (names[i], names[j]) for i in range(K) for j in range(i)}

        def corr_cell(r, col):
            v = sot_map.get(rowkey[r])
            k = ccols.index(col)
            return None if v is None or k >= len(v) else v[k]
        table('tables', 'corr', ccols, rows, corr_cell)
        for key, mk in (('var', 'varCovar'), ('robvar', 'robust_varCovar')) + ((('bootvar', 'bootstrap_varCovar'),) if have_boot else ()):
            mtx = getmat(mk)
            if mtx is not None:
                table('tables', key, names, names, lambda r, col, mtx=mtx: mtx[names.index(r)][names.index(col)])
    # general statistics: label -> quantity
    if on('tables'):
        gs = out.get('general')
        cnt['compared'] += 1
        if gs is None or is_exc(gs):
            bad('tables', 'general statistics', 'a dict', gs)
        else:
            want = [('Number of estimated parameters', Fr(K), '')]
            nf = K - sum(act)
            if nf != K:
                want.append(('Number of free parameters', Fr(nf), ''))
            want.append(('Sample size', Fr(N), ''))
            if N != nobs:
                want.append(('Observations', Fr(nobs), ''))
            want.append(('Excluded observations', Fr(c.get('excluded', 0)), ''))
            if Lnull is not None:
                want.append(('Null log likelihood', Lnull, '.7g'))
            want.append(('Init log likelihood', L0, '.7g'))
            want.append(('Final log likelihood', L, '.7g'))
            if Lnull is not None:
                want += [('Likelihood ratio test for the null model', sc['likelihoodRatioTestNull'], '.7g'),
                         ('Rho-square for the null model', sc['rhoSquareNull'], '.3g'),
                         ('Rho-square-bar for the null model', sc['rhoBarSquareNull'], '.3g')]
            want += [('Likelihood ratio test for the init. model', sc['likelihoodRatioTest'], '.7g'),
                     ('Rho-square for the init. model', sc['rhoSquare'], '.3g'),
                     ('Rho-square-bar for the init. model', sc['rhoBarSquare'], '.3g'),
                     ('Akaike Information Criterion', sc['akaike'], '.7g'),
                     ('Bayesian Information Criterion', sc['bayesian'], '.7g'),
                     ('Final gradient norm', sc['gradientNorm'], '.4E')]
            tail = []
            if c.get('monte_carlo'):
                tail += ['Number of draws', 'Draws generation time', 'Types of draws']
            if c.get('boot') is not None:
                tail += ['Bootstrapping time']
            tail += ['Nbr of threads']
            labels = [w[0] for w in want] + tail
            if list(gs) != labels:
                bad('tables', 'general statistics labels', labels, list(gs))
            else:
                for lab, val, fmt in want:
                    cnt['compared'] += 1
                    if not cell_ok(gs[lab]['value'], val) or gs[lab]['format'] != fmt:
                        bad('tables', f'general statistics[{lab}]', [val, fmt], [F(gs[lab]['value']), gs[lab]['format']],
                            'the entry does not hold the quantity its label names')
    # ---------------------------------------------------------------- compile_estimation_results
    if on('compile'):
        gstat = {'Number of estimated parameters': Fr(K), 'Sample size': Fr(N), 'Final log likelihood': L,
                 'Akaike Information Criterion': sc['akaike'], 'Bayesian Information Criterion': sc['bayesian']}
        for s_ in (0, 1):
            for t_ in (0, 1):
                key = f'compile_raw_{s_}{t_}'
                rows, exp = list(DEFAULT_STATS), dict(gstat)
                for nm in names:
                    rows.append(nm)
                    exp[nm] = F(bo_of[nm]['value'])
                    if s_:
                        rows.append(f'{nm} (std)')
                        exp[f'{nm} (std)'] = F(bo_of[nm]['robust_stdErr'])
                    if t_:
                        rows.append(f'{nm} (ttest)')
                        exp[f'{nm} (ttest)'] = F(bo_of[nm]['robust_tTest'])
                table('compile', key, ['M'], rows, lambda r, col, exp=exp: exp[r])
                key = f'compile_fmt_{s_}{t_}'
                t = out.get(key)
                cnt['compared'] += 1
                if t is None or is_exc(t):
                    bad('compile', key, 'a table', t)
                    continue
                rows = list(DEFAULT_STATS) + [nm + (' (std)' if s_ else '') + (' (t-test)' if t_ else '') for nm in names]
                if t['index'] != rows or t['columns'] != ['M']:
                    bad('compile', f'{key} rows', rows, t['index'])
                    continue
                for nm, r in zip(names, rows[len(DEFAULT_STATS):]):
                    cell = t['cells'][r]['M']
                    txt = cell.get('str') if isinstance(cell, dict) else None
                    parts = txt.split(' ') if isinstance(txt, str) else None
                    cnt['compared'] += 1
                    if parts is None or len(parts) != 3:
                        bad('compile', f'{key}[{r}]', "'<value> <(std)> <(t-test)>'", cell)
                        continue
                    exps = [(parts[0], F(bo_of[nm]['value']), True, False),
                            (parts[1], F(bo_of[nm]['robust_stdErr']), bool(s_), True),
                            (parts[2], F(bo_of[nm]['robust_tTest']), bool(t_), True)]
                    for txtv, e, shown, paren in exps:
                        ok = True
                        if e is None and paren:
                            ok = txtv == '(???)'
                        elif not shown:
                            ok = txtv == ''
                        else:
                            body = txtv[1:-1] if paren and txtv.startswith('(') and txtv.endswith(')') else (None if paren else txtv)
                            try:
                                v = float(body)
                                # 3 significant digits: relative error of the printed number <= 5.1e-3
                                ok = (abs(v - float(e)) <= 5.1e-3 * abs(float(e)) + 1e-300) or (abs(float(e)) > 1e308 and v == float('inf'))
                            except Exception:
                                ok = False
                        if not ok:
                            bad('compile', f'{key}[{r}]', {'value': float(F(bo_of[nm]['value'])) if isnum(F(bo_of[nm]['value'])) else None,
                                                         'robust_stdErr': None if exps[1][1] is None else float(exps[1][1]),
                                                         'robust_tTest': None if exps[2][1] is None else float(exps[2][1])},
                                txt, 'formatted cell does not show value (robust std err) (robust t-test)')
                            break
    # ---------------------------------------------------------------- likelihood-ratio test
    if on('lr') and c.get('lr_with') is not None:
        o = c['lr_with']
        lr = out.get('lr')
        if lr is None or 'other' in lr:
            bad('lr', 'likelihood_ratio_test', 'a result', lr)
        else:
            Lo, Ko = F(o['L']), len(o['names'])
            for key, r in lr.items():
                who, alpha = key.split('@')
                al = Fr(float.fromhex(alpha))
                cnt['compared'] += 1
                if L == Lo or K == Ko:
                    # tie of the likelihoods or of the numbers of parameters: no restricted/unrestricted pair is
                    # defined (df = 0 or statistic = 0); the code refuses some of these and answers others --
                    # only the statistic is checked when it answers.
                    cnt['undecided'] += 1
                    if not is_exc(r) and not close(F(r['statistic']), 2 * abs(L - Lo), abs_=Fr(1, 10 ** 300)):
                        bad('lr', f'statistic[{key}]', 2 * abs(L - Lo), F(r['statistic']))
                    continue
                (Lu, Ku), (Lr_, Kr) = ((L, K), (Lo, Ko)) if L > Lo else ((Lo, Ko), (L, K))
                if Ku < Kr:
                    if not is_exc(r) or r['exc'] != 'BiogemeError':
                        bad('lr', f'refusal[{key}]', 'BiogemeError (the model with more parameters fits worse)', r)
                    continue
                if is_exc(r):
                    bad('lr', f'result[{key}]', {'statistic': float(-2 * (Lr_ - Lu)), 'df': Ku - Kr}, r)
                    continue
                st_, th = F(r['statistic']), F(r['threshold'])
                if not close(st_, -2 * (Lr_ - Lu)):
                    bad('lr', f'statistic[{key}]', -2 * (Lr_ - Lu), st_, '-2 (L_r - L_u)')
                if not isnum(th) or abs(chi2_cdf(float(th), Ku - Kr) - (1 - float(al))) > 1e-9:
                    bad('lr', f'threshold[{key}]', f'chi2 quantile {1 - float(al)} with df = K_u - K_r = {Ku - Kr}',
                        th, 'chi2 CDF (closed form) at the threshold differs from 1 - alpha')
                elif isnum(st_):
                    msg = ('H0 cannot be rejected' if st_ <= th else 'H0 can be rejected') + f' at level {100 * float(al):.1f}%'
                    if r['message'] != msg:
                        bad('lr', f'message[{key}]', msg, r['message'])
    return ms, cnt


# ------------------------------------------------------------------ running the stream
def load_corpus():
    import glob
    cs = []
    for p in sorted(glob.glob('/verif/corpus/C08/*.json')):
        try:
            d = json.load(open(p))
        except Exception:
            continue
        for c in (d if isinstance(d, list) else [d]):
            c = dict(c)
            c['corpus'] = p.split('/')[-1]
            cs.append(c)
    return cs


def run_impl(ctx, cases, only=None):
    if not cases:
        return []
    nb = min(len(cases), 16 if len(cases) >= 32 else 1)
    chunks = [cases[i::nb] for i in range(nb)]
    res = ctx.impl_parallel('c08_stats.py', [{'cases': ch, 'only': only} for ch in chunks],
                            extra_env={'PYTHONPATH': REPO_ROOT + '/src'})
    out = [None] * len(cases)
    for b, r in enumerate(res):
        for k, o in enumerate(r):
            out[b + k * nb] = o
    return out


def witness_of(c):
    w = {k: v for k, v in c.items()}
    if c.get('history'):
        w['readable_history'] = [{'update': u, 'entry_point': m_, **_readable(h)}
                                 for u, m_, h in zip(c.get('whats', ['?'] * len(c['history'])), c['modes'], c['history'])]
    w['readable'] = _readable(c)
    return w


def _readable(c):
    return {
        'betas': [float.fromhex(b) for b in c['betas']],
        'L': float.fromhex(c['L']), 'L0': None if c['L0'] is None else float.fromhex(c['L0']),
        'Lnull': None if c['Lnull'] is None else float.fromhex(c['Lnull']),
        'H': None if c['H'] is None else [[float.fromhex(v) for v in r] for r in c['H']],
        'bhhh': None if c['B'] is None else [[float.fromhex(v) for v in r] for r in c['B']],
        'bootstrap': None if c.get('boot') is None else [[float.fromhex(v) for v in r] for r in c['boot']],
    }


HOW = ('build RawResults from the witness (lib/impl/c08_stats.py: build_raw) and bioResults on it; for a history apply each '
       'step with apply_raw / next_results of the same file; '
       './check C08 --replay <this file>')


def report(ctx, c, ms, limit_per_case=3):
    """one violation per (group, quantity class) of a case"""
    seen = set()
    for m in sorted(ms, key=lambda m_: m_.group == 'stale'):
        qclass = m.quantity.split('[')[0].strip()
        k = (m.group, qclass)
        if k in seen or len(seen) >= limit_per_case:
            continue
        seen.add(k)
        j = m.as_json()
        if m.group == 'construct':
            what = (f'bioResults raises {j["observed"].get("exc")} on a valid raw outcome (K = {len(c["names"])}, '
                    f'bootstrap sample: {"yes" if c.get("boot") else "no"}): no statistic is reported at all')
        elif m.group == 'stale':
            what = (f'{m.quantity}: a report built from an already processed raw outcome still shows figures of a matrix the '
                    f'raw outcome no longer holds' + (f' ({m.note})' if m.note else ''))
        else:
            what = (f'{m.quantity}: reported value differs from its defining formula' + (f' ({m.note})' if m.note else ''))
        ctx.violation(f'C08/stats/{m.group}/{qclass}', what, witness_of(c), j['expected'], j['observed'], HOW)


def stream_stats(ctx, n, focus=None, groups=None, name='stats', with_corpus=True):
    st = ctx.stream(name, 'synthetic raw outcomes (K = 1..6; Hessian negative definite / singular / zero row / indefinite / '
                    'invertible but badly scaled (cond <= 1e10, smallest eigenvalue < 5e-6) / '
                    'absent; random PSD BHHH; with and without null likelihood, bounds, bootstrap sample, second model for '
                    'the LR test) through bioResults; every reported number compared with its defining formula in exact '
                    'rational arithmetic (relative tolerance 1e-9, condition-scaled for the matrix identities); '
                    'non-trivial = Hessian present; distinct by the full raw input')
    rng = ctx.sub_rng(name + (':' + focus if focus else ''))
    cases = (load_corpus() if with_corpus else []) + gen_cases(rng, n, focus, kmax=6 if ctx.quick else 8)
    only = None
    outs = run_impl(ctx, cases, only)
    tot = {'compared': 0, 'undecided': 0, 'convention': 0}
    dist = {}
    nviol_cases = 0
    for c, o in zip(cases, outs):
        st.record({k: c[k] for k in ('names', 'betas', 'L', 'L0', 'Lnull', 'N', 'H', 'B', 'boot') if k in c},
                  nontrivial=c['H'] is not None)
        key = f"K={len(c['names'])}/{c.get('kind', '?')}/boot={'y' if c.get('boot') else 'n'}/null={'y' if c['Lnull'] else 'n'}"
        dist[key] = dist.get(key, 0) + 1
        ms, cnt = check_any(c, o, groups)
        for k in tot:
            tot[k] += cnt[k]
        if ms:
            nviol_cases += 1
            if nviol_cases <= 40:
                report(ctx, c, ms)
    st.extra.setdefault('comparisons', 0)
    st.extra['comparisons'] += tot['compared']
    st.extra['undecided_radicand_or_degenerate_lr'] = st.extra.get('undecided_radicand_or_degenerate_lr', 0) + tot['undecided']
    st.extra['code_convention_cases'] = st.extra.get('code_convention_cases', 0) + tot['convention']
    st.extra['cases_with_mismatch'] = st.extra.get('cases_with_mismatch', 0) + nviol_cases
    by = {}
    for k, v in dist.items():
        for part in k.split('/'):
            by[part] = by.get(part, 0) + v
    st.extra['distribution'] = dict(sorted(by.items()))
    # fail closed when the generator degenerates
    if n >= 100 and not groups:
        need = ['K=1', 'K=2', 'K=6', 'negdef', 'singular', 'indefinite', 'zero_row', 'badscale', 'none', 'boot=y', 'boot=n', 'null=y', 'null=n']
        missing = [k for k in need if by.get(k, 0) == 0]
        if missing:
            ctx.stream_broken(name, f'generator coverage floor not met: no case with {missing}')
    ctx.notes['_c08_last'] = (cases, outs)
    return nviol_cases


def stream_history(ctx, n, focus=None, groups=None):
    """histories of ONE raw-outcome object: reported, updated, reported again (see gen_history_case)"""
    st = ctx.stream('history', 'a raw outcome is reported, then 1-3 times UPDATED (Hessian / Hessian+BHHH / BHHH / bootstrap / '
                    'likelihoods and sizes / estimates / everything / nothing replaced, matrices may appear or disappear) '
                    'and reported again through bioResults(the same object | a deep copy | write_pickle + pickle_file= before or '
                    'after the update | a plain pickle copy); EVERY report of the history is checked by the oracle of stream '
                    'stats against the raw inputs held at that step; non-trivial = some step changes a raw input; distinct by '
                    'the full history')
    rng = ctx.sub_rng('history' + (':' + focus if focus else ''))
    cases = [gen_history_case(rng, 6 if ctx.quick else 8, focus) for _ in range(n)]
    outs = run_impl(ctx, cases)
    nbad, modes, whats, steps, comps = 0, {}, {}, 0, 0
    for c, o in zip(cases, outs):
        st.record({'first': {k: c[k] for k in ('names', 'betas', 'L', 'H', 'B', 'boot')}, 'modes': c['modes'],
                   'updates': c['whats'], 'history': [{k: h[k] for k in ('betas', 'L', 'L0', 'Lnull', 'N', 'H', 'B', 'boot')}
                                                      for h in c['history']]},
                  nontrivial=any(w != 'nothing' for w in c['whats']))
        for m_, w in zip(c['modes'], c['whats']):
            modes[m_] = modes.get(m_, 0) + 1
            whats[w] = whats.get(w, 0) + 1
        steps += len(c['history'])
        ms, cnt = check_any(c, o, groups)
        comps += cnt['compared']
        if ms:
            nbad += 1
            if nbad <= 40:
                report(ctx, c, ms)
    st.extra.update({'steps': st.extra.get('steps', 0) + steps, 'comparisons': st.extra.get('comparisons', 0) + comps,
                     'entry_points': modes, 'updates': whats,
                     'cases_with_mismatch': st.extra.get('cases_with_mismatch', 0) + nbad})
    if n >= 60 and not groups:
        missing = [m_ for m_ in set(MODES) if not modes.get(m_)] + [w for w in set(STEP_KINDS) if not whats.get(w)]
        if missing:
            ctx.stream_broken('history', f'generator coverage floor not met: no step with {missing}')
    return nbad


def stream_estimated(ctx):
    """real estimations (binary logit, seeded synthetic data, bootstrap, null likelihood) through the same oracle"""
    st = ctx.stream('estimated', 'real estimations of a binary logit (2-4 parameters, 120-400 observations, 6-10 bootstrap '
                    'replications, null log likelihood, LR test against the 2-parameter model); the raw outcome stored in '
                    'results.data is the input of the same oracle as stream stats; non-trivial = always')
    rng = ctx.sub_rng('estimated')
    jobs = [{'seed': rng.randint(1, 10 ** 6), 'n': rng.choice([120, 200, 400]), 'k': rng.choice([3, 4]),
             'bootstrap': rng.choice([6, 10])} for _ in range(ctx.n(1, 6))]
    res = ctx.impl_parallel('c08_estimate.py', jobs, extra_env={'PYTHONPATH': REPO_ROOT + '/src'})
    for job, r in zip(jobs, res):
        if 'error' in r:
            ctx.stream_broken('estimated', f'estimation failed for {job}: {r["error"]} {r.get("trace", "")[-400:]}')
            continue
        c, o = r['case'], r['out']
        st.record({'job': job, 'names': c['names'], 'betas': c['betas'], 'L': c['L']}, nontrivial=True)
        ms, cnt = check_case(c, o)
        st.extra['comparisons'] = st.extra.get('comparisons', 0) + cnt['compared']
        if ms:
            c = dict(c)
            c['estimation_job'] = job
            report(ctx, c, ms)


def coq_str(s):
    return '"' + s.replace('"', '""') + '"%string'


def stream_rows(ctx, cases, outs):
    """tie A validation: the generated `compile_rows` (vm_compute) against the rows and cells the implementation
    produced for compile_estimation_results(formatted=False)"""
    st = ctx.stream('rows', 'generated compile_rows evaluated in Coq vs the implementation table: same row labels in the '
                    'same order, and each cell equals the Beta attribute the generated definition names (attributes '
                    'with equal values are indistinguishable and accepted); non-trivial = Hessian present')
    items, meta = [], []
    for c, o in zip(cases, outs):
        if len(items) >= ctx.n(120, 400) or not isinstance(o, dict) or 'betas' not in o:
            continue
        if not all(32 <= ord(ch) < 127 for nm in c['names'] for ch in nm):
            continue
        for s_ in (0, 1):
            for t_ in (0, 1):
                t = o.get(f'compile_raw_{s_}{t_}')
                if not isinstance(t, dict) or 'index' not in t:
                    continue
                rows = t['index'][len(DEFAULT_STATS):]
                cand = []
                bo_of = {b['name']: b for b in o['betas']}
                ok = True
                for r in rows:
                    cell = t['cells'][r].get('M')
                    owner = next((nm for nm in sorted(c['names'], key=len, reverse=True) if r == nm or r.startswith(nm + ' (')), None)
                    if owner is None:
                        ok = False
                        break
                    fields = []
                    for f in BETA_STATE + ['value']:
                        v = F(bo_of[owner].get(f))
                        if (v is None and (cell is None or cell == {'str': ''} or cell == 'nan')) or \
                                (isnum(v) and close(F(cell), v, rel=Fr(1, 10 ** 12))):
                            fields.append('F_' + f)
                    cand.append('[' + '; '.join(fields) + ']')
                if not ok:
                    continue
                items.append(f'({"true" if s_ else "false"}, {"true" if t_ else "false"}, '
                             f'[{"; ".join(coq_str(n) for n in c["names"])}], [{"; ".join(coq_str(r) for r in rows)}], '
                             f'[{"; ".join(cand)}])')
                meta.append((c, s_, t_, rows))
                st.record({'names': c['names'], 'std': s_, 'ttest': t_, 'rows': rows}, nontrivial=c['H'] is not None)
    if not items:
        ctx.stream_broken('rows', 'no case available')
        return
    text = ('From BV Require Import Model.Stats Gen.Stats.\n'
            'Definition field_eqb (a b : beta_field) : bool :=\n'
            '  match a, b with F_name, F_name | F_value, F_value | F_lb, F_lb | F_ub, F_ub | F_stdErr, F_stdErr\n'
            '  | F_tTest, F_tTest | F_pValue, F_pValue | F_robust_stdErr, F_robust_stdErr | F_robust_tTest, F_robust_tTest\n'
            '  | F_robust_pValue, F_robust_pValue | F_bootstrap_stdErr, F_bootstrap_stdErr\n'
            '  | F_bootstrap_tTest, F_bootstrap_tTest | F_bootstrap_pValue, F_bootstrap_pValue => true | _, _ => false end.\n'
            'Fixpoint rows_ok (m : list (string * beta_field)) (lbl : list string) (cand : list (list beta_field)) : bool :=\n'
            '  match m, lbl, cand with\n'
            '  | [], [], [] => true\n'
            '  | (l, f) :: m, l2 :: lbl, c :: cand => String.eqb l l2 && existsb (field_eqb f) c && rows_ok m lbl cand\n'
            '  | _, _, _ => false end.\n'
            'Definition chk (x : bool * bool * list string * list string * list (list beta_field)) : bool :=\n'
            "  let '(s, t, names, lbl, cand) := x in rows_ok (flat_map (compile_rows s t) names) lbl cand.\n"
            'Definition cases := [\n' + ';\n'.join(items) + '].\n'
            'Eval vm_compute in (List.map chk cases).\n')
    ok, outp = ctx.coq_eval('rows', text)
    if not ok:
        ctx.stream_broken('rows', 'model evaluation failed: ' + outp[-600:])
        return
    from common import parse_bools
    bs = parse_bools(outp)
    if len(bs) != len(items):
        ctx.stream_broken('rows', f'could not parse model output ({len(bs)} results for {len(items)} cases)')
        return
    for b, (c, s_, t_, rows) in zip(bs, meta):
        if not b:
            st.disagree({'names': c['names'], 'std': s_, 'ttest': t_}, 'rows of the generated compile_rows', rows)
    if st.disagreements:
        ctx.stream_broken('rows', f'{len(st.disagreements)} disagreements, first: {st.disagreements[0]}')


LEMMA_GROUPS = [
    ('scalars', ['scalars']), ('set_std_err', ['family', 'pvalue']), ('set_robust', ['family', 'pvalue']),
    ('set_bootstrap', ['family', 'pvalue']), ('family', ['family', 'pvalue']), ('se_arg', ['family']),
    ('calc_p_value', ['pvalue']), ('p_range', ['pvalue']), ('p_decreasing', ['pvalue']), ('p_even', ['pvalue']),
    ('calculate_test', ['pairwise']), ('pairwise', ['pairwise']), ('radicand', ['pairwise', 'sandwich']),
    ('sandwich', ['sandwich']), ('varCovar', ['varcovar']), ('compile_rows', ['compile']),
    ('lr_test', ['lr']), ('results_lr', ['lr']), ('is_bound_active', ['bounds']),
    ('T08a', ['scalars']), ('T08b', ['family', 'pvalue']), ('T08c', ['pairwise']), ('T08d', ['sandwich', 'varcovar', 'pairwise']),
    ('T08e', ['pvalue']), ('T08f', ['compile']), ('T08g', ['lr']), ('T08h', ['bounds']),
    ('clear', ['family', 'pvalue', 'pairwise', 'bootcov', 'correlation', 'varcovar', 'sandwich']),
    ('process', ['family', 'pvalue', 'pairwise', 'bootcov', 'correlation', 'varcovar', 'sandwich']),
    ('T08i', ['family', 'pvalue', 'pairwise', 'bootcov', 'correlation', 'varcovar', 'sandwich']),
]
FOCUS_OF = {'scalars': 'scalars', 'family': 'bootstrap', 'pvalue': 'bootstrap', 'pairwise': 'pairwise', 'sandwich': 'sandwich',
            'varcovar': 'varcovar', 'compile': 'family', 'lr': 'lr', 'bounds': 'bounds'}


def groups_of(br):
    lemma = (br.failing_lemma or '') if br is not None else ''
    for key, gs in LEMMA_GROUPS:
        if key in lemma:
            return lemma, gs
    return lemma, None


def failing_input_search(ctx, br):
    """A proof obligation (or the tie) broke: run stream `stats` again, restricted to the quantities the broken
    lemma speaks about, on fresh inputs biased towards them (unless the full stream already produced a witness
    for one of these quantities)."""
    lemma, groups = groups_of(br)
    have = {v['key'].split('/')[2] for v in ctx.violations if v['key'].count('/') >= 2}
    note = {'broken_lemma': lemma or None, 'restricted_to': groups or 'all quantities'}
    ctx.notes['failing_input_search'] = note
    if (groups and have & set(groups)) or (not groups and have):
        note['skipped'] = 'the full stream already recorded a failing input for ' + ', '.join(sorted(have))
        return
    focus = FOCUS_OF.get(groups[0]) if groups else None
    note['cases_with_mismatch'] = stream_stats(ctx, ctx.n(400, 4000), focus=focus, groups=groups, name='stats',
                                               with_corpus=False)
    ctx.notes.pop('_c08_last', None)
    note['history_cases_with_mismatch'] = stream_history(ctx, ctx.n(80, 600), focus=focus, groups=groups)


def run(ctx):
    ctx.assumptions += ASSUME
    ctx.trusted += [
        'tie A: /verif/lib/py2v plus the specialised fail-closed extractors of lib/props/C08.py (narrowing of '
        '`is not None`, try/except ZeroDivisionError, scalar block of _calculate_stats, standard-error loops, '
        'matrix expressions, non-formatted rows of compile_estimation_results)',
        'the oracle of stream stats (lib/props/C08.py: check_case): exact Fractions + math.sqrt/erfc/log/exp/gamma; '
        'label -> quantity tables of the tabular views are written in the harness from the property text',
        'scipy.linalg.pinv/eigh/svd, numpy dot and np.cov are exercised, not verified (their outputs are checked '
        'exactly on the sampled inputs)',
    ]
    try:
        gen_all(ctx)
    except Untranslatable as e:
        ctx.tie_broken('py2v:Stats', str(e))
    br = ctx.build()
    stream_stats(ctx, ctx.n(320, 6400))
    cases, outs = ctx.notes.pop('_c08_last')
    if br.ok:
        stream_rows(ctx, cases, outs)
    stream_history(ctx, ctx.n(120, 1500))
    stream_estimated(ctx)
    if ctx.broken:
        failing_input_search(ctx, br if not br.ok else None)


def replay(ctx, path):
    w = json.load(open(path))
    wit = w.get('witness') if 'witness' in w else w      # a replay file, or a raw case of corpus/C08
    if not isinstance(wit, dict) or 'betas' not in wit or not isinstance(wit.get('betas'), list) \
            or not all(isinstance(b, str) for b in wit['betas']):
        print('replay: this file names an obligation/stream; re-run ./check C08')
        return 2
    out = run_impl(ctx, [wit])[0]
    ms, cnt = check_any(wit, out)
    print(json.dumps({'still_fails': bool(ms), 'mismatches': [m.as_json() for m in ms[:10]],
                      'comparisons': cnt['compared']}, default=str))
    return 1 if ms else 0
