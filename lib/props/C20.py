"""C20 -- every deprecated name behaves exactly like the function it points users to.

Tie A: a specialised, fail-closed `ast` extractor over the whole package /repo/src/biogeme
(re-run on every check) writes rocq/Gen/AliasTable.v:
  * the model of the two decorators of src/biogeme/deprecated.py (statement by statement for
    `deprecated`: the dispatch rule of the wrapper is *read from the source*),
  * one record per `@deprecated` alias, one per `@deprecated_parameters` use,
  * the class table (bases, C3 linearisation, final class dictionaries), the module-level bindings.
The theorems of Proofs/AliasP.v are about these generated tables (vm_compute, bound in the statement).

Tie B: streams `alias_enum` (static table == run-time enumeration of `__deprecated__` objects,
static MRO == `cls.__mro__`), `alias_reach` (the function really entered when an alias is called
on every exposing class == the model's `reach`), `alias_dyn` (old and new called side by side with
representative arguments: results, exceptions, files, mutated attributes, warnings), `kw_dyn`
(renamed keyword arguments).
"""
from __future__ import annotations

import ast
import json
import re
from pathlib import Path

from py2v import Untranslatable
from common import coq_string, coq_list, parse_bools, REPO

PKG_ROOT = REPO / 'src' / 'biogeme'
DEPR_MOD = 'biogeme.deprecated'

# ----------------------------------------------------------------------------------------------
# Reviewed exception tables (every entry justified)
# ----------------------------------------------------------------------------------------------
# Aliases whose name does NOT fold (lower-case, underscores removed) onto the replacement's name.
# Reviewed against the docstrings of both functions in /repo.
RENAMED = {
    # "Same as cnl. Maintained for backward compatibility": old API had cnl / cnl_avail as two
    # entry points (with / without availability); both are now `cnl` (probability, not log).
    ('biogeme.models.cnl', '', 'cnl_avail'): 'cnl',
    # "Same as logcnl. Maintained for backward compatibility": the *log* probability of the CNL.
    ('biogeme.models.cnl', '', 'logcnl_avail'): 'logcnl',
    # same three parameters (beta, segmentation_tuples, prefix), returns the segmented Beta
    # expression; `segmented_beta` is the documented new spelling.
    ('biogeme.segmentation', '', 'segment_parameter'): 'segmented_beta',
}

# Functions with **kwargs whose extra keywords are, by documented design, the names of the TOML
# parameters of biogeme.default_parameters (BIOGEME.__init__: "We allow the values of the
# parameters to be set with arguments").
KWARGS_ARE_TOML_PARAMETERS = {('biogeme.biogeme', 'BIOGEME', '__init__')}


# ----------------------------------------------------------------------------------------------
# Package scan
# ----------------------------------------------------------------------------------------------
class Module:
    def __init__(self, name, path, is_pkg):
        self.name = name
        self.path = path
        self.is_pkg = is_pkg
        self.tree = ast.parse(path.read_text(), filename=str(path))
        self.bind = []  # ordered top-level bindings: (name, lineno, kind, payload)
        self._collect(self.tree.body)

    def _abs_from(self, node):
        if node.level == 0:
            return node.module
        parts = self.name.split('.')
        if not self.is_pkg:
            parts = parts[:-1]
        if node.level > 1:
            parts = parts[: len(parts) - (node.level - 1)]
        return '.'.join(parts + ([node.module] if node.module else []))

    def _collect(self, body):
        for st in body:
            if isinstance(st, (ast.FunctionDef, ast.AsyncFunctionDef)):
                self.bind.append((st.name, st.lineno, 'def', st))
            elif isinstance(st, ast.ClassDef):
                self.bind.append((st.name, st.lineno, 'class', st))
            elif isinstance(st, ast.Import):
                for a in st.names:
                    if a.asname:
                        self.bind.append((a.asname, st.lineno, 'module', a.name))
                    else:
                        top = a.name.split('.')[0]
                        self.bind.append((top, st.lineno, 'module', top))
            elif isinstance(st, ast.ImportFrom):
                src = self._abs_from(st)
                for a in st.names:
                    if a.name == '*':
                        self.bind.append(('*', st.lineno, 'star', src))
                    else:
                        self.bind.append((a.asname or a.name, st.lineno, 'from', (src, a.name)))
            elif isinstance(st, (ast.Assign, ast.AnnAssign, ast.AugAssign)):
                targets = st.targets if isinstance(st, ast.Assign) else [st.target]
                for t in targets:
                    for n in ast.walk(t):
                        if isinstance(n, ast.Name):
                            self.bind.append((n.id, st.lineno, 'assign', st))
            elif isinstance(st, (ast.If, ast.Try, ast.With)):
                for sub in ('body', 'orelse', 'finalbody'):
                    self._collect(getattr(st, sub, []) or [])
                for h in getattr(st, 'handlers', []) or []:
                    self._collect(h.body)

    def lookup(self, name, before=None):
        """Last top-level binding of `name` (textually before line `before`)."""
        found = None
        for b in self.bind:
            if b[0] == name and (before is None or b[1] < before):
                found = b
        return found


class Package:
    def __init__(self, root=PKG_ROOT):
        self.root = Path(root)
        self.modules = {}
        for p in sorted(self.root.rglob('*.py')):
            relp = p.relative_to(self.root)
            parts = ['biogeme'] + list(relp.parts)
            is_pkg = parts[-1] == '__init__.py'
            parts = parts[:-1] if is_pkg else parts[:-1] + [parts[-1][:-3]]
            name = '.'.join(parts)
            try:
                self.modules[name] = Module(name, p, is_pkg)
            except SyntaxError as e:
                raise Untranslatable(f'cannot parse {p}: {e}')

    def resolve(self, modname, name, before=None, depth=0):
        """-> ('def'|'class', module, node) | ('module', dotted) | ('ext', dotted) | ('assign', module, node) | None"""
        if depth > 20:
            raise Untranslatable(f'import cycle while resolving {modname}.{name}')
        m = self.modules.get(modname)
        if m is None:
            return ('ext', f'{modname}.{name}')
        b = m.lookup(name, before)
        if b is None:
            # submodule of a package?
            if m.is_pkg and f'{modname}.{name}' in self.modules:
                return ('module', f'{modname}.{name}')
            for sb in m.bind:
                if sb[2] == 'star' and (before is None or sb[1] < before):
                    r = self.resolve(sb[3], name, None, depth + 1)
                    if r is not None and r[0] != 'ext':
                        return r
            return None
        _, _, kind, payload = b
        if kind in ('def', 'class', 'assign'):
            return (kind, modname, payload)
        if kind == 'module':
            return ('module', payload)
        if kind == 'from':
            src, nm = payload
            if src in self.modules:
                r = self.resolve(src, nm, None, depth + 1)
                if r is None:
                    raise Untranslatable(f'{modname}: cannot resolve `from {src} import {nm}`')
                return r
            return ('ext', f'{src}.{nm}')
        raise Untranslatable(f'unknown binding kind {kind}')

    def resolve_expr(self, modname, e, before=None):
        """Resolve a Name / dotted Attribute expression."""
        if isinstance(e, ast.Name):
            r = self.resolve(modname, e.id, before)
            if r is None:
                import builtins
                if hasattr(builtins, e.id):
                    return ('ext', f'builtins.{e.id}')
            return r
        if isinstance(e, ast.Attribute):
            base = self.resolve_expr(modname, e.value, before)
            if base is None:
                return None
            if base[0] == 'module':
                if base[1] in self.modules:
                    return self.resolve(base[1], e.attr, None)
                return ('ext', f'{base[1]}.{e.attr}')
            if base[0] == 'ext':
                return ('ext', f'{base[1]}.{e.attr}')
            return None
        if isinstance(e, ast.Subscript):  # Generic[T] and the like
            return self.resolve_expr(modname, e.value, before)
        return None


# ----------------------------------------------------------------------------------------------
# Functions, parameters
# ----------------------------------------------------------------------------------------------
def first_line(fn):
    return min([fn.lineno] + [d.lineno for d in fn.decorator_list])


def params_of(fn):
    a = fn.args
    out = []
    pos = list(a.posonlyargs) + list(a.args)
    nd = len(a.defaults)
    for i, p in enumerate(pos):
        d = a.defaults[i - (len(pos) - nd)] if i >= len(pos) - nd else None
        out.append({'name': p.arg, 'kind': 'PosOnly' if i < len(a.posonlyargs) else 'PosOrKw',
                    'default': ast.unparse(d) if d is not None else None})
    if a.vararg:
        out.append({'name': a.vararg.arg, 'kind': 'VarArg', 'default': None})
    for p, d in zip(a.kwonlyargs, a.kw_defaults):
        out.append({'name': p.arg, 'kind': 'KwOnly', 'default': ast.unparse(d) if d is not None else None})
    if a.kwarg:
        out.append({'name': a.kwarg.arg, 'kind': 'VarKw', 'default': None})
    return out


def deco_name(pkg, modname, d, before):
    """Classify one decorator expression -> (tag, call-node-or-None)."""
    target = d.func if isinstance(d, ast.Call) else d
    r = pkg.resolve_expr(modname, target, before)
    if r and r[0] == 'def' and r[1] == DEPR_MOD and r[2].name in ('deprecated', 'deprecated_parameters'):
        if not isinstance(d, ast.Call):
            raise Untranslatable(f'{modname}:{d.lineno}: @{r[2].name} used without arguments')
        return r[2].name, d
    txt = ast.unparse(target)
    if 'deprecated' in txt.split('.')[-1] and not (r and r[0] == 'ext'):
        raise Untranslatable(f'{modname}:{d.lineno}: decorator `{ast.unparse(d)}` mentions "deprecated" but does not '
                             f'resolve to biogeme.deprecated')
    if r and r[0] == 'ext':
        return r[1], d
    return txt, d


PLAIN_BINDERS = {'builtins.staticmethod': 'Static', 'builtins.classmethod': 'ClassM', 'builtins.property': 'Property'}
HARMLESS = {'abc.abstractmethod'}


class Extractor:
    def __init__(self, root=PKG_ROOT):
        self.pkg = Package(root)
        self.aliases = []
        self.kwuses = []
        self.classes = {}  # qual -> dict
        self.seen_deco_nodes = set()

    # -- one function definition ------------------------------------------------------------
    def describe_def(self, modname, owner, fn, scope_line):
        """owner: class name or ''.  Returns dict(kind, decos, alias_call, kw_call, fid)."""
        tags = []
        for d in fn.decorator_list:
            tags.append(deco_name(self.pkg, modname, d, scope_line))
        kind = 'Instance' if owner else 'ModuleLevel'
        alias_call = kw_call = None
        other = []
        for i, (tag, node) in enumerate(tags):
            if tag == 'deprecated':
                if alias_call is not None:
                    raise Untranslatable(f'{modname}:{fn.lineno}: two @deprecated on {fn.name}')
                alias_call = node
                self.seen_deco_nodes.add(id(node))
                if any(t in PLAIN_BINDERS for t, _ in tags[i + 1:]):
                    raise Untranslatable(f'{modname}:{fn.lineno}: @deprecated applied outside @staticmethod/@classmethod '
                                         f'on {fn.name} (the wrapper would receive a descriptor)')
            elif tag == 'deprecated_parameters':
                if kw_call is not None:
                    raise Untranslatable(f'{modname}:{fn.lineno}: two @deprecated_parameters on {fn.name}')
                kw_call = node
                self.seen_deco_nodes.add(id(node))
            elif tag in PLAIN_BINDERS:
                if not owner:
                    raise Untranslatable(f'{modname}:{fn.lineno}: {tag} on a module-level function')
                if i != 0:
                    raise Untranslatable(f'{modname}:{fn.lineno}: {tag} is not the outermost decorator of {fn.name}')
                kind = PLAIN_BINDERS[tag]
            elif tag in HARMLESS:
                pass
            else:
                other.append(tag)
        return {'kind': kind, 'alias_call': alias_call, 'kw_call': kw_call, 'other': other,
                'fid': {'mod': modname, 'owner': owner, 'name': fn.name, 'line': first_line(fn)}}

    @staticmethod
    def single_arg(call, kwname, what):
        if len(call.args) + len(call.keywords) != 1:
            raise Untranslatable(f'{what}: expected exactly one argument')
        if call.args:
            return call.args[0]
        if call.keywords[0].arg != kwname:
            raise Untranslatable(f'{what}: unexpected keyword {call.keywords[0].arg}')
        return call.keywords[0].value

    def kwmap_of(self, call, what):
        e = self.single_arg(call, 'obsolete_params', what)
        if not isinstance(e, ast.Dict):
            raise Untranslatable(f'{what}: obsolete_params is not a dict literal')
        m = []
        for k, v in zip(e.keys, e.values):
            if not (isinstance(k, ast.Constant) and isinstance(k.value, str)):
                raise Untranslatable(f'{what}: non-literal key')
            if isinstance(v, ast.Constant) and (v.value is None or isinstance(v.value, str)):
                m.append((k.value, v.value))
            else:
                raise Untranslatable(f'{what}: non-literal value for {k.value}')
        return m

    # -- scopes -----------------------------------------------------------------------------
    def scan_body(self, modname, owner, body, scope_line_for_module, cls_line=None):
        """Ordered bindings of a module or class body: list of (name, entry)."""
        out = []
        for st in body:
            if isinstance(st, (ast.FunctionDef, ast.AsyncFunctionDef)):
                d = self.describe_def(modname, owner, st, cls_line or st.lineno)
                d['node'] = st
                out.append((st.name, d))
            elif owner and isinstance(st, (ast.Assign, ast.AnnAssign)):
                targets = st.targets if isinstance(st, ast.Assign) else [st.target]
                if isinstance(st, ast.AnnAssign) and st.value is None:
                    continue
                for t in targets:
                    for n in ast.walk(t):
                        if isinstance(n, ast.Name):
                            out.append((n.id, {'kind': 'Other', 'line': st.lineno}))
            elif owner and isinstance(st, ast.ClassDef):
                out.append((st.name, {'kind': 'Other', 'line': st.lineno}))
            elif owner and isinstance(st, (ast.If, ast.Try, ast.With, ast.For, ast.While)):
                for n in ast.walk(st):
                    if isinstance(n, (ast.FunctionDef, ast.AsyncFunctionDef, ast.ClassDef)):
                        raise Untranslatable(f'{modname}:{st.lineno}: conditional definition in the body of class {owner}')
        return out

    def run(self):
        pkg = self.pkg
        if DEPR_MOD not in pkg.modules:
            raise Untranslatable('src/biogeme/deprecated.py not found')
        module_tables = {}
        class_tables = {}
        for modname, m in pkg.modules.items():
            module_tables[modname] = self.scan_body(modname, '', m.tree.body, None)
            for st in m.tree.body:
                if isinstance(st, ast.ClassDef):
                    class_tables[(modname, st.name)] = (st, self.scan_body(modname, st.name, st.body, None, st.lineno))
        # every use of the two decorators must have been seen at module or class level
        for modname, m in pkg.modules.items():
            for n in ast.walk(m.tree):
                if isinstance(n, ast.Call):
                    f = n.func
                    nm = f.id if isinstance(f, ast.Name) else f.attr if isinstance(f, ast.Attribute) else None
                    if nm in ('deprecated', 'deprecated_parameters') and id(n) not in self.seen_deco_nodes:
                        r = pkg.resolve_expr(modname, f)
                        if r and r[0] == 'def' and r[1] == DEPR_MOD:
                            raise Untranslatable(f'{modname}:{n.lineno}: use of {nm}(...) that is not a decorator of a '
                                                 f'module-level function or of a method of a top-level class')
        # ---- aliases and keyword maps
        for modname in sorted(pkg.modules):
            self._scope_aliases(modname, '', module_tables[modname], None, module_tables)
            for (mn, cn), (cnode, tab) in class_tables.items():
                if mn == modname:
                    self._scope_aliases(modname, cn, tab, cnode, module_tables)
        # ---- classes
        self._classes(class_tables)
        self.module_tables = module_tables
        return self

    def _scope_aliases(self, modname, owner, tab, cnode, module_tables):
        for idx, (name, d) in enumerate(tab):
            if d.get('kind') == 'Other':
                continue
            fn = d['node']
            where = f'{modname}:{fn.lineno} {owner + "." if owner else ""}{name}'
            if d['kw_call'] is not None:
                if d['other']:
                    raise Untranslatable(f'{where}: unknown decorators {d["other"]} next to @deprecated_parameters')
                if d['alias_call'] is not None:
                    raise Untranslatable(f'{where}: both @deprecated and @deprecated_parameters')
                self.kwuses.append({'mod': modname, 'owner': owner, 'name': name, 'line': first_line(fn),
                                    'map': self.kwmap_of(d['kw_call'], where), 'params': params_of(fn),
                                    'kind': d['kind']})
            if d['alias_call'] is None:
                continue
            if d['other']:
                raise Untranslatable(f'{where}: unknown decorators {d["other"]} on an alias')
            arg = self.single_arg(d['alias_call'], 'new_func', where)
            if not isinstance(arg, ast.Name):
                raise Untranslatable(f'{where}: the replacement `{ast.unparse(arg)}` is not a plain name')
            # resolve in the class body (bindings made before the alias), then module globals
            target = None
            if owner:
                for nm2, d2 in tab[:idx]:
                    if nm2 == arg.id:
                        target = ('local', d2)
            if target is None:
                scope_line = cnode.lineno if cnode is not None else fn.lineno
                r = self.pkg.resolve(modname, arg.id, before=first_line(fn) if not owner else scope_line)
                if r is None or r[0] != 'def':
                    raise Untranslatable(f'{where}: cannot resolve the replacement `{arg.id}` to a function definition '
                                         f'({r[0] if r else "unbound"})')
                tmod, tnode = r[1], r[2]
                cand = [d2 for nm2, d2 in module_tables[tmod] if d2.get('node') is tnode]
                if not cand:
                    raise Untranslatable(f'{where}: replacement `{arg.id}` is not a top-level definition of {tmod}')
                target = ('global', cand[0])
            t = target[1]
            if t.get('kind') == 'Other':
                raise Untranslatable(f'{where}: the replacement `{arg.id}` is bound by an assignment, not a def')
            if t['alias_call'] is not None:
                raise Untranslatable(f'{where}: the replacement `{arg.id}` is itself a deprecated alias')
            if t['kind'] in ('Property', 'ClassM'):
                raise Untranslatable(f'{where}: the replacement `{arg.id}` is a {t["kind"]}')
            if t['other']:
                raise Untranslatable(f'{where}: replacement `{arg.id}` carries unknown decorators {t["other"]}')
            if d['kind'] in ('Property', 'ClassM'):
                raise Untranslatable(f'{where}: alias declared as {d["kind"]}')
            doc = ast.get_docstring(fn) or ''
            mdoc = re.match(r'\s*Same as (\w+)\b', doc)
            stub = all(isinstance(s, ast.Pass) or (isinstance(s, ast.Expr) and isinstance(s.value, ast.Constant))
                       for s in fn.body)
            self.aliases.append({
                'mod': modname, 'owner': owner, 'old': name, 'line': first_line(fn), 'kind': d['kind'],
                'new': t['node'].name, 'captured': t['fid'], 'captured_kind': t['kind'],
                'captured_kwmap': self.kwmap_of(t['kw_call'], where) if t['kw_call'] is not None else [],
                'old_params': params_of(fn), 'new_params': params_of(t['node']),
                'doc_same_as': mdoc.group(1) if mdoc else None, 'stub': stub,
            })

    # -- class hierarchy ---------------------------------------------------------------------
    def _classes(self, class_tables):
        pkg = self.pkg
        qual = lambda mn, cn: f'{mn}:{cn}'
        bases = {}
        for (mn, cn), (cnode, tab) in class_tables.items():
            bs = []
            for b in cnode.bases:
                r = pkg.resolve_expr(mn, b, before=cnode.lineno)
                if r is None:
                    raise Untranslatable(f'{mn}:{cnode.lineno}: cannot resolve base `{ast.unparse(b)}` of class {cn}')
                if r[0] == 'class':
                    if (r[1], r[2].name) not in class_tables or class_tables[(r[1], r[2].name)][0] is not r[2]:
                        raise Untranslatable(f'{mn}:{cnode.lineno}: base `{ast.unparse(b)}` of {cn} is not a top-level class')
                    bs.append(qual(r[1], r[2].name))
                elif r[0] == 'ext':
                    pass  # external base: contributes no biogeme attribute (cross-checked at run time)
                else:
                    raise Untranslatable(f'{mn}:{cnode.lineno}: base `{ast.unparse(b)}` of {cn} resolves to a {r[0]}')
            bases[qual(mn, cn)] = bs
        # duplicates of a class name inside a module: the last definition wins; refuse
        seen = {}
        for (mn, cn), (cnode, _) in class_tables.items():
            pass
        for mn, m in pkg.modules.items():
            names = [st.name for st in m.tree.body if isinstance(st, ast.ClassDef)]
            if len(names) != len(set(names)):
                raise Untranslatable(f'{mn}: a class is defined twice at top level')
        mro = {}

        def lin(c, stack=()):
            if c in mro:
                return mro[c]
            if c in stack:
                raise Untranslatable(f'inheritance cycle at {c}')
            seqs = [list(lin(b, stack + (c,))) for b in bases[c]] + [list(bases[c])]
            res = [c]
            while any(seqs):
                seqs = [s for s in seqs if s]
                for s in seqs:
                    h = s[0]
                    if not any(h in t[1:] for t in seqs):
                        break
                else:
                    raise Untranslatable(f'no C3 linearisation for {c}')
                res.append(h)
                seqs = [[x for x in s if x != h] if s[0] == h else s for s in seqs]
                seqs = [s[1:] if s and s[0] == h else s for s in seqs]
            mro[c] = res
            return res

        alias_index = {(a['mod'], a['owner'], a['old'], a['line']): i for i, a in enumerate(self.aliases)}
        for (mn, cn), (cnode, tab) in class_tables.items():
            q = qual(mn, cn)
            final = {}
            for name, d in tab:  # last binding wins
                if d.get('kind') == 'Other':
                    final[name] = ('Other',)
                elif d['alias_call'] is not None:
                    final[name] = ('Alias', alias_index[(mn, cn, name, first_line(d['node']))])
                else:
                    final[name] = ('Fn', d['fid'], d['kind'])
            self.classes[q] = {'name': q, 'bases': bases[q], 'mro': lin(q), 'dict': final, 'line': cnode.lineno}

    # -- module-level final bindings ---------------------------------------------------------
    def module_final(self, modname, name):
        r = self.pkg.resolve(modname, name, None)
        if r is None or r[0] != 'def':
            return None
        for nm, d in self.module_tables[r[1]]:
            if d.get('node') is r[2]:
                if d['alias_call'] is not None:
                    return ('Alias', d['fid'])
                return ('Fn', d['fid'])
        return None


# ----------------------------------------------------------------------------------------------
# The decorators themselves (src/biogeme/deprecated.py)
# ----------------------------------------------------------------------------------------------
def _dump(node):
    return ast.dump(node, annotate_fields=True, include_attributes=False)


def _stmt(src):
    return ast.parse(src).body[0]


T_WARN = _dump(_stmt('warnings.warn(msg, DeprecationWarning, stacklevel=2)'))
T_RAISE = _dump(_stmt("if RAISE_EXCEPTION:\n    raise BiogemeError('X')"))
T_RET_CAPTURED = _dump(_stmt('return new_func(*args, **kwargs)'))
T_RET_RECEIVER = _dump(_stmt('return getattr(args[0], new_func.__name__)(*args[1:], **kwargs)'))
T_OWNED_TEST = _dump(_stmt(
    'args and any(vars(a_class).get(new_func.__name__) is new_func for a_class in type(args[0]).__mro__)').value)
T_NAME_OLD = _dump(_stmt('old_func.__name__').value)
T_NAME_NEW = _dump(_stmt('new_func.__name__').value)
T_WRAPS = _dump(_stmt('functools.wraps(old_func)').value)
T_MARK1 = _dump(_stmt('wrapper.__deprecated__ = True'))
T_MARK2 = _dump(_stmt('wrapper.__newname__ = new_func.__name__'))

# deprecated_parameters: the whole wrapper, with the two warning texts abstracted
T_DP_WRAPPER = '''
def wrapper(*args, **kwargs):
    processed_kwargs = {}
    for name, value in list(kwargs.items()):
        if name in obsolete_params:
            new_name = obsolete_params[name]
            if new_name:
                warnings.warn(MSG, DeprecationWarning, stacklevel=2)
                processed_kwargs[new_name] = value
            else:
                warnings.warn(MSG, DeprecationWarning, stacklevel=2)
        else:
            processed_kwargs[name] = value
    return func(*args, **processed_kwargs)
'''
BUILTINS_USED = ['any', 'vars', 'type', 'getattr', 'list', 'DeprecationWarning']


class _AbstractMsg(ast.NodeTransformer):
    """warnings.warn(<pure text>, ...) -> warnings.warn(MSG, ...): the wording is not behaviour.
    The text must be a string constant or an f-string over plain names."""

    def visit_Call(self, node):
        self.generic_visit(node)
        if _dump(node.func) == _dump(_stmt('warnings.warn').value) and node.args:
            a0 = node.args[0]
            ok = isinstance(a0, ast.Constant) and isinstance(a0.value, str)
            if isinstance(a0, ast.JoinedStr):
                ok = all(isinstance(v, ast.Constant) or (isinstance(v, ast.FormattedValue) and isinstance(v.value, ast.Name))
                         for v in a0.values)
            if ok:
                node.args[0] = ast.Name('MSG', ast.Load())
        return node


def _only_doc_and(body):
    """strip a leading docstring"""
    if body and isinstance(body[0], ast.Expr) and isinstance(body[0].value, ast.Constant) and isinstance(body[0].value.value, str):
        return body[1:]
    return body


def _single_param(fn, name, where):
    a = fn.args
    if [p.arg for p in a.args] != [name] or a.posonlyargs or a.vararg or a.kwonlyargs or a.kwarg or a.defaults:
        raise Untranslatable(f'deprecated.py: {where} must take exactly the parameter `{name}`')


def _star_sig(fn, where):
    a = fn.args
    if a.args or a.posonlyargs or a.kwonlyargs or a.defaults or not a.vararg or not a.kwarg \
            or a.vararg.arg != 'args' or a.kwarg.arg != 'kwargs':
        raise Untranslatable(f'deprecated.py: {where} must have the signature (*args, **kwargs)')


def wrapper_stmts(body, flag):
    out = []
    for st in _only_doc_and(body):
        d = _dump(st)
        if isinstance(st, ast.Assign) and len(st.targets) == 1 and isinstance(st.targets[0], ast.Name) \
                and st.targets[0].id == 'msg' and isinstance(st.value, (ast.JoinedStr, ast.Constant)):
            if isinstance(st.value, ast.JoinedStr):
                for v in st.value.values:
                    if isinstance(v, ast.FormattedValue) and _dump(v.value) not in (T_NAME_OLD, T_NAME_NEW):
                        raise Untranslatable(f'deprecated.py:{st.lineno}: message interpolates `{ast.unparse(v.value)}`')
            out.append('WMsg')
        elif isinstance(st, ast.If) and _dump(st.test) == _dump(ast.Name('RAISE_EXCEPTION', ast.Load())) \
                and not st.orelse and len(st.body) == 1 and isinstance(st.body[0], ast.Raise) \
                and st.body[0].cause is None and isinstance(st.body[0].exc, ast.Call) \
                and _dump(st.body[0].exc.func) == _dump(ast.Name('BiogemeError', ast.Load())):
            out.append(f'WIfFlagRaise {"true" if flag else "false"}')
        elif isinstance(st, ast.Expr) and isinstance(st.value, ast.Call) and len(st.value.keywords) == 1 \
                and st.value.keywords[0].arg == 'stacklevel' and isinstance(st.value.keywords[0].value, ast.Constant) \
                and isinstance(st.value.keywords[0].value.value, int):
            c = ast.parse(ast.unparse(st)).body[0]
            c.value.keywords[0].value = ast.Constant(2)
            if _dump(c) != T_WARN:
                raise Untranslatable(f'deprecated.py:{st.lineno}: unexpected call `{ast.unparse(st)}`')
            out.append('WWarn')
        elif isinstance(st, ast.If) and _dump(st.test) == T_OWNED_TEST and not st.orelse:
            out.append('WIfOwned ' + coq_list(wrapper_stmts(st.body, flag)))
        elif d == T_RET_CAPTURED:
            out.append('WReturn CallCaptured')
        elif d == T_RET_RECEIVER:
            out.append('WReturn CallOnReceiver')
        else:
            raise Untranslatable(f'deprecated.py:{st.lineno}: statement of the wrapper outside the modelled forms: '
                                 f'`{ast.unparse(st)[:120]}`')
    return ['(' + s + ')' if ' ' in s else s for s in out]


def extract_decorators(pkg):
    m = pkg.modules[DEPR_MOD]
    for b in BUILTINS_USED + ['BiogemeError']:
        bb = m.lookup(b)
        if b == 'BiogemeError':
            if bb is None or bb[2] != 'from' or bb[3] != ('biogeme.exceptions', 'BiogemeError'):
                raise Untranslatable('deprecated.py: BiogemeError is not biogeme.exceptions.BiogemeError')
        elif bb is not None:
            raise Untranslatable(f'deprecated.py: the builtin `{b}` is shadowed at module level')
    for modn in ('warnings', 'functools', 'inspect'):
        bb = m.lookup(modn)
        if bb is None or bb[2] != 'module' or bb[3] != modn:
            raise Untranslatable(f'deprecated.py: `{modn}` is not the standard module')
    flags = [b for b in m.bind if b[0] == 'RAISE_EXCEPTION']
    if len(flags) != 1 or flags[0][2] != 'assign' or not isinstance(flags[0][3], ast.Assign) \
            or not isinstance(flags[0][3].value, ast.Constant) or not isinstance(flags[0][3].value.value, bool):
        raise Untranslatable('deprecated.py: RAISE_EXCEPTION is not a single boolean constant')
    flag = flags[0][3].value.value
    for n in ast.walk(m.tree):
        if isinstance(n, (ast.Global, ast.Nonlocal)):
            raise Untranslatable('deprecated.py: global/nonlocal statement')
        if isinstance(n, (ast.Assign, ast.AugAssign, ast.AnnAssign)) and n is not flags[0][3]:
            tg = n.targets if isinstance(n, ast.Assign) else [n.target]
            if any(isinstance(t, ast.Name) and t.id == 'RAISE_EXCEPTION' for t in tg):
                raise Untranslatable('deprecated.py: RAISE_EXCEPTION assigned twice')
    # ---- deprecated
    b = m.lookup('deprecated')
    if b is None or b[2] != 'def' or b[3].decorator_list:
        raise Untranslatable('deprecated.py: `deprecated` is not a plain top-level function')
    fn = b[3]
    _single_param(fn, 'new_func', 'deprecated')
    body = _only_doc_and(fn.body)
    if len(body) != 2 or not isinstance(body[0], ast.FunctionDef) or body[0].name != 'decorator' \
            or _dump(body[1]) != _dump(_stmt('return decorator')):
        raise Untranslatable('deprecated.py: deprecated() is not `def decorator ...; return decorator`')
    dec = body[0]
    _single_param(dec, 'old_func', 'deprecated.decorator')
    if dec.decorator_list:
        raise Untranslatable('deprecated.py: decorator() is decorated')
    dbody = _only_doc_and(dec.body)
    if len(dbody) != 4 or not isinstance(dbody[0], ast.FunctionDef) or dbody[0].name != 'wrapper' \
            or _dump(dbody[1]) != T_MARK1 or _dump(dbody[2]) != T_MARK2 or _dump(dbody[3]) != _dump(_stmt('return wrapper')):
        raise Untranslatable('deprecated.py: decorator() is not `def wrapper; wrapper.__deprecated__ = True; '
                             'wrapper.__newname__ = new_func.__name__; return wrapper`')
    w = dbody[0]
    _star_sig(w, 'deprecated.wrapper')
    if len(w.decorator_list) != 1 or _dump(w.decorator_list[0]) != T_WRAPS:
        raise Untranslatable('deprecated.py: wrapper is not decorated by functools.wraps(old_func) alone')
    prog = wrapper_stmts(w.body, flag)
    # ---- deprecated_parameters
    b = m.lookup('deprecated_parameters')
    if b is None or b[2] != 'def' or b[3].decorator_list:
        raise Untranslatable('deprecated.py: `deprecated_parameters` is not a plain top-level function')
    fn = b[3]
    _single_param(fn, 'obsolete_params', 'deprecated_parameters')
    body = _only_doc_and(fn.body)
    if len(body) != 2 or not isinstance(body[0], ast.FunctionDef) or body[0].name != 'decorator' \
            or _dump(body[1]) != _dump(_stmt('return decorator')):
        raise Untranslatable('deprecated.py: deprecated_parameters() is not `def decorator ...; return decorator`')
    dec = body[0]
    _single_param(dec, 'func', 'deprecated_parameters.decorator')
    dbody = _only_doc_and(dec.body)
    # an unused `func_signature = inspect.signature(func)` is tolerated (pure for functions)
    dbody = [s for s in dbody if _dump(s) != _dump(_stmt('func_signature = inspect.signature(func)'))]
    if len(dbody) != 2 or not isinstance(dbody[0], ast.FunctionDef) or _dump(dbody[1]) != _dump(_stmt('return wrapper')):
        raise Untranslatable('deprecated.py: deprecated_parameters.decorator() has an unexpected shape')
    w = dbody[0]
    if len(w.decorator_list) != 1 or _dump(w.decorator_list[0]) != _dump(_stmt('functools.wraps(func)').value):
        raise Untranslatable('deprecated.py: keyword wrapper is not decorated by functools.wraps(func) alone')
    w2 = ast.parse(ast.unparse(w)).body[0]
    w2.decorator_list = []
    w2.returns = None
    w2.body = _only_doc_and(w2.body)
    w2 = _AbstractMsg().visit(w2)
    expected = ast.parse(T_DP_WRAPPER).body[0]
    if _dump(w2) != _dump(expected):
        raise Untranslatable('deprecated.py: the wrapper of deprecated_parameters differs from the modelled renaming loop '
                             '(Model/Alias.v rename_kwargs):\n' + ast.unparse(w2))
    return {'flag': flag, 'prog': prog}


def toml_parameter_names(pkg):
    m = pkg.modules.get('biogeme.default_parameters')
    if m is None:
        raise Untranslatable('biogeme/default_parameters.py not found')
    names = []
    for n in ast.walk(m.tree):
        if isinstance(n, ast.Call) and isinstance(n.func, ast.Name) and n.func.id == 'ParameterTuple':
            for k in n.keywords:
                if k.arg == 'name':
                    if not (isinstance(k.value, ast.Constant) and isinstance(k.value.value, str)):
                        raise Untranslatable('default_parameters.py: non-literal parameter name')
                    names.append(k.value.value)
    if not names:
        raise Untranslatable('default_parameters.py: no ParameterTuple(name=...) found')
    return sorted(set(names))


# ----------------------------------------------------------------------------------------------
# Emission
# ----------------------------------------------------------------------------------------------
def cs(s):
    try:
        return coq_string(s)
    except AssertionError:
        raise Untranslatable(f'non-ASCII text in a table: {s!r}')


def c_ostr(s):
    return 'None' if s is None else f'(Some {cs(s)})'


def c_param(p):
    return f'mkParam {cs(p["name"])} {p["kind"]} {c_ostr(p["default"])}'


def c_fid(f):
    return f'(mkFid {cs(f["mod"])} {cs(f["owner"])} {cs(f["name"])} {f["line"]})'


def c_kwmap(m):
    return coq_list([f'({cs(k)}, {c_ostr(v)})' for k, v in m])


def extract(root=PKG_ROOT):
    ex = Extractor(root).run()
    deco = extract_decorators(ex.pkg)
    toml = toml_parameter_names(ex.pkg)
    for a in ex.aliases:
        a['final'] = None
        if a['kind'] != 'Instance':
            r = ex.module_final(a['mod'], a['new'])
            a['final'] = r[1] if r and r[0] == 'Fn' else None
    for k in ex.kwuses:
        k['extra'] = toml if (k['mod'], k['owner'], k['name']) in KWARGS_ARE_TOML_PARAMETERS else []
    return {'aliases': ex.aliases, 'kwuses': ex.kwuses, 'classes': ex.classes, 'deco': deco, 'toml': toml}


def emit(tab):
    L = ['From BV Require Import Model.Alias.', 'From Coq Require Import ZArith List String.',
         'Import ListNotations.', 'Open Scope string_scope.', 'Open Scope Z_scope.', '']
    L.append('(* src/biogeme/deprecated.py: module constant RAISE_EXCEPTION and the body of the wrapper of `deprecated` *)')
    L.append(f'Definition raise_exception_flag : bool := {"true" if tab["deco"]["flag"] else "false"}.')
    L.append('Definition deprecated_wrapper : list wstmt :=\n  ' + coq_list(tab['deco']['prog'], ';\n   ') + '.')
    L.append('(* the wrapper of `deprecated_parameters` matched the renaming loop modelled by Alias.rename_kwargs *)')
    L.append('')
    al = []
    for i, a in enumerate(tab['aliases']):
        al.append(
            f'(* {i}: {a["mod"]}:{a["owner"] + "." if a["owner"] else ""}{a["old"]} -> {a["new"]} *)\n'
            f'  mkAlias {cs(a["mod"])} {cs(a["owner"])} {cs(a["old"])} {a["line"]} {a["kind"]} {cs(a["new"])}\n'
            f'    {c_fid(a["captured"])} {a["captured_kind"]} {c_kwmap(a["captured_kwmap"])}\n'
            f'    {coq_list([c_param(p) for p in a["old_params"]])}\n'
            f'    {coq_list([c_param(p) for p in a["new_params"]])}\n'
            f'    {c_ostr(a["doc_same_as"])} {"(Some " + c_fid(a["final"]) + ")" if a["final"] else "None"}')
    L.append('Definition aliases : list alias :=\n  [' + ';\n  '.join(al) + '].')
    L.append('')
    cl = []
    for q in sorted(tab['classes']):
        c = tab['classes'][q]
        ents = []
        for name in sorted(c['dict']):
            v = c['dict'][name]
            if v[0] == 'Other':
                ents.append(f'({cs(name)}, AOther)')
            elif v[0] == 'Alias':
                ents.append(f'({cs(name)}, AAlias {v[1]}%nat)')
            else:
                ents.append(f'({cs(name)}, AFn {c_fid(v[1])} {v[2]})')
        cl.append(f'mkCls {cs(q)} {coq_list([cs(b) for b in c["bases"]])}\n    {coq_list([cs(b) for b in c["mro"]])}\n    '
                  + coq_list(ents, ';\n     '))
    L.append('Definition classes : list cls :=\n  [' + ';\n  '.join(cl) + '].')
    L.append('')
    kw = []
    for k in tab['kwuses']:
        kw.append(f'mkKw {cs(k["mod"])} {cs(k["owner"])} {cs(k["name"])} {k["line"]} {c_kwmap(k["map"])}\n    '
                  f'{coq_list([c_param(p) for p in k["params"]])}\n    {coq_list([cs(x) for x in k["extra"]])}')
    L.append('Definition kwuses : list kwuse :=\n  [' + ';\n  '.join(kw) + '].')
    L.append('')
    L.append('Definition toml_parameter_names : list string := ' + coq_list([cs(x) for x in tab['toml']]) + '.')
    L.append('(* copy of the reviewed table used by the harness oracles (proved equal to Alias.renamed_reviewed) *)')
    L.append('Definition harness_renamed : list (string * string * string * string) :=\n  '
             + coq_list([f'({cs(k[0])}, {cs(k[1])}, {cs(k[2])}, {cs(v)})' for k, v in RENAMED.items()], ';\n   ') + '.')
    L.append('Definition T : tables := mkTables aliases classes kwuses.')
    return '\n'.join(L) + '\n'


def gen_all(ctx):
    tab = extract()
    ctx.gen('AliasTable', emit(tab))
    return tab
