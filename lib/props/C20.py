"""C20 -- every deprecated name behaves exactly like the function it points users to.

Tie A: a specialised, fail-closed `ast` extractor over the whole package /repo/src/biogeme
(re-run on every check) writes rocq/Gen/AliasTable.v:
  * the model of the two decorators of src/biogeme/deprecated.py (statement by statement for
    `deprecated`: the dispatch rule of the wrapper is *read from the source*),
  * one record per `@deprecated` alias, one per `@deprecated_parameters` use,
  * the class table (bases, C3 linearisation, final class dictionaries), the module-level bindings.
The theorems of Proofs/AliasP.v are about these generated tables (vm_compute, bound in the statement).

Tie B: streams `alias_enum` (static table == run-time enumeration of `__deprecated__` objects,
static MRO == `cls.__mro__`), `alias_reach` (the function really entered when an alias is called
on every exposing class == the model's `reach`), `alias_dyn` (old and new called side by side with
representative arguments: results, exceptions, files, mutated attributes, warnings), `kw_dyn`
(renamed keyword arguments).
"""
from __future__ import annotations

import ast
import json
import re
from pathlib import Path

from py2v import Untranslatable
from common import coq_string, coq_list, parse_bools, REPO

PKG_ROOT = REPO / 'src' / 'biogeme'
DEPR_MOD = 'biogeme.deprecated'

# ----------------------------------------------------------------------------------------------
# Reviewed exception tables (every entry justified)
# ----------------------------------------------------------------------------------------------
# Aliases whose name does NOT fold (lower-case, underscores removed) onto the replacement's name.
# Reviewed against the docstrings of both functions in /repo.
RENAMED = {
    # "Same as cnl. Maintained for backward compatibility": old API had cnl / cnl_avail as two
    # entry points (with / without availability); both are now `cnl` (probability, not log).
    ('biogeme.models.cnl', '', 'cnl_avail'): 'cnl',
    # "Same as logcnl. Maintained for backward compatibility": the *log* probability of the CNL.
    ('biogeme.models.cnl', '', 'logcnl_avail'): 'logcnl',
    # same three parameters (beta, segmentation_tuples, prefix), returns the segmented Beta
    # expression; `segmented_beta` is the documented new spelling.
    ('biogeme.segmentation', '', 'segment_parameter'): 'segmented_beta',
}

# Functions with **kwargs whose extra keywords are, by documented design, the names of the TOML
# parameters of biogeme.default_parameters (BIOGEME.__init__: "We allow the values of the
# parameters to be set with arguments").
KWARGS_ARE_TOML_PARAMETERS = {('biogeme.biogeme', 'BIOGEME', '__init__')}


# ----------------------------------------------------------------------------------------------
# Package scan
# ----------------------------------------------------------------------------------------------
class Module:
    def __init__(self, name, path, is_pkg):
        self.name = name
        self.path = path
        self.is_pkg = is_pkg
        self.tree = ast.parse(path.read_text(), filename=str(path))
        self.bind = []  # ordered top-level bindings: (name, lineno, kind, payload)
        self._collect(self.tree.body)

    def _abs_from(self, node):
        if node.level == 0:
            return node.module
        parts = self.name.split('.')
        if not self.is_pkg:
            parts = parts[:-1]
        if node.level > 1:
            parts = parts[: len(parts) - (node.level - 1)]
        return '.'.join(parts + ([node.module] if node.module else []))

    def _collect(self, body):
        for st in body:
            if isinstance(st, (ast.FunctionDef, ast.AsyncFunctionDef)):
                self.bind.append((st.name, st.lineno, 'def', st))
            elif isinstance(st, ast.ClassDef):
                self.bind.append((st.name, st.lineno, 'class', st))
            elif isinstance(st, ast.Import):
                for a in st.names:
                    if a.asname:
                        self.bind.append((a.asname, st.lineno, 'module', a.name))
                    else:
                        top = a.name.split('.')[0]
                        self.bind.append((top, st.lineno, 'module', top))
            elif isinstance(st, ast.ImportFrom):
                src = self._abs_from(st)
                for a in st.names:
                    if a.name == '*':
                        self.bind.append(('*', st.lineno, 'star', src))
                    else:
                        self.bind.append((a.asname or a.name, st.lineno, 'from', (src, a.name)))
            elif isinstance(st, (ast.Assign, ast.AnnAssign, ast.AugAssign)):
                targets = st.targets if isinstance(st, ast.Assign) else [st.target]
                for t in targets:
                    for n in ast.walk(t):
                        if isinstance(n, ast.Name):
                            self.bind.append((n.id, st.lineno, 'assign', st))
            elif isinstance(st, (ast.If, ast.Try, ast.With)):
                for sub in ('body', 'orelse', 'finalbody'):
                    self._collect(getattr(st, sub, []) or [])
                for h in getattr(st, 'handlers', []) or []:
                    self._collect(h.body)

    def lookup(self, name, before=None):
        """Last top-level binding of `name` (textually before line `before`)."""
        found = None
        for b in self.bind:
            if b[0] == name and (before is None or b[1] < before):
                found = b
        return found


class Package:
    def __init__(self, root=PKG_ROOT):
        self.root = Path(root)
        self.modules = {}
        for p in sorted(self.root.rglob('*.py')):
            relp = p.relative_to(self.root)
            parts = ['biogeme'] + list(relp.parts)
            is_pkg = parts[-1] == '__init__.py'
            parts = parts[:-1] if is_pkg else parts[:-1] + [parts[-1][:-3]]
            name = '.'.join(parts)
            try:
                self.modules[name] = Module(name, p, is_pkg)
            except SyntaxError as e:
                raise Untranslatable(f'cannot parse {p}: {e}')

    def resolve(self, modname, name, before=None, depth=0):
        """-> ('def'|'class', module, node) | ('module', dotted) | ('ext', dotted) | ('assign', module, node) | None"""
        if depth > 20:
            raise Untranslatable(f'import cycle while resolving {modname}.{name}')
        m = self.modules.get(modname)
        if m is None:
            return ('ext', f'{modname}.{name}')
        b = m.lookup(name, before)
        if b is None:
            # submodule of a package?
            if m.is_pkg and f'{modname}.{name}' in self.modules:
                return ('module', f'{modname}.{name}')
            for sb in m.bind:
                if sb[2] == 'star' and (before is None or sb[1] < before):
                    r = self.resolve(sb[3], name, None, depth + 1)
                    if r is not None and r[0] != 'ext':
                        return r
            return None
        _, _, kind, payload = b
        if kind in ('def', 'class', 'assign'):
            return (kind, modname, payload)
        if kind == 'module':
            return ('module', payload)
        if kind == 'from':
            src, nm = payload
            if src in self.modules:
                r = self.resolve(src, nm, None, depth + 1)
                if r is None:
                    raise Untranslatable(f'{modname}: cannot resolve `from {src} import {nm}`')
                return r
            return ('ext', f'{src}.{nm}')
        raise Untranslatable(f'unknown binding kind {kind}')

    def resolve_expr(self, modname, e, before=None):
        """Resolve a Name / dotted Attribute expression."""
        if isinstance(e, ast.Name):
            r = self.resolve(modname, e.id, before)
            if r is None:
                import builtins
                if hasattr(builtins, e.id):
                    return ('ext', f'builtins.{e.id}')
            return r
        if isinstance(e, ast.Attribute):
            base = self.resolve_expr(modname, e.value, before)
            if base is None:
                return None
            if base[0] == 'module':
                if base[1] in self.modules:
                    return self.resolve(base[1], e.attr, None)
                return ('ext', f'{base[1]}.{e.attr}')
            if base[0] == 'ext':
                return ('ext', f'{base[1]}.{e.attr}')
            return None
        if isinstance(e, ast.Subscript):  # Generic[T] and the like
            return self.resolve_expr(modname, e.value, before)
        return None


# ----------------------------------------------------------------------------------------------
# Functions, parameters
# ----------------------------------------------------------------------------------------------
def first_line(fn):
    return min([fn.lineno] + [d.lineno for d in fn.decorator_list])


def params_of(fn):
    a = fn.args
    out = []
    pos = list(a.posonlyargs) + list(a.args)
    nd = len(a.defaults)
    for i, p in enumerate(pos):
        d = a.defaults[i - (len(pos) - nd)] if i >= len(pos) - nd else None
        out.append({'name': p.arg, 'kind': 'PosOnly' if i < len(a.posonlyargs) else 'PosOrKw',
                    'default': ast.unparse(d) if d is not None else None})
    if a.vararg:
        out.append({'name': a.vararg.arg, 'kind': 'VarArg', 'default': None})
    for p, d in zip(a.kwonlyargs, a.kw_defaults):
        out.append({'name': p.arg, 'kind': 'KwOnly', 'default': ast.unparse(d) if d is not None else None})
    if a.kwarg:
        out.append({'name': a.kwarg.arg, 'kind': 'VarKw', 'default': None})
    return out


def deco_name(pkg, modname, d, before):
    """Classify one decorator expression -> (tag, call-node-or-None)."""
    target = d.func if isinstance(d, ast.Call) else d
    r = pkg.resolve_expr(modname, target, before)
    if r and r[0] == 'def' and r[1] == DEPR_MOD and r[2].name in ('deprecated', 'deprecated_parameters'):
        if not isinstance(d, ast.Call):
            raise Untranslatable(f'{modname}:{d.lineno}: @{r[2].name} used without arguments')
        return r[2].name, d
    txt = ast.unparse(target)
    if 'deprecated' in txt.split('.')[-1] and not (r and r[0] == 'ext'):
        raise Untranslatable(f'{modname}:{d.lineno}: decorator `{ast.unparse(d)}` mentions "deprecated" but does not '
                             f'resolve to biogeme.deprecated')
    if r and r[0] == 'ext':
        return r[1], d
    return txt, d


PLAIN_BINDERS = {'builtins.staticmethod': 'Static', 'builtins.classmethod': 'ClassM', 'builtins.property': 'Property'}
HARMLESS = {'abc.abstractmethod'}


class Extractor:
    def __init__(self, root=PKG_ROOT):
        self.pkg = Package(root)
        self.aliases = []
        self.kwuses = []
        self.classes = {}  # qual -> dict
        self.seen_deco_nodes = set()

    # -- one function definition ------------------------------------------------------------
    def describe_def(self, modname, owner, fn, scope_line):
        """owner: class name or ''.  Returns dict(kind, decos, alias_call, kw_call, fid)."""
        tags = []
        for d in fn.decorator_list:
            tags.append(deco_name(self.pkg, modname, d, scope_line))
        kind = 'Instance' if owner else 'ModuleLevel'
        alias_call = kw_call = None
        other = []
        for i, (tag, node) in enumerate(tags):
            if tag == 'deprecated':
                if alias_call is not None:
                    raise Untranslatable(f'{modname}:{fn.lineno}: two @deprecated on {fn.name}')
                alias_call = node
                self.seen_deco_nodes.add(id(node))
                if any(t in PLAIN_BINDERS for t, _ in tags[i + 1:]):
                    raise Untranslatable(f'{modname}:{fn.lineno}: @deprecated applied outside @staticmethod/@classmethod '
                                         f'on {fn.name} (the wrapper would receive a descriptor)')
            elif tag == 'deprecated_parameters':
                if kw_call is not None:
                    raise Untranslatable(f'{modname}:{fn.lineno}: two @deprecated_parameters on {fn.name}')
                kw_call = node
                self.seen_deco_nodes.add(id(node))
            elif tag in PLAIN_BINDERS:
                if not owner:
                    raise Untranslatable(f'{modname}:{fn.lineno}: {tag} on a module-level function')
                if i != 0:
                    raise Untranslatable(f'{modname}:{fn.lineno}: {tag} is not the outermost decorator of {fn.name}')
                kind = PLAIN_BINDERS[tag]
            elif tag in HARMLESS:
                pass
            else:
                other.append(tag)
        return {'kind': kind, 'alias_call': alias_call, 'kw_call': kw_call, 'other': other,
                'fid': {'mod': modname, 'owner': owner, 'name': fn.name, 'line': first_line(fn)}}

    @staticmethod
    def single_arg(call, kwname, what):
        if len(call.args) + len(call.keywords) != 1:
            raise Untranslatable(f'{what}: expected exactly one argument')
        if call.args:
            return call.args[0]
        if call.keywords[0].arg != kwname:
            raise Untranslatable(f'{what}: unexpected keyword {call.keywords[0].arg}')
        return call.keywords[0].value

    def kwmap_of(self, call, what):
        e = self.single_arg(call, 'obsolete_params', what)
        if not isinstance(e, ast.Dict):
            raise Untranslatable(f'{what}: obsolete_params is not a dict literal')
        m = []
        for k, v in zip(e.keys, e.values):
            if not (isinstance(k, ast.Constant) and isinstance(k.value, str)):
                raise Untranslatable(f'{what}: non-literal key')
            if isinstance(v, ast.Constant) and (v.value is None or isinstance(v.value, str)):
                m.append((k.value, v.value))
            else:
                raise Untranslatable(f'{what}: non-literal value for {k.value}')
        return m

    # -- scopes -----------------------------------------------------------------------------
    def scan_body(self, modname, owner, body, scope_line_for_module, cls_line=None):
        """Ordered bindings of a module or class body: list of (name, entry)."""
        out = []
        for st in body:
            if isinstance(st, (ast.FunctionDef, ast.AsyncFunctionDef)):
                d = self.describe_def(modname, owner, st, cls_line or st.lineno)
                d['node'] = st
                out.append((st.name, d))
            elif owner and isinstance(st, (ast.Assign, ast.AnnAssign)):
                targets = st.targets if isinstance(st, ast.Assign) else [st.target]
                if isinstance(st, ast.AnnAssign) and st.value is None:
                    continue
                for t in targets:
                    for n in ast.walk(t):
                        if isinstance(n, ast.Name):
                            out.append((n.id, {'kind': 'Other', 'line': st.lineno}))
            elif owner and isinstance(st, ast.ClassDef):
                out.append((st.name, {'kind': 'Other', 'line': st.lineno}))
            elif owner and isinstance(st, (ast.If, ast.Try, ast.With, ast.For, ast.While)):
                for n in ast.walk(st):
                    if isinstance(n, (ast.FunctionDef, ast.AsyncFunctionDef, ast.ClassDef)):
                        raise Untranslatable(f'{modname}:{st.lineno}: conditional definition in the body of class {owner}')
        return out

    def run(self):
        pkg = self.pkg
        if DEPR_MOD not in pkg.modules:
            raise Untranslatable('src/biogeme/deprecated.py not found')
        module_tables = {}
        class_tables = {}
        for modname, m in pkg.modules.items():
            module_tables[modname] = self.scan_body(modname, '', m.tree.body, None)
            for st in m.tree.body:
                if isinstance(st, ast.ClassDef):
                    class_tables[(modname, st.name)] = (st, self.scan_body(modname, st.name, st.body, None, st.lineno))
        # every use of the two decorators must have been seen at module or class level
        for modname, m in pkg.modules.items():
            for n in ast.walk(m.tree):
                if isinstance(n, ast.Call):
                    f = n.func
                    nm = f.id if isinstance(f, ast.Name) else f.attr if isinstance(f, ast.Attribute) else None
                    if nm in ('deprecated', 'deprecated_parameters') and id(n) not in self.seen_deco_nodes:
                        r = pkg.resolve_expr(modname, f)
                        if r and r[0] == 'def' and r[1] == DEPR_MOD:
                            raise Untranslatable(f'{modname}:{n.lineno}: use of {nm}(...) that is not a decorator of a '
                                                 f'module-level function or of a method of a top-level class')
        # ---- aliases and keyword maps
        for modname in sorted(pkg.modules):
            self._scope_aliases(modname, '', module_tables[modname], None, module_tables)
            for (mn, cn), (cnode, tab) in class_tables.items():
                if mn == modname:
                    self._scope_aliases(modname, cn, tab, cnode, module_tables)
        # ---- classes
        self._classes(class_tables)
        self.module_tables = module_tables
        return self

    def _scope_aliases(self, modname, owner, tab, cnode, module_tables):
        for idx, (name, d) in enumerate(tab):
            if d.get('kind') == 'Other':
                continue
            fn = d['node']
            where = f'{modname}:{fn.lineno} {owner + "." if owner else ""}{name}'
            if d['kw_call'] is not None:
                if d['other']:
                    raise Untranslatable(f'{where}: unknown decorators {d["other"]} next to @deprecated_parameters')
                if d['alias_call'] is not None:
                    raise Untranslatable(f'{where}: both @deprecated and @deprecated_parameters')
                self.kwuses.append({'mod': modname, 'owner': owner, 'name': name, 'line': first_line(fn),
                                    'map': self.kwmap_of(d['kw_call'], where), 'params': params_of(fn),
                                    'kind': d['kind']})
            if d['alias_call'] is None:
                continue
            if d['other']:
                raise Untranslatable(f'{where}: unknown decorators {d["other"]} on an alias')
            arg = self.single_arg(d['alias_call'], 'new_func', where)
            if not isinstance(arg, ast.Name):
                raise Untranslatable(f'{where}: the replacement `{ast.unparse(arg)}` is not a plain name')
            # resolve in the class body (bindings made before the alias), then module globals
            target = None
            if owner:
                for nm2, d2 in tab[:idx]:
                    if nm2 == arg.id:
                        target = ('local', d2)
            if target is None:
                scope_line = cnode.lineno if cnode is not None else fn.lineno
                r = self.pkg.resolve(modname, arg.id, before=first_line(fn) if not owner else scope_line)
                if r is None or r[0] != 'def':
                    raise Untranslatable(f'{where}: cannot resolve the replacement `{arg.id}` to a function definition '
                                         f'({r[0] if r else "unbound"})')
                tmod, tnode = r[1], r[2]
                cand = [d2 for nm2, d2 in module_tables[tmod] if d2.get('node') is tnode]
                if not cand:
                    raise Untranslatable(f'{where}: replacement `{arg.id}` is not a top-level definition of {tmod}')
                target = ('global', cand[0])
            t = target[1]
            if t.get('kind') == 'Other':
                raise Untranslatable(f'{where}: the replacement `{arg.id}` is bound by an assignment, not a def')
            if t['alias_call'] is not None:
                raise Untranslatable(f'{where}: the replacement `{arg.id}` is itself a deprecated alias')
            if t['kind'] in ('Property', 'ClassM'):
                raise Untranslatable(f'{where}: the replacement `{arg.id}` is a {t["kind"]}')
            if t['other']:
                raise Untranslatable(f'{where}: replacement `{arg.id}` carries unknown decorators {t["other"]}')
            if d['kind'] in ('Property', 'ClassM'):
                raise Untranslatable(f'{where}: alias declared as {d["kind"]}')
            doc = ast.get_docstring(fn) or ''
            mdoc = re.match(r'\s*Same as (\w+)\b', doc)
            stub = all(isinstance(s, ast.Pass) or (isinstance(s, ast.Expr) and isinstance(s.value, ast.Constant))
                       for s in fn.body)
            self.aliases.append({
                'mod': modname, 'owner': owner, 'old': name, 'line': first_line(fn), 'kind': d['kind'],
                'new': t['node'].name, 'captured': t['fid'], 'captured_kind': t['kind'],
                'captured_kwmap': self.kwmap_of(t['kw_call'], where) if t['kw_call'] is not None else [],
                'old_params': params_of(fn), 'new_params': params_of(t['node']),
                'doc_same_as': mdoc.group(1) if mdoc else None, 'stub': stub,
            })

    # -- class hierarchy ---------------------------------------------------------------------
    def _classes(self, class_tables):
        pkg = self.pkg
        qual = lambda mn, cn: f'{mn}:{cn}'
        bases = {}
        for (mn, cn), (cnode, tab) in class_tables.items():
            bs = []
            for b in cnode.bases:
                r = pkg.resolve_expr(mn, b, before=cnode.lineno)
                if r is None:
                    raise Untranslatable(f'{mn}:{cnode.lineno}: cannot resolve base `{ast.unparse(b)}` of class {cn}')
                if r[0] == 'class':
                    if (r[1], r[2].name) not in class_tables or class_tables[(r[1], r[2].name)][0] is not r[2]:
                        raise Untranslatable(f'{mn}:{cnode.lineno}: base `{ast.unparse(b)}` of {cn} is not a top-level class')
                    bs.append(qual(r[1], r[2].name))
                elif r[0] == 'ext':
                    pass  # external base: contributes no biogeme attribute (cross-checked at run time)
                else:
                    raise Untranslatable(f'{mn}:{cnode.lineno}: base `{ast.unparse(b)}` of {cn} resolves to a {r[0]}')
            bases[qual(mn, cn)] = bs
        # duplicates of a class name inside a module: the last definition wins; refuse
        for mn, m in pkg.modules.items():
            names = [st.name for st in m.tree.body if isinstance(st, ast.ClassDef)]
            if len(names) != len(set(names)):
                raise Untranslatable(f'{mn}: a class is defined twice at top level')
        mro = {}

        def lin(c, stack=()):
            if c in mro:
                return mro[c]
            if c in stack:
                raise Untranslatable(f'inheritance cycle at {c}')
            seqs = [list(lin(b, stack + (c,))) for b in bases[c]] + [list(bases[c])]
            res = [c]
            while any(seqs):
                seqs = [s for s in seqs if s]
                for s in seqs:
                    h = s[0]
                    if not any(h in t[1:] for t in seqs):
                        break
                else:
                    raise Untranslatable(f'no C3 linearisation for {c}')
                res.append(h)
                seqs = [[x for x in s if x != h] if s[0] == h else s for s in seqs]
                seqs = [s[1:] if s and s[0] == h else s for s in seqs]
            mro[c] = res
            return res

        alias_index = {(a['mod'], a['owner'], a['old'], a['line']): i for i, a in enumerate(self.aliases)}
        for (mn, cn), (cnode, tab) in class_tables.items():
            q = qual(mn, cn)
            final = {}
            for name, d in tab:  # last binding wins
                if d.get('kind') == 'Other':
                    final[name] = ('Other',)
                elif d['alias_call'] is not None:
                    final[name] = ('Alias', alias_index[(mn, cn, name, first_line(d['node']))])
                else:
                    final[name] = ('Fn', d['fid'], d['kind'])
            self.classes[q] = {'name': q, 'bases': bases[q], 'mro': lin(q), 'dict': final, 'line': cnode.lineno}

    # -- module-level final bindings ---------------------------------------------------------
    def module_final(self, modname, name):
        r = self.pkg.resolve(modname, name, None)
        if r is None or r[0] != 'def':
            return None
        for nm, d in self.module_tables[r[1]]:
            if d.get('node') is r[2]:
                if d['alias_call'] is not None:
                    return ('Alias', d['fid'])
                return ('Fn', d['fid'])
        return None


# ----------------------------------------------------------------------------------------------
# The decorators themselves (src/biogeme/deprecated.py)
# ----------------------------------------------------------------------------------------------
def _dump(node):
    return ast.dump(node, annotate_fields=True, include_attributes=False)


def _stmt(src):
    return ast.parse(src).body[0]


T_WARN = _dump(_stmt('warnings.warn(msg, DeprecationWarning, stacklevel=2)'))
T_RET_CAPTURED = _dump(_stmt('return new_func(*args, **kwargs)'))
T_RET_RECEIVER = _dump(_stmt('return getattr(args[0], new_func.__name__)(*args[1:], **kwargs)'))
T_OWNED_TEST = _dump(_stmt(
    'args and any(vars(a_class).get(new_func.__name__) is new_func for a_class in type(args[0]).__mro__)').value)
T_NAME_OLD = _dump(_stmt('old_func.__name__').value)
T_NAME_NEW = _dump(_stmt('new_func.__name__').value)
T_WRAPS = _dump(_stmt('functools.wraps(old_func)').value)
T_MARK1 = _dump(_stmt('wrapper.__deprecated__ = True'))
T_MARK2 = _dump(_stmt('wrapper.__newname__ = new_func.__name__'))

# deprecated_parameters: the whole wrapper, with the two warning texts abstracted
T_DP_WRAPPER = '''
def wrapper(*args, **kwargs):
    processed_kwargs = {}
    for name, value in list(kwargs.items()):
        if name in obsolete_params:
            new_name = obsolete_params[name]
            if new_name:
                warnings.warn(MSG, DeprecationWarning, stacklevel=2)
                processed_kwargs[new_name] = value
            else:
                warnings.warn(MSG, DeprecationWarning, stacklevel=2)
        else:
            processed_kwargs[name] = value
    return func(*args, **processed_kwargs)
'''
BUILTINS_USED = ['any', 'vars', 'type', 'getattr', 'list', 'DeprecationWarning']


class _AbstractMsg(ast.NodeTransformer):
    """warnings.warn(<pure text>, ...) -> warnings.warn(MSG, ...): the wording is not behaviour.
    The text must be a string constant or an f-string over plain names."""

    def visit_Call(self, node):
        self.generic_visit(node)
        if _dump(node.func) == _dump(_stmt('warnings.warn').value) and node.args:
            a0 = node.args[0]
            ok = isinstance(a0, ast.Constant) and isinstance(a0.value, str)
            if isinstance(a0, ast.JoinedStr):
                ok = all(isinstance(v, ast.Constant) or (isinstance(v, ast.FormattedValue) and isinstance(v.value, ast.Name))
                         for v in a0.values)
            if ok:
                node.args[0] = ast.Name('MSG', ast.Load())
        return node


def _only_doc_and(body):
    """strip a leading docstring"""
    if body and isinstance(body[0], ast.Expr) and isinstance(body[0].value, ast.Constant) and isinstance(body[0].value.value, str):
        return body[1:]
    return body


def _single_param(fn, name, where):
    a = fn.args
    if [p.arg for p in a.args] != [name] or a.posonlyargs or a.vararg or a.kwonlyargs or a.kwarg or a.defaults:
        raise Untranslatable(f'deprecated.py: {where} must take exactly the parameter `{name}`')


def _star_sig(fn, where):
    a = fn.args
    if a.args or a.posonlyargs or a.kwonlyargs or a.defaults or not a.vararg or not a.kwarg \
            or a.vararg.arg != 'args' or a.kwarg.arg != 'kwargs':
        raise Untranslatable(f'deprecated.py: {where} must have the signature (*args, **kwargs)')


def wrapper_stmts(body, flag):
    out = []
    for st in _only_doc_and(body):
        d = _dump(st)
        if isinstance(st, ast.Assign) and len(st.targets) == 1 and isinstance(st.targets[0], ast.Name) \
                and st.targets[0].id == 'msg' and isinstance(st.value, (ast.JoinedStr, ast.Constant)):
            if isinstance(st.value, ast.JoinedStr):
                for v in st.value.values:
                    if isinstance(v, ast.FormattedValue) and _dump(v.value) not in (T_NAME_OLD, T_NAME_NEW):
                        raise Untranslatable(f'deprecated.py:{st.lineno}: message interpolates `{ast.unparse(v.value)}`')
            out.append('WMsg')
        elif isinstance(st, ast.If) and _dump(st.test) == _dump(ast.Name('RAISE_EXCEPTION', ast.Load())) \
                and not st.orelse and len(st.body) == 1 and isinstance(st.body[0], ast.Raise) \
                and st.body[0].cause is None and isinstance(st.body[0].exc, ast.Call) \
                and _dump(st.body[0].exc.func) == _dump(ast.Name('BiogemeError', ast.Load())):
            out.append(f'WIfFlagRaise {"true" if flag else "false"}')
        elif isinstance(st, ast.Expr) and isinstance(st.value, ast.Call) and len(st.value.keywords) == 1 \
                and st.value.keywords[0].arg == 'stacklevel' and isinstance(st.value.keywords[0].value, ast.Constant) \
                and isinstance(st.value.keywords[0].value.value, int):
            c = ast.parse(ast.unparse(st)).body[0]
            c.value.keywords[0].value = ast.Constant(2)
            if _dump(c) != T_WARN:
                raise Untranslatable(f'deprecated.py:{st.lineno}: unexpected call `{ast.unparse(st)}`')
            out.append('WWarn')
        elif isinstance(st, ast.If) and _dump(st.test) == T_OWNED_TEST and not st.orelse:
            out.append('WIfOwned ' + coq_list(wrapper_stmts(st.body, flag)))
        elif d == T_RET_CAPTURED:
            out.append('WReturn CallCaptured')
        elif d == T_RET_RECEIVER:
            out.append('WReturn CallOnReceiver')
        else:
            raise Untranslatable(f'deprecated.py:{st.lineno}: statement of the wrapper outside the modelled forms: '
                                 f'`{ast.unparse(st)[:120]}`')
    return ['(' + s + ')' if ' ' in s else s for s in out]


def extract_decorators(pkg):
    m = pkg.modules[DEPR_MOD]
    for b in BUILTINS_USED + ['BiogemeError']:
        bb = m.lookup(b)
        if b == 'BiogemeError':
            if bb is None or bb[2] != 'from' or bb[3] != ('biogeme.exceptions', 'BiogemeError'):
                raise Untranslatable('deprecated.py: BiogemeError is not biogeme.exceptions.BiogemeError')
        elif bb is not None:
            raise Untranslatable(f'deprecated.py: the builtin `{b}` is shadowed at module level')
    for modn in ('warnings', 'functools', 'inspect'):
        bb = m.lookup(modn)
        if bb is None or bb[2] != 'module' or bb[3] != modn:
            raise Untranslatable(f'deprecated.py: `{modn}` is not the standard module')
    flags = [b for b in m.bind if b[0] == 'RAISE_EXCEPTION']
    if len(flags) != 1 or flags[0][2] != 'assign' or not isinstance(flags[0][3], ast.Assign) \
            or not isinstance(flags[0][3].value, ast.Constant) or not isinstance(flags[0][3].value.value, bool):
        raise Untranslatable('deprecated.py: RAISE_EXCEPTION is not a single boolean constant')
    flag = flags[0][3].value.value
    for n in ast.walk(m.tree):
        if isinstance(n, (ast.Global, ast.Nonlocal)):
            raise Untranslatable('deprecated.py: global/nonlocal statement')
        if isinstance(n, (ast.Assign, ast.AugAssign, ast.AnnAssign)) and n is not flags[0][3]:
            tg = n.targets if isinstance(n, ast.Assign) else [n.target]
            if any(isinstance(t, ast.Name) and t.id == 'RAISE_EXCEPTION' for t in tg):
                raise Untranslatable('deprecated.py: RAISE_EXCEPTION assigned twice')
    # ---- deprecated
    b = m.lookup('deprecated')
    if b is None or b[2] != 'def' or b[3].decorator_list:
        raise Untranslatable('deprecated.py: `deprecated` is not a plain top-level function')
    fn = b[3]
    _single_param(fn, 'new_func', 'deprecated')
    body = _only_doc_and(fn.body)
    if len(body) != 2 or not isinstance(body[0], ast.FunctionDef) or body[0].name != 'decorator' \
            or _dump(body[1]) != _dump(_stmt('return decorator')):
        raise Untranslatable('deprecated.py: deprecated() is not `def decorator ...; return decorator`')
    dec = body[0]
    _single_param(dec, 'old_func', 'deprecated.decorator')
    if dec.decorator_list:
        raise Untranslatable('deprecated.py: decorator() is decorated')
    dbody = _only_doc_and(dec.body)
    if len(dbody) != 4 or not isinstance(dbody[0], ast.FunctionDef) or dbody[0].name != 'wrapper' \
            or _dump(dbody[1]) != T_MARK1 or _dump(dbody[2]) != T_MARK2 or _dump(dbody[3]) != _dump(_stmt('return wrapper')):
        raise Untranslatable('deprecated.py: decorator() is not `def wrapper; wrapper.__deprecated__ = True; '
                             'wrapper.__newname__ = new_func.__name__; return wrapper`')
    w = dbody[0]
    _star_sig(w, 'deprecated.wrapper')
    if len(w.decorator_list) != 1 or _dump(w.decorator_list[0]) != T_WRAPS:
        raise Untranslatable('deprecated.py: wrapper is not decorated by functools.wraps(old_func) alone')
    prog = wrapper_stmts(w.body, flag)
    # ---- deprecated_parameters
    b = m.lookup('deprecated_parameters')
    if b is None or b[2] != 'def' or b[3].decorator_list:
        raise Untranslatable('deprecated.py: `deprecated_parameters` is not a plain top-level function')
    fn = b[3]
    _single_param(fn, 'obsolete_params', 'deprecated_parameters')
    body = _only_doc_and(fn.body)
    if len(body) != 2 or not isinstance(body[0], ast.FunctionDef) or body[0].name != 'decorator' \
            or _dump(body[1]) != _dump(_stmt('return decorator')):
        raise Untranslatable('deprecated.py: deprecated_parameters() is not `def decorator ...; return decorator`')
    dec = body[0]
    _single_param(dec, 'func', 'deprecated_parameters.decorator')
    dbody = _only_doc_and(dec.body)
    # an unused `func_signature = inspect.signature(func)` is tolerated (pure for functions)
    dbody = [s for s in dbody if _dump(s) != _dump(_stmt('func_signature = inspect.signature(func)'))]
    if len(dbody) != 2 or not isinstance(dbody[0], ast.FunctionDef) or _dump(dbody[1]) != _dump(_stmt('return wrapper')):
        raise Untranslatable('deprecated.py: deprecated_parameters.decorator() has an unexpected shape')
    w = dbody[0]
    if len(w.decorator_list) != 1 or _dump(w.decorator_list[0]) != _dump(_stmt('functools.wraps(func)').value):
        raise Untranslatable('deprecated.py: keyword wrapper is not decorated by functools.wraps(func) alone')
    w2 = ast.parse(ast.unparse(w)).body[0]
    w2.decorator_list = []
    w2.returns = None
    w2.body = _only_doc_and(w2.body)
    w2 = _AbstractMsg().visit(w2)
    expected = ast.parse(T_DP_WRAPPER).body[0]
    if _dump(w2) != _dump(expected):
        raise Untranslatable('deprecated.py: the wrapper of deprecated_parameters differs from the modelled renaming loop '
                             '(Model/Alias.v rename_kwargs):\n' + ast.unparse(w2))
    return {'flag': flag, 'prog': prog}


def toml_parameter_names(pkg):
    m = pkg.modules.get('biogeme.default_parameters')
    if m is None:
        raise Untranslatable('biogeme/default_parameters.py not found')
    names = []
    for n in ast.walk(m.tree):
        if isinstance(n, ast.Call) and isinstance(n.func, ast.Name) and n.func.id == 'ParameterTuple':
            for k in n.keywords:
                if k.arg == 'name':
                    if not (isinstance(k.value, ast.Constant) and isinstance(k.value.value, str)):
                        raise Untranslatable('default_parameters.py: non-literal parameter name')
                    names.append(k.value.value)
    if not names:
        raise Untranslatable('default_parameters.py: no ParameterTuple(name=...) found')
    return sorted(set(names))


# ----------------------------------------------------------------------------------------------
# Emission
# ----------------------------------------------------------------------------------------------
def cs(s):
    try:
        return coq_string(s)
    except AssertionError:
        raise Untranslatable(f'non-ASCII text in a table: {s!r}')


def c_ostr(s):
    return 'None' if s is None else f'(Some {cs(s)})'


def c_param(p):
    return f'mkParam {cs(p["name"])} {p["kind"]} {c_ostr(p["default"])}'


def c_fid(f):
    return f'(mkFid {cs(f["mod"])} {cs(f["owner"])} {cs(f["name"])} {f["line"]})'


def c_kwmap(m):
    return coq_list([f'({cs(k)}, {c_ostr(v)})' for k, v in m])


def extract(root=PKG_ROOT):
    return extract_from(Extractor(root).run())


def extract_from(ex, deco=None):
    if deco is None:
        deco = extract_decorators(ex.pkg)
    toml = toml_parameter_names(ex.pkg)
    for a in ex.aliases:
        a['final'] = None
        if a['kind'] != 'Instance':
            r = ex.module_final(a['mod'], a['new'])
            a['final'] = r[1] if r and r[0] == 'Fn' else None
    for k in ex.kwuses:
        k['extra'] = toml if (k['mod'], k['owner'], k['name']) in KWARGS_ARE_TOML_PARAMETERS else []
    return {'aliases': ex.aliases, 'kwuses': ex.kwuses, 'classes': ex.classes, 'deco': deco, 'toml': toml}


def emit(tab):
    L = ['From BV Require Import Model.Alias.', 'From Coq Require Import ZArith List String.',
         'Import ListNotations.', 'Open Scope string_scope.', 'Open Scope Z_scope.', '']
    L.append('(* src/biogeme/deprecated.py: module constant RAISE_EXCEPTION and the body of the wrapper of `deprecated` *)')
    L.append(f'Definition raise_exception_flag : bool := {"true" if tab["deco"]["flag"] else "false"}.')
    L.append('Definition deprecated_wrapper : list wstmt :=\n  ' + coq_list(tab['deco']['prog'], ';\n   ') + '.')
    L.append('(* the wrapper of `deprecated_parameters` matched the renaming loop modelled by Alias.rename_kwargs *)')
    L.append('')
    al = []
    for i, a in enumerate(tab['aliases']):
        al.append(
            f'(* {i}: {a["mod"]}:{a["owner"] + "." if a["owner"] else ""}{a["old"]} -> {a["new"]} *)\n'
            f'  mkAlias {cs(a["mod"])} {cs(a["owner"])} {cs(a["old"])} {a["line"]} {a["kind"]} {cs(a["new"])}\n'
            f'    {c_fid(a["captured"])} {a["captured_kind"]} {c_kwmap(a["captured_kwmap"])}\n'
            f'    {coq_list([c_param(p) for p in a["old_params"]])}\n'
            f'    {coq_list([c_param(p) for p in a["new_params"]])}\n'
            f'    {c_ostr(a["doc_same_as"])} {"(Some " + c_fid(a["final"]) + ")" if a["final"] else "None"}')
    L.append('Definition aliases : list alias :=\n  [' + ';\n  '.join(al) + '].')
    L.append('')
    cl = []
    for q in sorted(tab['classes']):
        c = tab['classes'][q]
        ents = []
        for name in sorted(c['dict']):
            v = c['dict'][name]
            if v[0] == 'Other':
                ents.append(f'({cs(name)}, AOther)')
            elif v[0] == 'Alias':
                ents.append(f'({cs(name)}, AAlias {v[1]}%nat)')
            else:
                ents.append(f'({cs(name)}, AFn {c_fid(v[1])} {v[2]})')
        cl.append(f'mkCls {cs(q)} {coq_list([cs(b) for b in c["bases"]])}\n    {coq_list([cs(b) for b in c["mro"]])}\n    '
                  + coq_list(ents, ';\n     '))
    L.append('Definition classes : list cls :=\n  [' + ';\n  '.join(cl) + '].')
    L.append('')
    kw = []
    for k in tab['kwuses']:
        kw.append(f'mkKw {cs(k["mod"])} {cs(k["owner"])} {cs(k["name"])} {k["line"]} {c_kwmap(k["map"])}\n    '
                  f'{coq_list([c_param(p) for p in k["params"]])}\n    {coq_list([cs(x) for x in k["extra"]])}')
    L.append('Definition kwuses : list kwuse :=\n  [' + ';\n  '.join(kw) + '].')
    L.append('')
    L.append('Definition toml_parameter_names : list string := ' + coq_list([cs(x) for x in tab['toml']]) + '.')
    L.append('(* copy of the reviewed table used by the harness oracles (proved equal to Alias.renamed_reviewed) *)')
    L.append('Definition harness_renamed : list (string * string * string * string) :=\n  '
             + coq_list([f'({cs(k[0])}, {cs(k[1])}, {cs(k[2])}, {cs(v)})' for k, v in RENAMED.items()], ';\n   ') + '.')
    L.append('Definition T : tables := mkTables aliases classes kwuses.')
    return '\n'.join(L) + '\n'


def gen_all(ctx):
    tab = extract()
    ctx.gen('AliasTable', emit(tab))
    return tab


# ==============================================================================================
# Harness: static oracles, streams, run / replay
# ==============================================================================================
ASSUME = [
    'a function object is identified with its definition site (module, owner class, name, first line): one def '
    'statement executed once at import creates one function object; checked at run time against co_firstlineno / '
    'co_qualname of every alias and of every function reached (streams alias_enum, alias_reach)',
    'classes are the top-level classes of the package; external base classes contribute no biogeme attribute; user '
    'subclasses outside the package are not enumerated (the wrapper theorem T20e covers every calling context, the '
    'table theorems cover the 118 package classes)',
    'the body of a replacement is not modelled: "same result and side effects" is proved as "the same function object is '
    'entered with the same arguments after exactly one DeprecationWarning" and observed by stream alias_dyn',
    'static and module-level aliases receive no receiver: T20b_no_receiver_sound proves the side conditions '
    '(static aliases are nullary; no package class dictionary holds the replacement of a module-level alias)',
]
TRUSTED = [
    'tie A: the fail-closed ast extractor in /verif/lib/props/C20.py (whole package, re-run on every check); its output '
    'is cross-checked on every run against Python itself: __deprecated__ objects, closures of deprecated_parameters, '
    'cls.__mro__, inspect.getattr_static (stream alias_enum) and the function actually entered (stream alias_reach)',
    'the reviewed exception tables in Model/Alias.v (3 renamed aliases, 3 declared-signature deviations), justified there',
    'the recipes of stream alias_dyn (representative arguments); coverage is reported, not assumed',
]


def fold(s):
    return s.replace('_', '').lower()


def alias_key(a):
    return f'{a["mod"]}:{a["owner"] + "." if a["owner"] else ""}{a["old"]}'


def py_mro_lookup(tab, cls, name):
    for k in tab['classes'][cls]['mro']:
        d = tab['classes'][k]['dict']
        if name in d:
            return k, d[name]
    return None


def py_exposes(tab):
    """(class, old name, alias index) for every class exposing an alias"""
    out = []
    names = {a['old'] for a in tab['aliases'] if a['owner']}
    for q in sorted(tab['classes']):
        for n in sorted(names):
            r = py_mro_lookup(tab, q, n)
            if r and r[1][0] == 'Alias':
                out.append((q, n, r[1][1]))
    return out


def documented_replacement(tab, ex_pkg, a):
    """The replacement the OLD NAME designates, independently of the decorator's argument:
    docstring 'Same as X' > reviewed renaming > the unique live function of the same scope whose
    folded name equals the folded old name."""
    if a['doc_same_as']:
        return a['doc_same_as']
    k = (a['mod'], a['owner'], a['old'])
    if k in RENAMED:
        return RENAMED[k]
    cands = set()
    if a['owner']:
        q = f'{a["mod"]}:{a["owner"]}'
        for kq in tab['classes'][q]['mro']:
            for n, v in tab['classes'][kq]['dict'].items():
                if v[0] == 'Fn' and fold(n) == fold(a['old']) and n != a['old']:
                    cands.add(n)
    if not cands:
        m = ex_pkg.modules[a['mod']]
        for b in m.bind:
            if b[2] in ('def', 'from') and fold(b[0]) == fold(a['old']) and b[0] != a['old']:
                if b[2] == 'def' and any(isinstance(d, ast.Call) and getattr(d.func, 'id', getattr(d.func, 'attr', '')) == 'deprecated'
                                         for d in b[3].decorator_list):
                    continue
                cands.add(b[0])
    return sorted(cands)[0] if len(cands) == 1 else None


# ----------------------------------------------------------------------------- static oracles
def params_agree(a):
    kw = dict(a['captured_kwmap'])

    def ok(o, n):
        return (o['name'] == n['name'] or kw.get(o['name']) == n['name']) and o['kind'] == n['kind'] and o['default'] == n['default']

    op, np_ = a['old_params'], a['new_params']
    return len(op) == len(np_) and all(ok(o, n) for o, n in zip(op, np_))


PARAM_EXC = {  # mirror of Alias.param_exceptions_reviewed (the theorem uses the Coq table)
    ('biogeme.database', 'Database', 'generateDraws'): ('rename', 1, 'types', 'draw_types'),
    ('biogeme.models.nested', '', 'getMevForNested'): ('rename', 0, 'V', 'util'),
    ('biogeme.expressions.base_expressions', 'Expression', 'getValueAndDerivatives'): ('extra', ['named_results']),
}


def params_agree_modulo(a):
    if params_agree(a):
        return True
    e = PARAM_EXC.get((a['mod'], a['owner'], a['old']))
    if not e:
        return False
    b = dict(a)
    if e[0] == 'rename':
        ps = [dict(p) for p in a['old_params']]
        if e[1] < len(ps) and ps[e[1]]['name'] == e[2]:
            ps[e[1]]['name'] = e[3]
        b['old_params'] = ps
    else:
        ps = list(a['new_params'])
        while ps and ps[-1]['name'] in e[1] and ps[-1]['default'] is not None and ps[-1]['kind'] == 'PosOrKw':
            ps.pop()
        b['new_params'] = ps
    return params_agree(b)


def static_oracles(ctx, tab, pkg):
    """Direct evaluation of the static clauses on the extracted facts; every failure is a concrete
    witness (alias, what is declared, what is expected)."""
    for a in tab['aliases']:
        key = alias_key(a)
        if not params_agree_modulo(a):
            ctx.violation(f'C20/params/{key}', f'deprecated {key} does not declare the parameters of its replacement {a["new"]}',
                          {'alias': key, 'replacement': a['new'], 'old_params': a['old_params'], 'new_params': a['new_params']},
                          'same names / order / kinds / defaults (or an old spelling renamed by the replacement\'s keyword map)',
                          'declared parameter lists differ',
                          how=f'compare inspect.signature({a["old"]}) and inspect.signature({a["new"]}) in {a["mod"]}')
        exp = documented_replacement(tab, pkg, a)
        if exp is None or exp != a['new']:
            ctx.violation(f'C20/name/{key}', f'deprecated {key} forwards to `{a["new"]}` but its name designates `{exp}`',
                          {'alias': key, 'forwards_to': a['new'], 'designated': exp, 'docstring_same_as': a['doc_same_as']},
                          exp, a['new'],
                          how=f'read the decorator of {a["old"]} in {a["mod"]}; stream alias_dyn compares it with `{exp}`')
    for k in tab['kwuses']:
        where = f'{k["mod"]}:{k["owner"] + "." if k["owner"] else ""}{k["name"]}'
        named = [p['name'] for p in k['params'] if p['kind'] in ('PosOrKw', 'KwOnly')]
        varkw = any(p['kind'] == 'VarKw' for p in k['params'])
        news = [n for _, n in k['map'] if n is not None]
        olds = [o for o, _ in k['map']]
        bad = [n for n in news if not (n in named or (varkw and n in k['extra']))]
        prob = None
        if bad:
            prob = f'new keyword(s) {bad} are not parameters of {k["name"]}'
        elif len(set(news)) != len(news):
            prob = 'two old keywords map to the same new keyword'
        elif len(set(olds)) != len(olds) or set(olds) & set(p['name'] for p in k['params']) or set(olds) & set(news):
            prob = 'an old keyword is listed twice, is still a live parameter, or is itself a new keyword'
        if prob:
            ctx.violation(f'C20/kwmap/{where}', f'@deprecated_parameters of {where}: {prob}',
                          {'function': where, 'map': k['map'], 'parameters': [p['name'] for p in k['params']]},
                          'a well-formed renaming', prob, how=f'call {k["name"]} with the old keyword')


# ----------------------------------------------------------------------------------- streams
def stream_enum(ctx, tab):
    st = ctx.stream('alias_enum', 'static extraction vs Python itself after importing every module of the package: one case '
                    'per alias (module, owner, old, new, first line), per @deprecated_parameters use (closure map), per class '
                    '(package part of __mro__), per exposing (class, old name) pair (inspect.getattr_static); all non-trivial')
    rt = ctx.impl('c20_enum.py', {'mode': 'enum'})
    if rt['import_errors']:
        ctx.stream_broken('alias_enum', f'modules that could not be imported: {rt["import_errors"]}')
    S = {(a['mod'], a['owner'], a['old'], a['new'], a['line']): a for a in tab['aliases']}
    D = {(a['mod'], a['owner'], a['old'], a['new'], a['line']): a for a in rt['aliases']}
    for k in sorted(set(S) | set(D), key=str):
        st.record({'alias': list(k)})
        if k not in S or k not in D:
            st.disagree({'alias': list(k)}, 'in the static table' if k in S else 'absent from the static table',
                        'found at run time' if k in D else 'not found at run time')
    for k, a in D.items():
        if a.get('binder') == 'staticmethod' and k in S and S[k]['kind'] != 'Static':
            st.disagree({'alias': list(k)}, S[k]['kind'], 'staticmethod')
    SK = {(k['mod'], k['owner'], k['name'], k['line']): sorted([o, n] for o, n in k['map']) for k in tab['kwuses']}
    DK = {(k['mod'], k['owner'], k['name'], k['line']): k['map'] for k in rt['kws']}
    for k in sorted(set(SK) | set(DK), key=str):
        st.record({'kwuse': list(k)})
        if SK.get(k) != DK.get(k):
            st.disagree({'kwuse': list(k)}, SK.get(k), DK.get(k))
    for q, c in sorted(tab['classes'].items()):
        st.record({'mro': q})
        if rt['mros'].get(q) != c['mro']:
            st.disagree({'class': q}, c['mro'], rt['mros'].get(q))
    SE = {(q, n): tab['aliases'][i]['line'] for q, n, i in py_exposes(tab)}
    DE = {(e['cls'], e['old']): e['line'] for e in rt['exposes']}
    for k in sorted(set(SE) | set(DE)):
        st.record({'exposes': list(k)})
        if SE.get(k) != DE.get(k):
            st.disagree({'exposes': list(k)}, SE.get(k), DE.get(k))
    extra = sorted(set(rt['mros']) - set(tab['classes']))
    st.extra['runtime_classes_not_in_table'] = extra
    st.extra['counts'] = {'aliases': len(S), 'keyword_maps': len(SK), 'classes': len(tab['classes']), 'exposing_pairs': len(SE)}
    if st.disagreements:
        ctx.stream_broken('alias_enum', f'{len(st.disagreements)} disagreements, first: {st.disagreements[0]}')
    return rt


REACH_HEAD = '''From BV Require Import Model.Alias Gen.AliasTable.
From Coq Require Import ZArith List String Bool.
Import ListNotations.
Open Scope string_scope.
Definition reach_module (a : alias) : option fid :=
  match run_wrapper deprecated_wrapper {| has_args := true; owned := false |},
        run_wrapper deprecated_wrapper {| has_args := false; owned := false |} with
  | (_, OForward CallCaptured), (_, OForward CallCaptured) => Some (a_captured a)
  | _, _ => None end.
Definition chk (c : string * string * string * fid) : bool :=
  let '(cn, mn, old, f) := c in
  if String.eqb cn "" then
    existsb (fun a => String.eqb (a_mod a) mn && String.eqb (a_owner a) "" && String.eqb (a_old a) old &&
                      ofid_eqb (reach_module a) (Some f)) aliases
  else match find_cls classes cn with
       | Some k => ofid_eqb (reach fuel_reach deprecated_wrapper T k old) (Some f)
       | None => false end.
'''


def stream_reach(ctx, tab):
    st = ctx.stream('alias_reach', 'every alias on every exposing package class (bare instance, None for each required '
                    'parameter) and every module-level alias: the first package function entered after the wrappers of '
                    'deprecated.py (sys.setprofile; the call is aborted at its entry) vs the model\'s reach; non-trivial = the '
                    'class resolves the new name to another function than the captured one, or the alias is module-level')
    cases = [{'cls': q, 'mod': '', 'old': n, 'idx': i} for q, n, i in py_exposes(tab)]
    cases += [{'cls': '', 'mod': a['mod'], 'old': a['old'], 'idx': i} for i, a in enumerate(tab['aliases']) if not a['owner']]
    shards = [cases[i::8] for i in range(8)]
    outs = ctx.impl_parallel('c20_enum.py', [{'mode': 'reach', 'cases': s} for s in shards])
    res = {}
    for s, o in zip(shards, outs):
        for c, r in zip(s, o['results']):
            res[(c['cls'], c['mod'], c['old'])] = r
    items, kept = [], []
    for c in cases:
        r = res[(c['cls'], c['mod'], c['old'])]
        a = tab['aliases'][c['idx']]
        nontriv = True
        if c['cls']:
            hit = py_mro_lookup(tab, c['cls'], a['new'])
            nontriv = bool(hit and hit[1][0] == 'Fn' and hit[1][1] != a['captured'])
        st.record({k: c[k] for k in ('cls', 'mod', 'old')}, nontrivial=nontriv)
        if not r.get('ok'):
            st.disagree(c, 'a function of the package is entered', r)
            continue
        qual = r['qual'].split('.')
        owner, name = ('.'.join(qual[:-1]), qual[-1]) if len(qual) > 1 else ('', qual[0])
        fid = {'mod': r['mod'] or '?', 'owner': owner, 'name': name, 'line': r['line']}
        try:
            items.append(f'({cs(c["cls"])}, {cs(c["mod"])}, {cs(c["old"])}, {c_fid(fid)})')
            kept.append((c, r))
        except Untranslatable:
            st.disagree(c, 'ascii', r)
    files, B = {}, 350
    for i in range(0, len(items), B):
        files[f'reach_{i // B}'] = (REACH_HEAD + 'Definition cases := ' + coq_list(items[i:i + B], ';\n') + '.\n'
                                    'Eval vm_compute in (List.map chk cases).\n')
    outs = ctx.coq_eval_many(files)
    for k in sorted(files, key=lambda s: int(s.split('_')[1])):
        ok, out = outs[k]
        i0 = int(k.split('_')[1]) * B
        n_here = len(items[i0:i0 + B])
        if not ok:
            ctx.stream_broken('alias_reach', 'model evaluation failed: ' + out[-600:])
            continue
        bs = parse_bools(out)
        if len(bs) != n_here:
            ctx.stream_broken('alias_reach', f'could not parse model output ({len(bs)} results for {n_here} cases)')
            continue
        for j, b in enumerate(bs):
            if not b:
                c, r = kept[i0 + j]
                st.disagree(c, 'model reach differs', r)
    if st.disagreements:
        ctx.stream_broken('alias_reach', f'{len(st.disagreements)} disagreements, first: {st.disagreements[0]}')


def dyn_cases(ctx, tab, pkg, rt):
    rng = ctx.sub_rng('alias_dyn')
    cases = []

    def variants():
        if not ctx.quick:
            return list(range(8))
        # the plain recipe (variant 0 or 4) plus one of the edge recipes (other residues mod 4)
        return [4 * rng.randrange(2), rng.choice([1, 2, 3]) + 4 * rng.randrange(2)]

    expo = py_exposes(tab)
    for q, n, i in expo:
        a = tab['aliases'][i]
        exp = documented_replacement(tab, pkg, a)
        vs = variants()
        hit = py_mro_lookup(tab, q, a['new'])
        plain = (q != f'{a["mod"]}:{a["owner"]}' and hit and hit[1][0] == 'Fn' and hit[1][1] == a['captured'])
        if ctx.quick and plain:
            # an inheriting class that does not redefine the replacement: one variant is enough in the quick tier
            vs = [rng.choice(vs)]
        for v in vs:
            cases.append({'cls': q, 'mod': q.split(':')[0], 'old': n, 'new': exp, 'variant': v, 'seed': rng.randrange(10 ** 6),
                          'alias': alias_key(a)})
    for i, a in enumerate(tab['aliases']):
        if a['owner']:
            continue
        exp = documented_replacement(tab, pkg, a)
        for v in variants():
            cases.append({'cls': '', 'mod': a['mod'], 'old': a['old'], 'new': exp, 'variant': v, 'seed': rng.randrange(10 ** 6),
                          'alias': alias_key(a)})
    return cases


def load_corpus(name):
    from common import VERIF
    out = []
    d = VERIF / 'corpus' / 'C20'
    if d.exists():
        for p in sorted(d.glob('*.json')):
            j = json.loads(p.read_text())
            if j.get('stream') == name:
                out += j['cases']
    return out


def judge_dyn(ctx, st, r, kw=False):
    """property oracle on one side-by-side run"""
    c = r['case']
    who = (c.get('cls') or c['mod']) + '.' + (c.get('old') or f'{c["func"]}({c["okw"]}=)')
    if r['status'] != 'ran':
        return
    call = {k: c[k] for k in c if k != 'alias'}
    how = ('./check C20 --replay <this file>  (runs lib/impl/c20_dyn.py on the witness: the old name and the replacement '
           'are called on freshly built objects with the same arguments)')
    for d in r['diffs']:
        comp = d['component']
        ctx.violation(f'C20/{"kw" if kw else "dyn"}/{who}/{comp}',
                      f'{who}: calling the old name differs from calling `{c.get("new") or c.get("nkw")}` in {comp} at {d["at"]}',
                      call, d.get('new'), d.get('old'), how)
        break
    want = 1
    if r['alias_warnings'] != want:
        ctx.violation(f'C20/{"kw" if kw else "dyn"}/{who}/warning-count',
                      f'{who}: expected exactly one DeprecationWarning naming the old and the new name, saw {r["alias_warnings"]}',
                      call, 'exactly one', {'count': r['alias_warnings'], 'seen': r['deprecation_seen']}, how)


def stream_dyn(ctx, tab, pkg, rt):
    st = ctx.stream('alias_dyn', 'every alias on every exposing class (and every module-level alias) x argument variants: the '
                    'old name and the replacement its NAME designates (docstring "Same as X" / reviewed renaming / folded-name '
                    'match -- not the decorator argument) are called on freshly built objects in separate processes and empty '
                    'directories: result, exception, receiver+argument state, files, log records, stdout, other warnings '
                    'compared structurally (object ids / time stamps canonicalised, doubles within 1e-9 relative for '
                    'thread-order noise, components that differ between two runs of the replacement itself ignored); exactly '
                    'one DeprecationWarning "<old> is deprecated; use <new> instead."; non-trivial = the call did not raise')
    cases = load_corpus('alias_dyn') + dyn_cases(ctx, tab, pkg, rt)
    nshard = 16
    shards = [cases[i::nshard] for i in range(nshard)]
    outs = ctx.impl_parallel('c20_dyn.py', [{'cases': s} for s in shards], timeout=1500)
    results = [r for o in outs for r in o['results']]
    per_alias, per_pair = {}, {}
    status = {}
    for r in results:
        c = r['case']
        status[r['status']] = status.get(r['status'], 0) + 1
        if r['status'] == 'no-replacement':
            continue  # reported by the static oracle C20/name/...
        if r['status'] == 'harness-error':
            raise RuntimeError(f'c20_dyn.py failed on {c}: {r.get("why")} {r.get("tb", "")}')
        ak = c.get('alias') or f'{c["mod"]}:{c["old"]}'
        pk = (c['cls'] or c['mod'], c['old'])
        per_alias.setdefault(ak, set()).add(r['status'] if r['status'] != 'ran' else ('raised' if r['raised'] else 'ok'))
        per_pair.setdefault(pk, set()).add(r['status'] if r['status'] != 'ran' else ('raised' if r['raised'] else 'ok'))
        if r['status'] == 'ran':
            st.record({k: c[k] for k in ('cls', 'mod', 'old', 'new', 'variant', 'seed')}, nontrivial=not r['raised'])
            judge_dyn(ctx, st, r)
    all_aliases = {alias_key(a) for a in tab['aliases']}
    ran = {k for k, v in per_alias.items() if v & {'ok', 'raised'}}
    ok = {k for k, v in per_alias.items() if 'ok' in v}
    pairs_ran = {k for k, v in per_pair.items() if v & {'ok', 'raised'}}
    overriding = set()
    abstract = set(rt.get('abstract', []))
    for q, n, i in py_exposes(tab):
        if q in abstract:
            continue  # no instance of an abstract class can exist
        a = tab['aliases'][i]
        hit = py_mro_lookup(tab, q, a['new'])
        if hit and hit[1][0] == 'Fn' and hit[1][1] != a['captured']:
            overriding.add((q, n))
    st.extra['coverage'] = {
        'aliases_total': len(all_aliases), 'aliases_called': len(ran & all_aliases),
        'aliases_called_without_exception_at_least_once': len(ok & all_aliases),
        'aliases_never_called': sorted(all_aliases - ran),
        'aliases_only_raising': sorted((ran - ok) & all_aliases),
        'pairs_total': len(per_pair), 'pairs_called': len(pairs_ran),
        'overriding_pairs_total': len(overriding), 'overriding_pairs_called': len(overriding & pairs_ran),
        'overriding_pairs_not_called': sorted(map(list, overriding - pairs_ran)),
        'abstract_classes_skipped': sorted(abstract & {q for q, _, _ in py_exposes(tab)}),
        'status': status,
    }
    # fail closed when the recipes degenerate
    if len(ran & all_aliases) < 0.9 * len(all_aliases) or len(overriding & pairs_ran) < 0.9 * len(overriding):
        ctx.stream_broken('alias_dyn', f'coverage degenerated: {st.extra["coverage"]}')


# Falsy values that are type-plausible for each old keyword: an old keyword given explicitly with such a value must be
# renamed and warned about like any other ("not set" is expressed by omitting the keyword, not by its value).
FALSY = {
    'onlyRobust': [None, False, 0], 'robustStdErr': [None, False, 0], 'useBootstrap': [None, False, 0],
    'myBetas': [None, []], 'pickleFile': [None, ''], 'theRawResults': [None],
    'suggestScales': [None, False], 'numberOfThreads': [None, 0], 'numberOfDraws': [None, 0], 'missingData': [None, 0],
    'parameter_file': [None], 'userNotes': [None, ''], 'generateHtml': [None, False], 'saveIterations': [None, False],
    'seed_param': [None, 0], 'bootstrap': [None, False, 0], 'theBetaValues': [None, {}],
    'prepareIds': [None, False, 0], 'uniformNumbers': [None],
}


def kw_cases(ctx, tab):
    rng = ctx.sub_rng('kw_dyn')
    cases = []

    def falsy(o):
        vals = FALSY.get(o, [None])
        if not ctx.quick:
            return vals
        # quick tier: None always, plus one of the other falsy values
        return [vals[0]] + ([rng.choice(vals[1:])] if len(vals) > 1 else [])
    for k in tab['kwuses']:
        q = f'{k["mod"]}:{k["owner"]}' if k['owner'] else ''
        live = [p['name'] for p in k['params'] if p['kind'] in ('PosOrKw', 'KwOnly')] + list(k['extra'])
        for o, n in k['map']:
            # the new keyword the OLD SPELLING designates (folded-name match among the live parameters), when there is
            # one; otherwise the one the map names
            des = [p for p in live if fold(p) == fold(o)]
            if n is not None and len(des) == 1:
                n = des[0]
            for v in range(ctx.n(1, 3)):
                cases.append({'kind': 'kw', 'cls': q, 'mod': k['mod'], 'func': k['name'], 'okw': o, 'nkw': n, 'variant': v,
                              'seed': rng.randrange(10 ** 6), 'via': None})
            for fv in falsy(o):
                cases.append({'kind': 'kw', 'cls': q, 'mod': k['mod'], 'func': k['name'], 'okw': o, 'nkw': n,
                              'variant': rng.randrange(3), 'seed': rng.randrange(10 ** 6), 'via': None, 'fv': {'value': fv}})
    # the old spelling through the deprecated alias of the function (T20a's keyword-map clause)
    for a in tab['aliases']:
        for o, n in a['captured_kwmap']:
            if any(p['name'] == o for p in a['old_params']):
                q = f'{a["mod"]}:{a["owner"]}' if a['owner'] else ''
                cases.append({'kind': 'kw', 'cls': q, 'mod': a['mod'], 'func': a['new'], 'okw': o, 'nkw': n, 'variant': 0,
                              'seed': rng.randrange(10 ** 6), 'via': a['old']})
                cases.append({'kind': 'kw', 'cls': q, 'mod': a['mod'], 'func': a['new'], 'okw': o, 'nkw': n, 'variant': 0,
                              'seed': rng.randrange(10 ** 6), 'via': a['old'], 'fv': {'value': None}})
    return cases


def stream_kw(ctx, tab):
    st = ctx.stream('kw_dyn', 'every (function, old keyword -> new keyword) of every @deprecated_parameters map: the function '
                    'called with the old keyword vs with the new one (ignored keywords: vs without it), same comparison as '
                    'alias_dyn, exactly one DeprecationWarning for the keyword; values: representative ones and the type-plausible falsy '
                    'ones (None, False, 0, "", [], {}); plus the old spelling passed through the '
                    'deprecated alias of the function; non-trivial = the call did not raise')
    cases = kw_cases(ctx, tab)
    nshard = 12
    shards = [cases[i::nshard] for i in range(nshard)]
    outs = ctx.impl_parallel('c20_dyn.py', [{'cases': s} for s in shards], timeout=1500)
    status, uncovered = {}, []
    for o in outs:
        for r in o['results']:
            c = r['case']
            status[r['status']] = status.get(r['status'], 0) + 1
            if r['status'] == 'harness-error':
                raise RuntimeError(f'c20_dyn.py failed on {c}: {r.get("why")} {r.get("tb", "")}')
            if r['status'] == 'ran':
                st.record(c, nontrivial=not r['raised'])
                judge_dyn(ctx, st, r, kw=True)
            else:
                uncovered.append([c['cls'] or c['mod'], c['func'], c['okw'], r['status'], r.get('why', '')[:80]])
    st.extra['coverage'] = {'keyword_entries': len({(c['cls'], c['mod'], c['func'], c['okw']) for c in cases}),
                            'status': status, 'not_called': uncovered[:40]}


KW_HEAD = '''From BV Require Import Model.Alias.
From Coq Require Import ZArith List String Bool.
Import ListNotations.
Open Scope string_scope.
Definition ev_eqb (a b : kwevent) : bool :=
  match a, b with
  | EvRenamed o n, EvRenamed o' n' => String.eqb o o' && String.eqb n n'
  | EvIgnored o, EvIgnored o' => String.eqb o o'
  | _, _ => false end.
Definition kv_eqb (a b : string * Z) : bool := String.eqb (fst a) (fst b) && Z.eqb (snd a) (snd b).
(* values are opaque to the loop (the model is parametric in their type): they are sent as injective integer codes *)
Definition chk (c : list (string * option string) * list (string * Z) * list kwevent * list (string * Z)) : bool :=
  let '(m, kw, ev, out) := c in
  let '(ev', out') := rename_kwargs m kw in
  forall2b ev_eqb ev' ev && forall2b kv_eqb out' out.
'''


def stream_kwloop(ctx):
    st = ctx.stream('kw_loop', 'the wrapper of deprecated_parameters around a probe function vs Alias.rename_kwargs on generated '
                    'maps (renamed / ignored entries, chains a->b->c, two old names onto one new name) and keyword arguments '
                    '(old and new spelling together, untouched keywords; values: integers and the falsy None, False, 0, "", [], {}): forwarded '
                    'keywords in order with their values and the '
                    'sequence of warnings; non-trivial = at least one obsolete keyword passed')
    rng = ctx.sub_rng('kw_loop')
    names = ['a', 'b', 'c', 'oldName', 'new_name', 'x1', 'kw', 'numberOfDraws', 'number_of_draws']
    special = [None, False, 0, '', [], {}]  # falsy values must travel like any other

    def code(x):
        """injective integer code of a value (the loop never looks inside a value)"""
        for i, sp in enumerate(special):
            if type(x) is type(sp) and x == sp:
                return -1000 - i
        if type(x) is int and -1000 < x:
            return x
        return None

    cases = []
    for _ in range(ctx.n(200, 3000)):
        m = []
        for o in rng.sample(names, rng.randint(0, 4)):
            m.append([o, None if rng.random() < 0.25 else rng.choice(names)])
        keys = rng.sample(names, rng.randint(0, 5))
        kw = [[k, rng.choice(special) if rng.random() < 0.35 else rng.randint(-5, 50)] for k in keys]
        cases.append({'map': m, 'kwargs': kw, 'args': [rng.randint(0, 3) for _ in range(rng.randint(0, 2))]})
    res = ctx.impl('c20_kwloop.py', cases)
    items, kept = [], []
    for c, r in zip(cases, res):
        mp = dict(map(tuple, c['map']))
        nontriv = any(k in mp for k, _ in c['kwargs'])
        st.record(c, nontrivial=nontriv)
        if not r['ok']:
            st.disagree(c, 'the wrapper returns', r)
            continue
        # property oracle, directly on the implementation: every passed keyword is forwarded under its target with
        # its value (or dropped when the map says "ignored"), one warning per obsolete keyword, nothing else
        exp = {}
        for k, v in c['kwargs']:
            if k in mp and mp[k] is None:
                continue
            exp[mp[k] if k in mp else k] = v
        n_obsolete = sum(1 for k, _ in c['kwargs'] if k in mp)
        got = {k: v for k, v in r['kwargs']}
        same = set(got) == set(exp) and all(type(got[k]) is type(exp[k]) and got[k] == exp[k] for k in exp)
        if not same or len(r['events']) != n_obsolete or r['args'] != c['args']:
            ctx.violation('C20/kw_loop/forwarding', 'deprecated_parameters does not forward a call as the renaming map says',
                          {'map': c['map'], 'kwargs': c['kwargs'], 'args': c['args']},
                          {'forwarded': exp, 'warnings': n_obsolete}, {'forwarded': r['kwargs'], 'warnings': r['events']},
                          how='./check C20 --replay <this file>  (decorates a probe function with deprecated_parameters(map) '
                              'and calls it with the keyword arguments)')
        if any(code(x) is None for _, x in r['kwargs']):
            st.disagree(c, 'every forwarded value is one of the passed values', r)
            continue
        if r['args'] != c['args'] or any(e[0] == 'other' for e in r['events']):
            st.disagree(c, 'positional arguments forwarded unchanged, only DeprecationWarnings', r)
            continue
        ev = []
        for e in r['events']:
            ev.append(f'EvRenamed {cs(e[1])} {cs(e[2])}' if e[0] == 'renamed' else f'EvIgnored {cs(e[1])}')
        kwv = dict((k, v) for k, v in c['kwargs'])
        bad_val = [e for e in r['events'] if e[0] == 'renamed' and str(kwv.get(e[1])) != e[3]]
        if bad_val:
            st.disagree(c, 'warning quotes the passed value', r)
        items.append('(' + c_kwmap(c['map']) + ', ' + coq_list([f'({cs(k)}, ({code(v)})%Z)' for k, v in c['kwargs']]) + ', '
                     + coq_list(ev) + ', ' + coq_list([f'({cs(k)}, ({code(v)})%Z)' for k, v in r['kwargs']]) + ')')
        kept.append((c, r))
    files, B = {}, 400
    for i in range(0, len(items), B):
        files[f'kwl_{i // B}'] = (KW_HEAD + 'Definition cases : list (list (string * option string) * list (string * Z) * '
                                  'list kwevent * list (string * Z)) :=\n' + coq_list(items[i:i + B], ';\n') + '.\n'
                                  'Eval vm_compute in (List.map chk cases).\n')
    outs = ctx.coq_eval_many(files)
    for k in sorted(files, key=lambda s: int(s.split('_')[1])):
        ok, out = outs[k]
        i0 = int(k.split('_')[1]) * B
        n_here = len(items[i0:i0 + B])
        if not ok:
            ctx.stream_broken('kw_loop', 'model evaluation failed: ' + out[-600:])
            continue
        bs = parse_bools(out)
        if len(bs) != n_here:
            ctx.stream_broken('kw_loop', f'could not parse model output ({len(bs)} results for {n_here} cases)')
            continue
        for j, b in enumerate(bs):
            if not b:
                c, r = kept[i0 + j]
                st.disagree(c, 'rename_kwargs differs', r)
    if st.disagreements:
        ctx.stream_broken('kw_loop', f'{len(st.disagreements)} disagreements, first: {st.disagreements[0]}')


# --------------------------------------------------------------------------------- run / replay
def hygiene(ctx):
    """grep gate on the files of this property (no axioms / admits / guard switches)"""
    from common import ROCQ
    bad = re.compile(r'^\s*(?:Local\s+|Global\s+|#\[[^\]]*\]\s*)*(Axiom|Axioms|Parameter|Parameters|Conjecture|Hypothesis|Hypotheses|'
                     r'Variable|Variables)\b|\b(Admitted|admit|give_up)\b|Unset\s+Guard|type-in-type|\bhammer\b|native_compute')
    for rel_ in ('Model/Alias.v', 'Proofs/AliasP.v', 'Properties/C20.v', 'Gen/AliasTable.v'):
        p = ROCQ / rel_
        if not p.exists():
            continue
        txt = re.sub(r'\(\*.*?\*\)', '', p.read_text(), flags=re.S)
        txt = re.sub(r'"(?:[^"]|"")*"', '""', txt)  # string literals are data (class names such as "Variable")
        in_section = 0
        for ln in txt.splitlines():
            if re.match(r'\s*Section\b', ln):
                in_section += 1
            if re.match(r'\s*End\b', ln) and in_section:
                in_section -= 1
            m = bad.search(ln)
            if m and not (m.group(1) in ('Variable', 'Variables', 'Hypothesis', 'Hypotheses') and in_section):
                ctx.broken.append({'kind': 'obligation', 'name': f'{rel_}:hygiene', 'detail': f'forbidden token in: {ln.strip()[:120]}'})


def coqchk(ctx):
    import subprocess
    from common import ROCQ, clean_env
    try:
        r = subprocess.run(['coqchk', '-silent', '-o', '-Q', str(ROCQ), 'BV', 'BV.Properties.C20'], capture_output=True, text=True,
                           timeout=1200, env=clean_env(), cwd=str(ROCQ))
        ctx.notes['coqchk'] = {'rc': r.returncode, 'tail': (r.stdout + r.stderr)[-400:]}
        if r.returncode != 0:
            ctx.broken.append({'kind': 'obligation', 'name': 'coqchk:Properties/C20', 'detail': (r.stdout + r.stderr)[-800:]})
    except subprocess.TimeoutExpired:
        ctx.notes['coqchk'] = {'rc': None, 'tail': 'timeout after 1200 s (not a verdict)'}


def run(ctx):
    ctx.assumptions += ASSUME
    ctx.trusted += TRUSTED
    tab = pkg = None
    try:
        ex = Extractor().run()
        pkg = ex.pkg
        try:
            deco = extract_decorators(pkg)
        except Untranslatable as e:
            # the decorators left the modelled forms: the tie is broken and Gen/ is not regenerated, but the
            # alias tables are still needed to look for a failing input
            ctx.tie_broken('py2v:AliasTable(decorators)', str(e))
            deco = {'flag': None, 'prog': None}
        tab = extract_from(ex, deco)
        if deco['prog'] is not None:
            ctx.gen('AliasTable', emit(tab))
    except Untranslatable as e:
        ctx.tie_broken('py2v:AliasTable', str(e))
    import time
    t = time.time()
    hygiene(ctx)
    b = ctx.build()
    ctx.notes['wall_build_s'] = round(time.time() - t, 1)
    if b.ok and not ctx.quick:
        coqchk(ctx)

    def timed(name, f, *a):
        t0 = time.time()
        r = None
        try:
            r = f(*a)
        except RuntimeError as e:
            if not str(e).startswith('impl '):
                raise
            # the implementation runner itself could not start or finish (e.g. the package no longer imports):
            # that is a fact about /repo, not a harness failure
            ctx.stream(name, 'runner failed')
            ctx.stream_broken(name, 'implementation runner failed: ' + str(e)[-700:])
        if name in ctx.streams:
            ctx.streams[name].extra['wall_s'] = round(time.time() - t0, 1)
        return r

    from concurrent.futures import ThreadPoolExecutor
    pool = ThreadPoolExecutor(max_workers=5)
    futs = [pool.submit(timed, 'kw_loop', stream_kwloop, ctx)]
    if tab is None:
        futs[0].result()
        # the extraction failed: nothing static to compare; still look for failing inputs with the
        # last generated table if any (none here) -- report the broken tie.
        return
    ctx.notes['tables'] = {'aliases': len(tab['aliases']), 'keyword_maps': len(tab['kwuses']), 'classes': len(tab['classes']),
                           'wrapper_program': tab['deco']['prog'], 'RAISE_EXCEPTION': tab['deco']['flag']}
    static_oracles(ctx, tab, pkg)
    # the streams are independent: run them side by side (each one shards its own subprocesses)
    futs.append(pool.submit(timed, 'alias_reach', stream_reach, ctx, tab))
    futs.append(pool.submit(timed, 'kw_dyn', stream_kw, ctx, tab))
    rt = timed('alias_enum', stream_enum, ctx, tab) or {}
    timed('alias_dyn', stream_dyn, ctx, tab, pkg, rt)
    for f in futs:
        f.result()
    pool.shutdown()
    ctx.violations.sort(key=lambda v: v['key'])
    order = ['kw_loop', 'alias_enum', 'alias_reach', 'alias_dyn', 'kw_dyn']
    ctx.streams = {k: ctx.streams[k] for k in order if k in ctx.streams}


def replay(ctx, path):
    w = json.load(open(path))
    wit = w.get('witness')
    if not isinstance(wit, dict):
        print('replay: this file names an obligation/stream; re-run ./check C20')
        return 2
    if 'map' in wit and 'kwargs' in wit:  # a kw_loop case
        r = ctx.impl('c20_kwloop.py', [wit])[0]
        mp = dict(map(tuple, wit['map']))
        exp = {}
        for k, v in wit['kwargs']:
            if not (k in mp and mp[k] is None):
                exp[mp[k] if k in mp else k] = v
        n_obs = sum(1 for k, _ in wit['kwargs'] if k in mp)
        got = {k: v for k, v in r.get('kwargs', [])}
        bad = (not r['ok'] or set(got) != set(exp) or any(type(got[k]) is not type(exp[k]) or got[k] != exp[k] for k in exp)
               or len(r['events']) != n_obs or r['args'] != wit['args'])
        print(json.dumps({'witness': wit, 'expected': exp, 'observed': r, 'still_fails': bad}))
        return 1 if bad else 0
    if 'variant' in wit:  # a dynamic case
        r = ctx.impl('c20_dyn.py', {'cases': [wit]})['results'][0]
        bad = r['status'] == 'ran' and (bool(r['diffs']) or r['alias_warnings'] != 1)
        print(json.dumps({'witness': wit, 'observed': {k: r.get(k) for k in ('status', 'diffs', 'alias_warnings', 'deprecation_seen',
                                                                            'result_preview', 'why')},
                          'still_fails': bad}))
        return 1 if bad else 0
    # static witnesses: re-evaluate the static oracles and look for the same key
    ex = Extractor().run()
    tab = extract_from(ex)
    before = len(ctx.violations)
    static_oracles(ctx, tab, ex.pkg)
    hits = [v for v in ctx.violations[before:] if v['key'] == w.get('key')]
    print(json.dumps({'key': w.get('key'), 'still_fails': bool(hits), 'observed': hits[:1]}, default=str))
    return 1 if hits else 0
