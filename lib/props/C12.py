"""C12 -- Invalid specifications are refused with a clear error wherever the fault sits.

Tie A: the recursion table of the audit machinery (which class uses which implementation of audit / check_draws /
check_rv / check_panel_trajectory / get_children, and the shape of each) is regenerated from the class statements of
/repo/src/biogeme/expressions/*.py and catalog.py (props/c12_extract.py) into rocq/Gen/AuditTable.v; the theorems
(Proofs/AuditP.v, Properties/C12.v) are about that generated table.

Streams (tie B + property oracle):
  methods  -- f.audit(db), check_draws(), check_rv(), check_panel_trajectory() of the real objects vs the model
              (Model/Audit.v evaluated in Coq) on valid formulas with a planted fault;
  faults   -- valid formula + fault kind + hole position (operator kind x child slot, uniformly) run through the real
              entry points; oracle = the property text; the fault-free twin must be accepted;
  missing  -- the missing-data code planted in read / unread cells and branches: the evaluation must fail iff the lazy
              semantics (evalX through the proved interval evaluator) reads such a cell.
"""
import copy
import glob
import json
import re

from bridge import json_to_coq
from common import coq_string, parse_bools
from gen_expr import AV_NAMES, KEY_NAME, VAR_NAMES, gen_case, strip_sids
from py2v import Untranslatable
from values import check_values

import props.c12_extract as ext

ASSUME = [
    'the recursion table is read from the class statements with ast (props/c12_extract.py); only the shapes present today '
    'are recognised, anything else aborts the run as a broken tie',
    'the own rules of each kind (Variable, MonteCarlo, PanelLikelihoodTrajectory, Integrate, LogLogit), IdManager, '
    'Database._audit and the nest checks are modelled by hand (Model/Audit.v) and tied by the streams `methods` and `faults`',
    'the LogLogit choice rule is modelled for a choice given by a constant or a column (other forms: no claim)',
    'the compiled engine (cythonbiogeme) is external: its lazy reading rule is the semantics evalX (Model/EvalX.v), tied by '
    'the stream `missing` through the proved interval evaluator (Proofs/EvalIP.v)',
    'get_value_c on a panel database is used by the library itself on bare variables (LogLogit.audit); the rule "variables '
    'inside the trajectory operator" is judged on BIOGEME(...) only',
]

MISSING_DEFAULT = 99999.0


# =========================================================================================== tie A
def gen_all(ctx):
    table, _ = ext.build_table()
    ctx.gen('AuditTable', ext.emit(table))
    return table


# =========================================================================================== small tree helpers
def N(h, k=()):
    return {'h': list(h), 'k': list(k)}


def num(m, e=0):
    return N(['Num', m, e])


ZERO, ONE, HALF, THREEHALF, TWO = num(0), num(1), num(1, -1), num(3, -1), num(1, 1)


def plain(t):
    """strip sharing marks and make catalogs transparent (the selected member), as the bridge does"""
    h = t['h']
    if h[0] == 'Catalog':
        return plain(t['k'][h[2]])
    if h[0] == 'Belongs':
        h = ['Belongs', sorted(h[1])]
    return {'h': h, 'k': [plain(k) for k in t['k']]}


def kind_of(t):
    h = t['h']
    return h[1] if h[0] in ('Bin', 'Un') else h[0]


def positions(t, path=()):
    """all nodes with their path; children of a linear utility must stay (parameter, variable)"""
    out = [(path, t)]
    if t['h'][0] != 'LinUtil':
        for i, k in enumerate(t['k']):
            out += positions(k, path + (i,))
    return out


def replace_at(t, path, new):
    if not path:
        return new
    t2 = dict(t)
    t2.pop('sid', None)       # the copy is a different object
    t2['k'] = list(t['k'])
    t2['k'][path[0]] = replace_at(t['k'][path[0]], path[1:], new)
    return t2


def ancestors(t, path):
    out = []
    for i in path:
        out.append(kind_of(t))
        t = t['k'][i]
    return out


# =========================================================================================== frames
BINOPS = ['Plus', 'Minus', 'Times', 'Divide', 'Power', 'BMin', 'BMax', 'And', 'Or', 'Eq', 'Ne', 'Le', 'Ge', 'Lt', 'Gt']


def all_frames():
    """(kind, slot, slot type, builder(hole)).  Slot types: real (any finite value: other frames may be nested there),
    pos / nz / key / bool01 / var / beta (only a leaf fits)."""
    fr = []
    for op in BINOPS:
        t0 = 'pos' if op == 'Power' else 'real'
        t1 = 'nz' if op == 'Divide' else 'real'
        a = THREEHALF if op in ('Power', 'Divide') else HALF
        fr.append((op, '0', t0, lambda h, op=op, a=a: N(['Bin', op], [h, a if op == 'Divide' else HALF])))
        fr.append((op, '1', t1, lambda h, op=op, a=a: N(['Bin', op], [a if op == 'Power' else HALF, h])))
    for op in ['UMinus', 'Exp', 'Sin', 'Cos', 'NormalCdf']:
        fr.append((op, '0', 'real', lambda h, op=op: N(['Un', op], [h])))
    for op in ['Log', 'Logzero']:
        fr.append((op, '0', 'pos', lambda h, op=op: N(['Un', op], [h])))
    fr.append(('MonteCarlo', '0', 'real', lambda h: N(['Un', 'MonteCarlo'], [N(['Bin', 'Times'], [h, N(['Draws', 'dmc', 'NORMAL'])])])))
    fr.append(('PowC', '0', 'real', lambda h: N(['PowC', 1, 1], [h])))
    fr.append(('Belongs', '0', 'real', lambda h: N(['Belongs', [[1, 0], [1, -1]]], [h])))
    fr.append(('Derive', '0', 'real', lambda h: N(['Derive', 'bfr'], [N(['Bin', 'Times'], [N(['Beta', 'bfr', False]), h])])))
    fr.append(('Integrate', '0', 'real', lambda h: N(['Integrate', 'omi'], [N(['Bin', 'Times'], [
        h, N(['Un', 'Exp'], [N(['Un', 'UMinus'], [N(['Bin', 'Times'], [N(['RV', 'omi']), N(['RV', 'omi'])])])])])])))
    fr.append(('MultSum', 'term', 'real', lambda h: N(['MultSum'], [HALF, h, ONE])))
    fr.append(('CondSum', 'cond', 'real', lambda h: N(['CondSum'], [h, HALF, ONE, THREEHALF])))
    fr.append(('CondSum', 'term', 'real', lambda h: N(['CondSum'], [ONE, h])))
    fr.append(('CondSum', 'term-false', 'real', lambda h: N(['CondSum'], [ZERO, h, ONE, HALF])))
    fr.append(('Elem', 'key', 'key', lambda h: N(['Elem', [1, 2]], [h, HALF, THREEHALF])))
    fr.append(('Elem', 'entry', 'real', lambda h: N(['Elem', [1, 2]], [ONE, h, HALF])))
    fr.append(('Elem', 'entry-unselected', 'real', lambda h: N(['Elem', [1, 2]], [TWO, h, HALF])))
    fr.append(('LinUtil', 'var', 'var', lambda h: N(['LinUtil'], [N(['Beta', 'bfr', False]), h])))
    fr.append(('LinUtil', 'beta', 'beta', lambda h: N(['LinUtil'], [h, N(['Var', 'x1'])])))
    fr.append(('LogLogit', 'choice', 'key', lambda h: N(['LogLogit', [1, 2], [1, 2]], [h, HALF, ZERO, ONE, ONE])))
    fr.append(('LogLogit', 'util', 'real', lambda h: N(['LogLogit', [1, 2], [1, 2]], [ONE, h, ZERO, ONE, ONE])))
    fr.append(('LogLogit', 'util-unavailable', 'real', lambda h: N(['LogLogit', [1, 2], [1, 2]], [ONE, HALF, h, ONE, ZERO])))
    fr.append(('LogLogit', 'avail', 'bool01', lambda h: N(['LogLogit', [1, 2], [1, 2]], [ONE, HALF, ZERO, ONE, h])))
    fr.append(('Catalog', 'selected', 'real', lambda h: N(['Catalog', 'catfr', 0], [h, HALF])))
    # chained comparisons: a comparison one of whose operands is itself a comparison (the indicator (P > 0.5) == 1, ...): the
    # hole below the inner comparison, or beside a comparison operand
    cmp_inner = lambda h: N(['Bin', 'Gt'], [h, HALF])   # noqa: E731
    cmp_side = N(['Bin', 'Gt'], [HALF, ZERO])
    for op in ['Eq', 'Ne', 'Le', 'Ge', 'Lt', 'Gt']:
        fr.append((op, '0-under-chained', 'real', lambda h, op=op: N(['Bin', op], [cmp_inner(h), ONE])))
        fr.append((op, '1-under-chained', 'real', lambda h, op=op: N(['Bin', op], [ONE, cmp_inner(h)])))
        fr.append((op, '0-beside-comparison', 'real', lambda h, op=op: N(['Bin', op], [h, cmp_side])))
        fr.append((op, '1-beside-comparison', 'real', lambda h, op=op: N(['Bin', op], [cmp_side, h])))
    return fr


FRAMES = all_frames()
BENIGN = {'real': HALF, 'pos': THREEHALF, 'nz': THREEHALF, 'key': ONE, 'bool01': ONE,
          'var': N(['Var', 'x1']), 'beta': N(['Beta', 'bfr', False])}

FAULT_LEAF = {
    'missing-column': (N(['Var', 'zz']), 'zz'),
    'draws-outside': (N(['Draws', 'dflt', 'NORMAL']), 'dflt'),
    'rv-outside': (N(['RV', 'omflt']), 'omflt'),
    'duplicate-beta-column': (N(['Beta', 'x2', False]), 'x2'),
    'duplicate-free-fixed': (N(['Beta', 'b_dup', True]), 'b_dup'),
    'var-outside-trajectory': (N(['Var', 'x2']), 'x2'),
    'draws-two-types': (N(['Draws', 'xi', 'UNIFORM']), 'xi'),
}
LEAF_TYPES = {
    'missing-column': {'real', 'pos', 'nz', 'key', 'bool01', 'var'},
    'draws-outside': {'real', 'pos', 'nz', 'key', 'bool01'},
    'rv-outside': {'real', 'pos', 'nz', 'key', 'bool01'},
    'duplicate-beta-column': {'real', 'pos', 'nz', 'key', 'bool01', 'beta'},
    'duplicate-free-fixed': {'real', 'pos', 'nz', 'key', 'bool01', 'beta'},
    'var-outside-trajectory': {'real', 'var'},
    'logit-keys': {'real'},
    'logit-choice': {'real'},
    'draws-two-types': {'real'},
}
EXCLUDED_FRAME = {'draws-outside': 'MonteCarlo', 'rv-outside': 'Integrate', 'draws-two-types': 'MonteCarlo'}
FORMULA_KINDS = ['missing-column', 'draws-outside', 'rv-outside', 'duplicate-beta-column', 'duplicate-free-fixed',
                 'var-outside-trajectory', 'logit-keys', 'logit-choice', 'draws-two-types']
FRAME_BETAS = {'bfr': {'value': 0.5, 'fixed': False, 'positive': True, 'lb': None, 'ub': None},
               # value 1: a valid key / alternative where the planted parameter sits in a key or choice slot
               'x2': {'value': 1.0, 'fixed': False, 'positive': True, 'lb': None, 'ub': None},
               'b_dup': {'value': 1.0, 'fixed': False, 'positive': True, 'lb': None, 'ub': None}}


def logit_leaf(rng, kind):
    """a logit node carrying the fault, and its fault-free twin"""
    keys = rng.sample([1, 2, 3, 4, 6], rng.choice([2, 3]))
    utils = [HALF if i else ZERO for i, _ in enumerate(keys)]
    avs = [ONE for _ in keys]
    good = N(['LogLogit', keys, list(keys)], [num(keys[0])] + utils + avs)
    if kind == 'logit-keys':
        variant = rng.choice(['extra-av', 'missing-av', 'other-av'])
        if variant == 'extra-av':
            ak, extra = list(keys) + [9], [ONE]
        elif variant == 'missing-av':
            ak, extra = list(keys[:-1]), []
            avs = avs[:-1]
        else:
            ak, extra = list(keys[:-1]) + [9], []
        bad = N(['LogLogit', keys, ak], [num(keys[0])] + utils + avs + extra)
        mention = '9' if 9 in ak else str(keys[-1])
        return bad, good, mention, variant
    variant = rng.choice(['constant', 'column'])
    if variant == 'constant':
        bad = N(['LogLogit', keys, list(keys)], [num(7)] + utils + avs)
        return bad, good, '7', variant
    # the key column takes a value that is not an alternative (the rows are set accordingly)
    bad = N(['LogLogit', keys, list(keys)], [N(['Var', 'kbad'])] + utils + avs)
    good = N(['LogLogit', keys, list(keys)], [N(['Var', 'kgood'])] + utils + avs)
    return bad, good, '77', ('column', keys)


def build_chain(rng, kind, target, panel=False):
    """nest 0-2 frames with a `real` slot around the target frame; returns (builder, path description)"""
    outer = []
    excl = EXCLUDED_FRAME.get(kind)
    for _ in range(rng.choice([0, 0, 1, 1, 2])):
        # at most one Monte-Carlo / integration operator on the path (nesting them is itself a fault)
        used = {f[0] for f in outer + [target]} & {'MonteCarlo', 'Integrate'}
        if panel:
            used = used | {'MonteCarlo'}      # on panel data a MonteCarlo must contain the trajectory operator
        cands = [f for f in FRAMES if f[2] == 'real' and f[0] != excl and f[0] != 'Catalog' and f[0] not in used]
        outer.append(rng.choice(cands))
    chain = outer + [target]

    def mk(hole):
        x = hole
        for f in reversed(chain):
            x = f[3](x)
        return x
    return mk, [f'{f[0]}.{f[1]}' for f in chain]


def gen_fault_case(rng, kind, target, depth):
    """valid formula + one planted fault at the hole of `target`, embedded at a random node of a random valid tree"""
    panel = (kind == 'var-outside-trajectory' or (kind == 'missing-column' and rng.random() < 0.12)) and target[0] != 'MonteCarlo'
    if kind == 'var-outside-trajectory' and not panel:
        kind = 'missing-column'
    excl = ['LogLogit'] if panel else []
    base = gen_case(rng, variables=True, max_depth=depth, n_rows=3, exclude=excl)
    tree, betas, rows = base['tree'], dict(base['betas']), [dict(r) for r in base['rows']]
    for r, kb, kg in zip(rows, [5.0, 1.0, 2.0], [1.0, 1.0, 2.0]):
        r['kbad'] = kb
        r['kgood'] = kg
    if panel and target[0] == 'MonteCarlo':
        panel = False
        if kind == 'var-outside-trajectory':
            kind = 'missing-column'
    mk, chain = build_chain(rng, kind, target, panel)
    extra = None
    if kind in ('logit-keys', 'logit-choice'):
        bad, good, mention, variant = logit_leaf(rng, kind)
        if isinstance(variant, tuple):
            keys = variant[1]
            for r in rows:
                r['kgood'] = float(keys[0])
            rows[rng.randrange(len(rows))]['kbad'] = 77.0
            for i, r in enumerate(rows):
                if r['kbad'] != 77.0:
                    r['kbad'] = float(keys[i % len(keys)])
            variant = 'column'
    else:
        bad, mention = FAULT_LEAF[kind]
        good = BENIGN[target[2]]
        variant = None
        if kind == 'draws-two-types':
            good = N(['Draws', 'xi', 'NORMAL'])
            inner = mk
            # both declarations under one MonteCarlo: the companion is declared NORMAL
            mk = lambda h, inner=inner: N(['Un', 'MonteCarlo'], [N(['Bin', 'Plus'], [inner(h), N(['Draws', 'xi', 'NORMAL'])])])  # noqa: E731
        if kind == 'duplicate-free-fixed':
            extra = N(['Beta', 'b_dup', False])
    for nm, b in FRAME_BETAS.items():
        betas.setdefault(nm, dict(b))
    pos = positions(tree)
    path, node = rng.choice(pos)

    def embed(hole_content, inside_traj=True):
        ch = N(['Bin', 'Times'], [ZERO, mk(hole_content)])
        t = replace_at(tree, path, N(['Bin', 'Plus'], [node, ch]))
        if extra is not None:
            t = N(['Bin', 'Plus'], [t, N(['Bin', 'Times'], [ZERO, extra])])
        return t

    if kind == 'var-outside-trajectory':
        ch_bad = N(['Bin', 'Times'], [ZERO, mk(bad)])
        fault = N(['Bin', 'Plus'], [N(['Un', 'PanelTraj'], [tree]), ch_bad])
        twin = N(['Un', 'PanelTraj'], [replace_at(tree, path, N(['Bin', 'Plus'], [node, ch_bad]))])
    else:
        fault, twin = embed(bad), embed(good)
        if panel:
            fault, twin = N(['Un', 'PanelTraj'], [fault]), N(['Un', 'PanelTraj'], [twin])
    if panel:
        for r, i in zip(rows, [1.0, 1.0, 2.0]):
            r['id'] = i
    return {'kind': kind, 'variant': variant, 'frame': f'{target[0]}.{target[1]}', 'chain': chain,
            'ancestors': ancestors(tree, path), 'fault': fault, 'twin': twin, 'betas': betas, 'rows': rows,
            'panel': panel, 'mention': mention}


ENTRIES = {
    'missing-column': ['biogeme', 'gvc', 'biogeme_dict', 'gvd', 'biogeme_weight'],
    'draws-outside': ['biogeme', 'gvc', 'biogeme_dict', 'gvd'],
    'rv-outside': ['biogeme', 'gvc', 'biogeme_dict', 'gvd'],
    'duplicate-beta-column': ['biogeme', 'gvc', 'idmanager', 'biogeme_dict', 'gvd'],
    'duplicate-free-fixed': ['biogeme', 'gvc', 'idmanager', 'biogeme_dict', 'gvd'],
    'var-outside-trajectory': ['biogeme', 'biogeme_dict'],
    'logit-keys': ['biogeme', 'gvc', 'biogeme_dict', 'gvd'],
    'logit-choice': ['biogeme', 'gvc', 'biogeme_dict', 'gvd'],
    'draws-two-types': ['biogeme', 'gvc', 'idmanager', 'biogeme_dict', 'gvd'],
}


def has_heads(t, names):
    return kind_of(t) in names or any(has_heads(k, names) for k in t['k'])


def entries_for(rng, c):
    es = list(ENTRIES[c['kind']])
    first = es[:2]
    rest = es[2:]
    chosen = first + ([rng.choice(rest)] if rest else [])
    if 'idmanager' in es and 'idmanager' not in chosen:
        chosen.append('idmanager')          # the IdManager itself is an entry point for the rules it owns
    if c['panel']:
        chosen = [e for e in chosen if e != 'biogeme_weight']
    # derivatives of an integral / a derivative node are outside the differentiable fragment of the engine
    if has_heads(c['fault'], {'Derive', 'Integrate'}):
        chosen = [e for e in chosen if e != 'gvd']
    return chosen


# =========================================================================================== model side
COQ_HEADER = ('From BV Require Import Model.Expr Model.IdMgr Model.Audit Gen.AuditTable.\n'
              'Open Scope Z_scope. Open Scope string_scope. Open Scope list_scope.\n'
              'Definition G := gen_table.\n'
              'Definition code (e : error) : string := match e with\n'
              ' | EMissingColumn x => "M:" ++ x | EMcNoDraws => "mc-nodraws" | EMcNested => "mc-nested"\n'
              ' | EMcPanelNoTraj => "mc-panel" | ETrajNotPanel => "traj-notpanel" | EIntNoRV => "int-norv"\n'
              ' | ELogitKeys => "logit-keys" | ELogitChoice => "logit-choice" | ELogitChoiceNotInAv => "logit-raised"\n'
              ' | EDuplicate => "dup" | EDrawTypes n => "T:" ++ n | EDrawsOutside n => "D:" ++ n | ERvOutside n => "R:" ++ n\n'
              ' | EVarOutsideTraj n => "V:" ++ n | EHessianNoGradient => "hess" | ENonNumeric c => "N:" ++ c\n'
              ' | ENaN => "nan" | ENoEntry => "empty" end.\n'
              'Fixpoint ins (x : string) (l : list string) := match l with [] => [x]\n'
              ' | y :: r => if str_ltb y x then y :: ins x r else x :: l end.\n'
              'Definition ssort (l : list string) := fold_right ins [] l.\n'
              'Definition seqb (a b : list string) := list_eqb String.eqb a b.\n'
              'Definition has (c : string) (l : list error) := existsb (fun e => String.eqb (code e) c) l.\n'
              'Definition nonempty {A} (l : list A) := match l with [] => false | _ => true end.\n')


def coq_strs(l):
    return '[' + '; '.join(coq_string(s) for s in l) + ']'


def coq_dy(x):
    from values import coq_dy as f
    return f(x)


def coq_db(rows, panel):
    cols = list(rows[0].keys()) if rows else []
    rs = '[' + '; '.join('[' + '; '.join(f'({coq_string(k)}, {coq_dy(v)})' for k, v in r.items()) + ']' for r in rows) + ']'
    return f'(mkDb {coq_strs(cols)} {rs} {"true" if panel else "false"})'


MSG_CODES = [
    (r'Variable (\S+) not found in the database', lambda m: 'M:' + m.group(1)),
    (r'must contain a bioDraws', lambda m: 'mc-nodraws'),
    (r'MonteCarlo statement in another', lambda m: 'mc-nested'),
    (r'As the database is panel', lambda m: 'mc-panel'),
    (r'can only be used with panel data', lambda m: 'traj-notpanel'),
    (r'must contain a RandomVariable', lambda m: 'int-norv'),
    (r'Incompatible list of alternatives', lambda m: 'logit-keys'),
    (r'does not correspond to a valid alternative', lambda m: 'logit-choice'),
]


def msg_code(msg):
    for pat, f in MSG_CODES:
        m = re.search(pat, msg)
        if m:
            return f(m)
    return 'other:' + msg[:60]


def ascii_ok(s):
    return all(32 <= ord(c) < 127 for c in s)


# =========================================================================================== stream: faults + methods
def expected_code(c):
    k = c['kind']
    m = c['mention']
    return {'missing-column': 'M:' + m, 'draws-outside': 'D:' + m, 'rv-outside': 'R:' + m, 'duplicate-beta-column': 'dup',
            'duplicate-free-fixed': 'dup', 'var-outside-trajectory': 'V:' + m, 'logit-keys': 'logit-keys',
            'logit-choice': None, 'draws-two-types': 'T:' + m}[k]


def judge_fault(ctx, st, c, entry, r, cov):
    """the property text on one call with a planted fault"""
    key = f'C12/faults/{c["kind"]}/{entry}/{c["frame"]}'
    wit = {'kind': c['kind'], 'variant': c['variant'], 'entry': entry, 'frame': c['frame'], 'chain': c['chain'],
           'ancestors': c['ancestors'], 'tree': c['fault'], 'betas': c['betas'], 'rows': c['rows'], 'panel': c['panel'],
           'mention': c['mention']}
    if entry == 'biogeme_multi':
        m = c['multi']
        key = f'C12/faults/{c["kind"]}/biogeme_multi-{m["where"]}/{c["frame"]}'
        wit['trees'] = m['trees']['fault']
        wit['specification'] = {'formulas': m['names'], 'faulty_formula': m['names'][m['position']], 'position': m['position'],
                                'of': m['n'], 'other_formulas': 'b*x1, x2+0.5, exp(0.5*x3) (valid)'}
    how = 'lib/impl/c12_faults.py with {"cases": [{"mode": "formula", "tree": witness.tree, ...}]} or ./check C12 --replay'
    if 'crash' in r:
        ctx.violation(key, f'planted fault ({c["kind"]}): the process died instead of refusing the specification', wit,
                      'BiogemeError before any number is produced', r['crash'], how)
        return False
    if r.get('status') == 'accepted':
        ctx.violation(key, f'planted fault ({c["kind"]}) accepted by {entry}: no error, {json.dumps(r.get("value"))[:80]} produced',
                      wit, 'BiogemeError before any number is produced', r, how)
        return False
    if not r.get('biogeme'):
        ctx.violation(key, f'planted fault ({c["kind"]}) surfaces as {r.get("exc")} instead of the library error in {entry}',
                      wit, 'BiogemeError with an explanatory message', r, how)
        return False
    msg = r.get('msg') or ''
    if not msg.strip() or c['mention'] not in msg:
        ctx.violation(key + '/message', f'planted fault ({c["kind"]}): the error message does not name the offending element '
                      f'({c["mention"]})', wit, f'a message mentioning {c["mention"]}', r, how)
        return False
    return True


def judge_twin(ctx, c, entry, r):
    key = f'C12/faults/valid-rejected/{c["kind"]}/{entry}/{c["frame"]}'
    wit = {'kind': 'valid twin of ' + c['kind'], 'entry': entry, 'frame': c['frame'], 'chain': c['chain'],
           'tree': c['twin'], 'betas': c['betas'], 'rows': c['rows'], 'panel': c['panel']}
    if 'crash' in r:
        ctx.violation(key, 'a specification without fault kills the process', wit, 'accepted', r['crash'])
        return 'bad'
    if r.get('status') == 'accepted':
        return 'ok'
    if r.get('engine') and (entry in ('gvc', 'gvd', 'biogeme_weight') or (entry == 'biogeme_multi' and c['multi']['names'][c['multi']['position']] == 'weight')):
        return 'numeric'          # a numerical failure of the evaluation, not a refusal of the specification
    ctx.violation(key, f'a specification without fault is rejected by {entry} ({r.get("exc")})', wit, 'accepted', r)
    return 'bad'


DRAW_TYPES = ['NORMAL', 'UNIFORM', 'UNIFORMSYM', 'NORMAL_ANTI', 'UNIFORM_ANTI', 'NORMAL_HALTON2', 'UNIFORM_HALTON3']
SIMPLE_FORMULAS = [N(['Bin', 'Times'], [N(['Beta', 'bfr', False]), N(['Var', 'x1'])]),
                   N(['Bin', 'Plus'], [N(['Var', 'x2']), HALF]),
                   N(['Un', 'Exp'], [N(['Bin', 'Times'], [HALF, N(['Var', 'x3'])])])]


def gen_across_cases(rng, rounds):
    """one draw name declared with two different distributions in two DIFFERENT formulas of a specification of 2-4
    formulas, for every ordered pair of positions; each formula is consistent on its own"""
    out = []
    for rnd in range(rounds):
        for n in (2, 3, 4):
            for p in range(n):
                for q in range(n):
                    if p == q:
                        continue
                    t1, t2 = rng.sample(DRAW_TYPES, 2)
                    base = gen_case(rng, variables=True, max_depth=2, n_rows=3)
                    betas = dict(base['betas'])
                    for nm, b in FRAME_BETAS.items():
                        betas.setdefault(nm, dict(b))

                    def wrapped(ty):
                        frames = [rng.choice([f for f in FRAMES if f[2] == 'real' and f[0] not in ('MonteCarlo', 'Catalog')])
                                  for _ in range(rng.choice([0, 1, 2]))]
                        frames = [f for i, f in enumerate(frames) if f[0] != 'Integrate' or 'Integrate' not in [g[0] for g in frames[:i]]]

                        def mk(ty2):
                            x = N(['Draws', 'xi', ty2])
                            for f in reversed(frames):
                                x = f[3](x)
                            return N(['Un', 'MonteCarlo'], [x])
                        return mk, [f'{f[0]}.{f[1]}' for f in frames]
                    mk_p, ch_p = wrapped(t1)
                    mk_q, ch_q = wrapped(t2)
                    names = ['log_like', 's1', 's2', 's3'][:n]
                    if rnd % 2:
                        names[-1] = 'weight'

                    def spec(tq):
                        trees, o = [], 0
                        for i, nm in enumerate(names):
                            if i == p:
                                trees.append([nm, mk_p(t1)])
                            elif i == q:
                                trees.append([nm, mk_q(tq)])
                            else:
                                trees.append([nm, SIMPLE_FORMULAS[o]])
                                o += 1
                        return trees
                    out.append({'kind': 'draws-types-across', 'n': n, 'p': p, 'q': q, 'types': [t1, t2], 'names': names,
                                'chains': [ch_p, ch_q], 'fault': spec(t2), 'twin': spec(t1), 'betas': betas, 'rows': base['rows'],
                                'mention': 'xi'})
    return out


SLOT_VALUE = {'real': 0.5, 'pos': 1.5, 'nz': 1.5, 'key': 1.0, 'bool01': 1.0, 'var': 0.5}
SETUPS = ['prepare-gvc', 'prepare-gvd', 'create_function', 'create_function_g', 'objective-f', 'objective-fg', 'objective-fgh',
          'fresh-gvc', 'fresh-gvd', 'fresh-biogeme', 'from-configuration']


def simulate_script(c, tree, rows, script):
    """the (formula with the member selected at that time, rows, columns) seen by each call of an evaluation history"""
    rows = [dict(r) for r in rows]
    sel = {}
    views = []

    def with_sel(t):
        h = t['h']
        if h[0] == 'Catalog' and h[1] in sel:
            h = ['Catalog', h[1], sel[h[1]]]
        return {'h': h, 'k': [with_sel(k) for k in t['k']]}
    for op in script:
        if op == 'call':
            views.append((plain(with_sel(tree)), [dict(r) for r in rows]))
        elif op[0] in ('rename', 'rename_inplace'):
            rows = [{(op[2] if k == op[1] else k): v for k, v in r.items()} for r in rows]
        elif op[0] == 'drop':
            rows = [{k: v for k, v in r.items() if k != op[1]} for r in rows]
        elif op[0] == 'set':
            rows[op[2] % len(rows)][op[1]] = op[3]
        elif op[0] == 'scale':
            for r in rows:
                r[op[1]] = r[op[1]] * op[2]
        elif op[0] == 'select':
            sel[op[1]] = int(op[2][1:])
        elif op[0] == 'empty':
            rows = []
    return views


def gen_evalhist(rng, c, idx):
    """an evaluation history for a fault case: the SAME identifiers are used by every call (prepare_ids=False); the
    specification is valid at some calls and faulty at others because the table or the selected catalog member changed"""
    kind = c['kind']
    rows = [dict(r) for r in c['rows']]
    setup = SETUPS[idx % len(SETUPS)]
    if has_heads(c['fault'], {'Derive', 'Integrate'}) and setup not in ('prepare-gvc', 'create_function', 'objective-f', 'fresh-gvc'):
        setup = ['prepare-gvc', 'create_function', 'objective-f', 'fresh-gvc'][idx % 4]
    ttype = next((f[2] for f in FRAMES if f'{f[0]}.{f[1]}' == c['frame']), 'real')
    mode = None
    if kind == 'missing-column' and idx % 2 == 0:
        mode = 'data'
        for r in rows:
            r['unused_col'] = 0.25
            r['zz'] = SLOT_VALUE[ttype]                  # last column: the formula is valid while it exists
        tree = c['fault']
        scripts = [('valid-then-renamed', ['call', ['rename', 'zz', 'zz_old'], 'call'], [True, False]),
                   ('valid-then-dropped', ['call', ['drop', 'zz'], 'call'], [True, False]),
                   ('renamed-then-restored', [['rename', 'zz', 'zz_old'], 'call', ['rename', 'zz_old', 'zz'], 'call'], [False, True]),
                   ('valid-renamed-restored', ['call', ['rename_inplace', 'zz', 'zz_old'], 'call', ['rename_inplace', 'zz_old', 'zz'], 'call'],
                    [True, False, True]),
                   ('harmless-rename', ['call', ['rename', 'unused_col', 'unused_2'], 'call'], [True, True])]
        mention = 'zz'
    elif kind == 'logit-choice' and c['variant'] == 'column':
        mode = 'data'
        tree = c['fault']
        good = [r['kgood'] for r in rows]
        bad = [r['kbad'] for r in rows]
        for r, g in zip(rows, good):
            r['kbad'] = g
        j = next(i for i, v in enumerate(bad) if v == 77.0)
        scripts = [('valid-then-edited', ['call', ['set', 'kbad', j, 77.0], 'call'], [True, False]),
                   ('edited-then-restored', [['set', 'kbad', j, 77.0], 'call', ['set', 'kbad', j, good[j]], 'call'], [False, True]),
                   ('valid-then-scaled', ['call', ['scale', 'kbad', 77.0], 'call'], [True, False], 'Chosen alternative')]
        mention = '77'
    elif kind in ('missing-column', 'logit-keys', 'logit-choice', 'draws-outside', 'rv-outside', 'var-outside-trajectory'):
        mode = 'catalog'
        if kind in ('draws-outside', 'rv-outside', 'var-outside-trajectory'):
            # placement rules under successive configurations of ONE expression object: entry points that prepare their
            # own identifiers (the panel rule is judged on BIOGEME only)
            fresh = ['fresh-biogeme', 'from-configuration'] if kind == 'var-outside-trajectory' else \
                ['fresh-biogeme', 'from-configuration', 'fresh-gvc', 'fresh-gvd']
            setup = fresh[idx % len(fresh)]
            if has_heads(c['fault'], {'Derive', 'Integrate'}) and setup == 'fresh-gvd':
                setup = 'fresh-gvc'
        # (a catalog at the very TOP of a formula cannot be evaluated with stored identifiers at all in this code base:
        #  MultipleExpression.set_id_manager never records the manager on the catalog itself -- reported, not judged)
        if idx % 4 < 2:
            tree = N(['Bin', 'Plus'], [HALF, N(['Catalog', 'catin', 0], [c['twin'], c['fault']])])
            where = 'inner'
        else:
            tree = N(['Un', 'Exp'], [N(['Bin', 'Times'], [num(1, -4), N(['Catalog', 'catin', 0], [c['twin'], c['fault']])])])
            where = 'inner-exp'
        cn = 'catin'
        scripts = [(f'{where}-catalog-valid-then-faulty', ['call', ['select', cn, 'm1'], 'call'], [True, False]),
                   (f'{where}-catalog-faulty-then-valid', [['select', cn, 'm1'], 'call', ['select', cn, 'm0'], 'call'], [False, True]),
                   (f'{where}-catalog-valid-faulty-valid', ['call', ['select', cn, 'm1'], 'call', ['select', cn, 'm0'], 'call'],
                    [True, False, True])]
        mention = c['mention']
    if mode is None:
        return None
    if mode == 'data' and setup == 'from-configuration':
        setup = 'fresh-biogeme'            # no catalog in the formula
    sc = scripts[(idx // 2) % len(scripts)]
    name, script, expect = sc[:3]
    if len(sc) > 3:
        mention = sc[3]
    # at least one free parameter: the object of create_objective_function caches its values by point
    tree = N(['Bin', 'Plus'], [tree, N(['Bin', 'Times'], [ZERO, N(['Beta', 'bfr', False])])]) if tree['h'][0] != 'Catalog' else \
        N(['Catalog', tree['h'][1], 0], [N(['Bin', 'Plus'], [m, N(['Bin', 'Times'], [ZERO, N(['Beta', 'bfr', False])])]) for m in tree['k']])
    return {'kind': kind, 'frame': c['frame'], 'chain': c['chain'], 'setup': setup, 'history': name, 'script': script,
            'expect': expect, 'tree': tree, 'betas': c['betas'], 'rows': rows, 'mention': mention, 'mode': mode,
            'panel': c['panel']}


def stream_faults(ctx):
    st = ctx.stream('faults', 'valid random formula (gen_expr) + one planted fault (missing column, draws / random variable / '
                    'variable outside its operator, duplicate name, logit keys / choice) at the hole of a frame drawn uniformly '
                    'over (operator kind x child slot), nested in 0-2 more frames and embedded at a random node; real entry points '
                    'BIOGEME(...), BIOGEME({..}), BIOGEME({2-4 formulas, the faulty one first / middle / last}), get_value_c, get_value_and_derivatives; oracle: BiogemeError naming the '
                    'element, nothing produced; the fault-free twin is accepted; non-trivial = fault case whose hole is at '
                    'depth >= 2; distinct by (tree, entry)')
    sm = ctx.stream('methods', 'the same formulas: audit(db) error list, check_draws / check_rv / check_panel_trajectory sets of '
                    'the real objects vs Model/Audit.v with the generated table, evaluated in Coq; non-trivial = a planted '
                    'fault or >= 6 nodes')
    rng = ctx.sub_rng('faults')
    n_rounds = ctx.n(2, 12)
    cases = load_corpus('formula')
    for rnd in range(n_rounds):
        for target in FRAMES:
            kinds = [k for k in FORMULA_KINDS if target[2] in LEAF_TYPES[k] and EXCLUDED_FRAME.get(k) != target[0]]
            if not kinds:
                continue
            if target[0] == 'Catalog':
                kinds = [k for k in kinds if k != 'var-outside-trajectory']
            # round robin: after len(kinds) <= 8 rounds every (frame, fault kind) pair has been planted
            k = kinds[(rnd + 3 * FRAMES.index(target) + ctx.seed) % len(kinds)]
            if 'chained' in target[1] or 'beside' in target[1]:
                # under a chained comparison, first the faults that ONLY the audit of the operands can see
                first = [x for x in ('logit-keys', 'logit-choice', 'missing-column') if x in kinds]
                order = first + [x for x in kinds if x not in first]
                k = order[rnd % len(order)]
            cases.append(gen_fault_case(rng, k, target, rng.choice([2, 3, 4])))
    items, meta = [], []
    multi_cov = {}
    for ci, c in enumerate(cases):
        es = c.get('entries') or entries_for(rng, c)
        for which in ('fault', 'twin'):
            for e in es + ['methods']:
                items.append({'mode': 'formula', 'tree': c[which], 'betas': c['betas'], 'rows': c['rows'], 'panel': c['panel'],
                              'entry': e, 'ndraws': 5})
                meta.append((ci, which, e))
        # the same fault inside a specification with 2-4 formulas, in each position of the dictionary
        if not c['panel'] and c['kind'] != 'var-outside-trajectory':
            n = 2 + ci % 3
            p = (ci // 3 + ctx.seed) % n
            others = [N(['Bin', 'Times'], [N(['Beta', 'bfr', False]), N(['Var', 'x1'])]),
                      N(['Bin', 'Plus'], [N(['Var', 'x2']), HALF]),
                      N(['Un', 'Exp'], [N(['Bin', 'Times'], [HALF, N(['Var', 'x3'])])])]
            names = ['log_like', 's1', 's2', 's3'][:n]
            if ci % 2 and n >= 2:
                names[-1] = 'weight'
            where = 'first' if p == 0 else ('last' if p == n - 1 else 'middle')
            c['multi'] = {'n': n, 'position': p, 'where': where, 'names': names}
            for which in ('fault', 'twin'):
                trees, o = [], 0
                for i, nm in enumerate(names):
                    if i == p:
                        trees.append([nm, c[which]])
                    else:
                        trees.append([nm, others[o]])
                        o += 1
                c['multi'].setdefault('trees', {})[which] = trees
                items.append({'mode': 'formula', 'trees': trees, 'betas': c['betas'], 'rows': c['rows'], 'panel': False,
                              'entry': 'biogeme_multi', 'ndraws': 5})
                meta.append((ci, which, 'biogeme_multi'))
            mk = f'{where}|{c["kind"]}'
            multi_cov[mk] = multi_cov.get(mk, 0) + 1
    res = ctx.impl_cases('c12_faults.py', items, chunk=ctx.n(64, 40), timeout=1200)
    cov = {}
    twin_stats = {'ok': 0, 'numeric': 0, 'bad': 0}
    coq_items, coq_meta = [], []
    for (ci, which, e), r in zip(meta, res):
        c = cases[ci]
        if e == 'methods':
            prep_methods(ctx, sm, c, which, r, coq_items, coq_meta)
            continue
        if which == 'fault':
            ok = judge_fault(ctx, st, c, e, r, cov)
            ck = f'{c["frame"]}|{c["kind"]}'
            cov[ck] = cov.get(ck, 0) + 1
            st.record({'kind': c['kind'], 'frame': c['frame'], 'chain': c['chain'], 'entry': e, 'tree': plain(c['fault']),
                       'verdict': 'refused' if ok else r.get('exc', r.get('status'))},
                      nontrivial=len(c['chain']) + len(c['ancestors']) >= 2)
        else:
            twin_stats[judge_twin(ctx, c, e, r)] += 1
            st.record({'kind': 'twin:' + c['kind'], 'frame': c['frame'], 'entry': e, 'tree': plain(c['twin'])}, nontrivial=False)
    eval_methods(ctx, sm, coq_items, coq_meta)
    frames_hit = {}
    for ck, n in cov.items():
        frames_hit[ck.split('|')[0]] = frames_hit.get(ck.split('|')[0], 0) + n
    st.extra['coverage_dict_position_x_fault'] = multi_cov
    for where in ('first', 'middle', 'last'):
        if not any(k.startswith(where + '|') for k in multi_cov):
            ctx.stream_broken('faults', f'coverage floor: no fault planted in the {where} formula of a dictionary specification')
    st.extra.update({'coverage_frame_x_fault': cov, 'frames_hit': len(frames_hit), 'frames_total': len(FRAMES),
                     'twins': twin_stats,
                     'ancestor_kinds': sorted({a for c in cases for a in c['ancestors']})})
    missing_frames = [f'{f[0]}.{f[1]}' for f in FRAMES if f'{f[0]}.{f[1]}' not in frames_hit]
    if missing_frames:
        ctx.stream_broken('faults', f'coverage floor: frames never exercised: {missing_frames}')
    if not ctx.quick:
        want = {(f'{f[0]}.{f[1]}', k) for f in FRAMES for k in FORMULA_KINDS
                if f[2] in LEAF_TYPES[k] and EXCLUDED_FRAME.get(k) != f[0] and not (f[0] == 'Catalog' and k == 'var-outside-trajectory')}
        lacking = sorted(f'{a}|{b}' for a, b in want if f'{a}|{b}' not in cov)
        if len(lacking) > len(want) // 10:
            ctx.stream_broken('faults', f'coverage floor (thorough): {len(lacking)}/{len(want)} (frame, fault) pairs never hit, e.g. {lacking[:5]}')
    if twin_stats['numeric'] > max(3, (twin_stats['ok'] + twin_stats['numeric']) // 25):
        ctx.stream_broken('faults', f'too many fault-free twins fail numerically in the engine: {twin_stats}')
    for s in (st, sm):
        if s.disagreements:
            ctx.stream_broken(s.name, f'{len(s.disagreements)} disagreements; first: {json.dumps(s.disagreements[0], default=str)[:900]}')


def prep_methods(ctx, sm, c, which, r, coq_items, coq_meta):
    tree = c[which]
    light = {'kind': c['kind'] if which == 'fault' else 'twin:' + c['kind'], 'frame': c['frame'], 'tree': plain(tree), 'panel': c['panel']}
    if 'crash' in r or r.get('status') != 'accepted':
        sm.disagree(light, 'the four methods return', r)
        return
    names_ok = all(ascii_ok(x) for k in ('check_draws', 'check_rv', 'check_panel_trajectory') for x in r.get(k, []))
    if not names_ok:
        sm.disagree(light, 'ASCII names', r)
        return
    t = json_to_coq(plain(tree))
    db = coq_db(c['rows'], c['panel'])
    checks = []
    if 'audit' in r:
        codes = sorted(msg_code(m) for m in r['audit'])
        if not all(ascii_ok(x) for x in codes):
            sm.disagree(light, 'known audit messages', r['audit'])
            return
        checks.append(f'seqb (ssort (map code (audit G {db} {t}))) {coq_strs(codes)}')
    else:
        ex = r.get('audit_exc', {})
        # the audit raised (it evaluates the choice and the availabilities of a logit on the data): the specification must be
        # faulty according to the model, and the exception must be the library's
        checks.append(f'nonempty (eval_errors G {db} {t} true true true)')
        if not ex.get('biogeme'):
            checks.append('false')
    for meth, fn in (('check_draws', 'check_draws'), ('check_rv', 'check_rv'), ('check_panel_trajectory', 'check_panel')):
        if meth in r:
            checks.append(f'seqb (sorted_names ({fn} G {t})) {coq_strs(r[meth])}')
        else:
            checks.append('false')
    # the verdict of the entry points according to the model (compared with the oracle's expectation)
    if which == 'fault':
        exp = expected_code(c)
        se = f'(spec_errors G {db} {t})'
        checks.append(f'nonempty {se}')
        if exp:
            checks.append(f'has {coq_string(exp)} {se}')
        if c['kind'] != 'var-outside-trajectory':
            checks.append(f'nonempty (eval_errors G {db} {t} true true true)')
    else:
        checks.append(f'negb (nonempty (spec_errors G {db} {t}))')
        checks.append(f'negb (nonempty (eval_errors G {db} {t} true true true))')
    coq_items.append('[' + ';\n '.join(checks) + ']')
    coq_meta.append((light, len(checks), r, which))


def eval_methods(ctx, sm, coq_items, coq_meta):
    B = 60
    files = {f'c12_methods_{i // B}': COQ_HEADER + 'Eval vm_compute in [\n' + ';\n'.join(coq_items[i:i + B]) + '].\n'
             for i in range(0, len(coq_items), B)}
    outs = ctx.coq_eval_many(files)
    for i in range(0, len(coq_items), B):
        ok, out = outs[f'c12_methods_{i // B}']
        want = sum(m[1] for m in coq_meta[i:i + B])
        bs = parse_bools(out) if ok else []
        if len(bs) != want:
            ctx.stream_broken('methods', 'model evaluation failed: ' + out[-900:])
            continue
        p = 0
        for light, n, r, which in coq_meta[i:i + B]:
            got = bs[p:p + n]
            p += n
            sm.record(light, nontrivial=(which == 'fault') or len(json.dumps(light['tree'])) > 300)
            if all(got):
                continue
            names = ['audit', 'check_draws', 'check_rv', 'check_panel_trajectory', 'model verdict (BIOGEME)',
                     'model names the planted fault', 'model verdict (evaluation)']
            bad = [names[j] if j < len(names) else f'check {j}' for j, g in enumerate(got) if not g]
            sm.disagree(light, f'model and implementation differ on: {bad}',
                        {k: r.get(k) for k in ('audit', 'audit_exc', 'check_draws', 'check_rv', 'check_panel_trajectory')})


# =========================================================================================== stream: histories, draw types
def stream_histories(ctx):
    sh = ctx.stream('eval_histories', 'REPEATED evaluations of the same expression objects, with stored identifiers (expr.prepare then get_value_c / '
                    'get_value_and_derivatives with prepare_ids=False; the function of create_function; f / f_g / f_g_h of '
                    'create_objective_function) or with fresh ones at each call (prepare_ids=True, a new BIOGEME object): between the calls a column read by the formula is renamed / dropped / restored, '
                    'a choice column is edited or rescaled, or another member of a top / inner catalog is selected, in both '
                    'orders (valid then faulty, faulty then valid, valid-faulty-valid); every call is judged: BiogemeError naming '
                    'the element when the specification is faulty AT THAT CALL, a value otherwise; the verdict of each call is also '
                    'compared with Model/Audit.v eval_errors; non-trivial = a history with a faulty call')
    sd = ctx.stream('dict_draw_types', 'specifications of 2-4 formulas in which one draw name is declared with two different '
                    'distributions in two DIFFERENT formulas (each consistent alone), for every ordered pair of positions, under '
                    'random frames: BIOGEME(db, dict) and IdManager(formulas, db, n) must refuse with BiogemeError naming the draw; '
                    'same type in both = accepted; vs Model/Audit.v idmanager_errors with the extracted scope')
    rng = ctx.sub_rng('histories')
    items, meta = [], []
    # ---- evaluation histories on fault cases
    hkinds = ['missing-column', 'logit-keys', 'logit-choice', 'draws-outside', 'rv-outside', 'var-outside-trajectory']
    hcases = []
    idx = ctx.seed
    for rnd in range(ctx.n(1, 6)):
        for target in FRAMES:
            if target[0] in ('Catalog',):
                continue
            kinds = [k for k in hkinds if target[2] in LEAF_TYPES[k] and EXCLUDED_FRAME.get(k) != target[0]]
            if not kinds:
                continue
            k = kinds[(rnd + FRAMES.index(target) + ctx.seed) % len(kinds)]
            c = None
            for _ in range(4):
                c0 = gen_fault_case(rng, k, target, rng.choice([2, 3]))
                if c0['panel'] == (c0['kind'] == 'var-outside-trajectory') and c0['kind'] == k:
                    c = c0
                    break
            if c is None:
                continue
            h = gen_evalhist(rng, c, idx)
            idx += 1
            if h is None:
                continue
            hcases.append(h)
            items.append({'mode': 'evalhist', 'tree': h['tree'], 'betas': h['betas'], 'rows': h['rows'], 'panel': h['panel'],
                          'setup': h['setup'], 'script': h['script'], 'ndraws': 5})
            meta.append(('hist', h))
    # ---- draw types across formulas
    across = gen_across_cases(rng, ctx.n(1, 4))
    for c in across:
        for which in ('fault', 'twin'):
            for e in ('biogeme_multi', 'idmanager_multi'):
                items.append({'mode': 'formula', 'trees': c[which], 'betas': c['betas'], 'rows': c['rows'], 'panel': False,
                              'entry': e, 'ndraws': 6})
                meta.append(('across', (c, which, e)))
    for c in load_corpus('evalhist'):
        items.append(c['item'])
        meta.append(('hist', c['case']))
    res = ctx.impl_cases('c12_faults.py', items, chunk=20, timeout=1200)
    checks, cmeta = [], []
    cov = {}
    for (what, info), r in zip(meta, res):
        if what == 'across':
            c, which, e = info
            light = {'kind': c['kind'], 'formulas': c['names'], 'positions': [c['p'], c['q']], 'types': c['types'], 'chains': c['chains'],
                     'entry': e, 'which': which}
            sd.record(light, nontrivial=which == 'fault')
            wit = dict(light)
            wit.update({'trees': c[which], 'betas': c['betas'], 'rows': c['rows'], 'mention': 'xi', 'tree': c[which][0][1], 'panel': False})
            ck = f'{c["n"]}:{c["p"]}-{c["q"]}'
            cov[ck] = cov.get(ck, 0) + 1
            if which == 'fault':
                key = f'C12/faults/draws-types-across/{e}/{c["n"]}-formulas-{c["p"]}-{c["q"]}'
                what_s = (f'draw xi declared {c["types"][0]} in formula {c["names"][c["p"]]} and {c["types"][1]} in formula '
                          f'{c["names"][c["q"]]} of one specification')
                if 'crash' in r or r.get('status') == 'accepted':
                    ctx.violation(key, what_s + f': accepted by {e}', wit, 'BiogemeError naming xi', r if 'crash' not in r else r['crash'])
                elif not r.get('biogeme'):
                    ctx.violation(key, what_s + f': surfaces as {r.get("exc")}', wit, 'BiogemeError naming xi', r)
                elif 'xi' not in (r.get('msg') or ''):
                    ctx.violation(key + '/message', what_s + ': the message does not name the draw', wit, 'xi', r)
            else:
                if r.get('status') != 'accepted' and not (r.get('engine') and e == 'biogeme_multi' and c['names'][-1] == 'weight'):
                    ctx.violation(f'C12/faults/valid-rejected/draws-types-across/{e}', 'one draw name with the same type in two formulas is refused',
                                  wit, 'accepted', r if 'crash' not in r else r['crash'])
            if e == 'idmanager_multi':
                fs = '[' + '; '.join(json_to_coq(plain(t)) for _, t in c[which]) + ']'
                cols = coq_strs(list(c['rows'][0].keys()))
                refused = 'true' if r.get('status') == 'raised' and r.get('biogeme') else 'false'
                checks.append(f'Bool.eqb (nonempty (idmanager_errors gen_draw_scope {fs} {cols})) {refused}')
                cmeta.append((sd, light, r))
                if which == 'fault':
                    checks.append(f'has "T:xi" (idmanager_errors gen_draw_scope {fs} {cols})')
                    cmeta.append((sd, light, r))
            continue
        h = info
        light = {'kind': h['kind'], 'frame': h['frame'], 'setup': h['setup'], 'history': h['history'], 'tree': plain(h['tree'])}
        wit = {k: h[k] for k in ('kind', 'frame', 'chain', 'setup', 'history', 'script', 'expect', 'tree', 'betas', 'rows', 'mention')}
        key = f'C12/faults/{h["kind"]}/evalhist-{h["setup"]}/{h["history"]}'
        if 'crash' in r:
            ctx.violation(key, 'the process died during a history of evaluations', wit, h['expect'], r['crash'])
            continue
        if r.get('status') != 'done':
            # the set-up itself (prepare / create_function on the valid specification) failed
            if r.get('engine'):
                sh.evaluations += 1
                continue
            ctx.violation(f'C12/faults/valid-rejected/evalhist-{h["setup"]}/{h["history"]}', 'a valid specification is refused when the '
                          'evaluation is set up', wit, 'accepted', r)
            continue
        calls = r['calls']
        views = simulate_script(h, h['tree'], h['rows'], h['script'])
        numeric = False
        sh.record(light, nontrivial=not all(h['expect']))
        ck = f'{h["setup"]}|{h["history"]}'
        cov[ck] = cov.get(ck, 0) + 1
        for i, (exp_ok, call) in enumerate(zip(h['expect'], calls)):
            if call.get('status') == 'skipped' or numeric:
                break
            if exp_ok:
                if call.get('status') == 'accepted':
                    continue
                if call.get('engine'):
                    numeric = True       # a numerical failure of the evaluation of a valid observation
                    continue
                ctx.violation(f'C12/faults/valid-rejected/evalhist-{h["setup"]}/{h["history"]}', f'call {i + 1} of the history: the '
                              'specification is valid at that moment and is refused', wit, 'a value', call)
            else:
                if call.get('status') == 'accepted':
                    ctx.violation(key, f'call {i + 1} of the history ({h["history"]}, {h["setup"]}, same expression object): the specification is faulty at '
                                  f'that moment ({h["kind"]}) and a value is produced: {json.dumps(call.get("value"))[:80]}', wit,
                                  f'BiogemeError naming {h["mention"]}', call)
                elif not call.get('biogeme'):
                    ctx.violation(key, f'call {i + 1} of the history ({h["history"]}): the fault ({h["kind"]}) surfaces as '
                                  f'{call.get("exc")}', wit, f'BiogemeError naming {h["mention"]}', call)
                elif h['mention'] not in (call.get('msg') or ''):
                    ctx.violation(key + '/message', f'call {i + 1}: the message does not name {h["mention"]}', wit, h['mention'], call)
            # the model's verdict for this call
        for i, (exp_ok, (t, rows_i)) in enumerate(zip(h['expect'], views)):
            if not rows_i:
                continue
            pan = bool(h.get('panel'))
            fn = 'spec_errors G' if h['setup'] in ('fresh-biogeme', 'from-configuration') else 'eval_errors G'
            tail_ = '' if fn.startswith('spec') else ' true true true'
            checks.append(f'Bool.eqb (nonempty ({fn} {coq_db(rows_i, pan)} {json_to_coq(t)}{tail_})) '
                          f'{"false" if exp_ok else "true"}')
            cmeta.append((sh, light, {'call': i + 1}))
    B = 120
    files = {f'c12_hist_{i // B}': COQ_HEADER + 'Eval vm_compute in [\n' + ';\n'.join(checks[i:i + B]) + '].\n'
             for i in range(0, len(checks), B)}
    outs = ctx.coq_eval_many(files)
    for i in range(0, len(checks), B):
        ok, out = outs[f'c12_hist_{i // B}']
        bs = parse_bools(out) if ok else []
        if len(bs) != len(checks[i:i + B]):
            ctx.stream_broken('eval_histories', 'model evaluation failed: ' + out[-900:])
            continue
        for (stx, light, r), b in zip(cmeta[i:i + B], bs):
            if not b:
                stx.disagree(light, 'the verdict of the model (refused / accepted) differs from the expected one', r)
    sh.extra['coverage_setup_x_history'] = {k: v for k, v in cov.items() if '|' in k}
    sd.extra['coverage_positions'] = {k: v for k, v in cov.items() if '|' not in k}
    for stp in SETUPS:
        if not any(k.startswith(stp + '|') for k in cov):
            ctx.stream_broken('eval_histories', f'coverage floor: no history through {stp}')
    for n in (2, 3, 4):
        for p_ in range(n):
            for q_ in range(n):
                if p_ != q_ and f'{n}:{p_}-{q_}' not in cov:
                    ctx.stream_broken('dict_draw_types', f'coverage floor: positions {n}:{p_}-{q_} not exercised')
    for stx in (sh, sd):
        if stx.disagreements:
            ctx.stream_broken(stx.name, f'{len(stx.disagreements)} disagreements; first: {json.dumps(stx.disagreements[0], default=str)[:900]}')


# =========================================================================================== stream: requests, data, nests
DATA_BAD = [('str-object', 'N'), ('numeric-strings', 'N'), ('mixed-object', 'N'), ('string-dtype', 'N'), ('category', 'N'),
            ('datetime', 'N'), ('timedelta', 'N'), ('list-cells', 'N'), ('nan-float', 'nan'), ('none-object', 'nan'),
            ('Int64-NA', 'nan'), ('Float64-NA', 'nan'), ('NaT', 'nan')]
DATA_GOOD = ['float', 'int', 'float32', 'int32', 'uint8']
DTYPE_MODEL = {'float': 'DFloat', 'int': 'DInt', 'float32': 'DFloat', 'int32': 'DInt', 'uint8': 'DInt', 'str-object': 'DObject',
               'numeric-strings': 'DObject', 'mixed-object': 'DObject', 'string-dtype': 'DExtension', 'category': 'DExtension',
               'datetime': 'DDatetime', 'timedelta': 'DTimedelta', 'list-cells': 'DObject', 'nan-float': 'DFloat',
               'none-object': 'DFloat', 'Int64-NA': 'DExtension', 'Float64-NA': 'DExtension', 'NaT': 'DDatetime'}
HAS_NULL = {'nan-float', 'none-object', 'Int64-NA', 'Float64-NA', 'NaT'}


def stream_other(ctx):
    st = ctx.stream('faults_other', 'second derivatives without first ones on valid formulas; Database(...) on frames with one faulty '
                    'column (strings, mixed objects, pandas extension types, dates, NaN / None / <NA>, no row, emptied after '
                    'construction) at a random column / row position vs Model/Audit.v data_audit; models.lognested / nested / '
                    'logcnl / cnl / *_mev_mu with 2-5 nests, an alternative shared by the nests at EVERY ordered pair of positions or a foreign alternative at every position (both syntaxes) vs nested_ok / cnl_ok; histories: a NaN / string column / emptied table entering the current table after a first BIOGEME object, panel(), remove(), add_column(), scale_column(), then a second BIOGEME(...) / get_value_c; '
                    'cnl_ok; each with its fault-free twin; non-trivial = a planted fault')
    rng = ctx.sub_rng('other')
    items, meta = [], []
    # ---- requests
    for _ in range(ctx.n(10, 120)):
        base = gen_case(rng, variables=True, max_depth=rng.choice([2, 3]), n_rows=3, exclude=['NormalCdf'])
        for e in ('hess', 'bhhh', 'hess_bhhh', 'gvd'):
            items.append({'mode': 'formula', 'tree': base['tree'], 'betas': base['betas'], 'rows': base['rows'], 'panel': False, 'entry': e})
            meta.append(('request', e, base))
    # ---- data
    for rep in range(ctx.n(3, 12)):
        for kind, cls in DATA_BAD + [(g, None) for g in DATA_GOOD]:
            ncols = rng.randint(1, 4)
            posn = rng.randrange(ncols + 1)
            cols = [{'name': f'x{i}', 'kind': rng.choice(DATA_GOOD)} for i in range(ncols)]
            cols.insert(posn, {'name': 'cbad', 'kind': kind, 'row': rng.randrange(4)})
            fr = {'nrows': rng.randint(1, 4), 'cols': cols}
            items.append({'mode': 'data', 'frame': fr, 'entry': 'database'})
            meta.append(('data', kind, fr))
        for variant in ('empty-rows', 'empty-frame'):
            fr = {'nrows': 0, 'cols': [] if variant == 'empty-frame' else [{'name': 'x0', 'kind': 'float'}, {'name': 'x1', 'kind': 'int'}]}
            items.append({'mode': 'data', 'frame': fr, 'entry': 'database'})
            meta.append(('data', variant, fr))
        for e in ('biogeme', 'gvc'):
            fr = {'nrows': rng.randint(1, 4), 'cols': [{'name': 'x0', 'kind': 'float'}, {'name': 'x1', 'kind': 'int'}]}
            items.append({'mode': 'data', 'frame': fr, 'entry': e, 'empty_after': True, 'use': 'x0'})
            meta.append(('data-after', e, fr))
            items.append({'mode': 'data', 'frame': fr, 'entry': e, 'empty_after': False, 'use': 'x0'})
            meta.append(('data-after-twin', e, fr))
    # ---- nests
    nested_fns = ['lognested', 'nested', 'lognested_mev_mu', 'nested_mev_mu', 'get_mev_for_nested', 'get_mev_generating_for_nested',
                  'get_mev_for_nested_mu']
    cnl_fns = ['logcnl', 'cnl', 'logcnlmu', 'cnlmu', 'get_mev_for_cross_nested', 'get_mev_for_cross_nested_mu']
    rows = [{'x1': 0.5, 'av1': 1.0, 'kk': 1.0}, {'x1': 1.5, 'av1': 0.0, 'kk': 3.0}]

    def partition(k):
        """k disjoint nests over 2k..2k+2 alternatives (1 and 3 among them), possibly one alternative alone"""
        n_alt = rng.randint(max(k + 1, 4), min(2 * k + 2, 9))
        alts = [1, 3] + rng.sample([2, 4, 5, 6, 8, 11, 12], n_alt - 2)
        rng.shuffle(alts)
        pool = list(alts)
        cut = sorted(rng.sample(range(1, len(pool)), k - 1))
        parts = [pool[a_:b_] for a_, b_ in zip([0] + cut, cut + [len(pool)])]
        if rng.random() < 0.4:
            big = max(range(k), key=lambda i: len(parts[i]))
            if len(parts[big]) > 1:
                parts[big] = parts[big][:-1]                # one alternative alone (allowed)
        return alts, parts

    def nest_item(fn, alts, parts, fault, mention, pair):
        it = {'mode': 'nests', 'func': fn, 'choice_set': list(alts), 'util_keys': list(alts), 'nests': [list(p) for p in parts],
              'old_syntax': rng.random() < 0.5, 'avail': rng.random() < 0.5, 'rows': rows,
              'evaluate': fault is None and fn in ('lognested', 'logcnl', 'nested', 'cnl')}
        items.append(it)
        meta.append(('nests', (fn, fault, mention, fn in cnl_fns, pair), it))

    fns = nested_fns + cnl_fns
    fi = 0
    for rep in range(ctx.n(1, 4)):
        for k in (2, 3, 4, 5):
            # an alternative shared by the nests at positions (i, j), for EVERY pair of positions, in both directions
            for i in range(k):
                for j in range(k):
                    if i == j:
                        continue
                    fn_n = nested_fns[fi % len(nested_fns)]
                    fn_c = cnl_fns[fi % len(cnl_fns)]
                    fi += 1
                    for fn in (fn_n, fn_c):
                        alts, parts = partition(k)
                        x = rng.choice(parts[i])
                        parts[j].insert(rng.randrange(len(parts[j]) + 1), x)
                        nest_item(fn, alts, parts, 'overlap', str(x), f'{k}:{i}-{j}')
            # an alternative listed twice in the nest at EVERY position (nested logit; the alphas of a cross-nested nest are a dict)
            for i in range(k):
                alts, parts = partition(k)
                x = rng.choice(parts[i])
                parts[i].insert(rng.randrange(len(parts[i]) + 1), x)
                nest_item(nested_fns[fi % len(nested_fns)], alts, parts, 'repeat', str(x), f'{k}:{i}')
                fi += 1
            # an alternative outside the choice set in the nest at EVERY position
            for i in range(k):
                for fn in (nested_fns[fi % len(nested_fns)], cnl_fns[fi % len(cnl_fns)]):
                    alts, parts = partition(k)
                    x = rng.choice([13, 17, 0, -2])
                    parts[i].insert(rng.randrange(len(parts[i]) + 1), x)
                    nest_item(fn, alts, parts, 'outside', str(x), f'{k}:{i}')
                fi += 1
        for fn in fns:
            for k in (1, 3, 5):
                alts, parts = partition(k) if k > 1 else ([1, 3, 4], [[1, 3]])
                nest_item(fn, alts, parts, None, None, f'{k}')
    # ---- histories of a database: the fault enters the CURRENT table after other operations
    histories = [[], ['first_biogeme'], ['first_biogeme_dict'], ['panel'], ['panel', 'first_biogeme'], ['remove_some'],
                 ['add_column'], ['scale'], ['first_gvc'], ['first_biogeme', 'remove_some', 'add_column'],
                 ['remove_some', 'panel'], ['add_column', 'first_biogeme', 'scale']]
    injections = [('nan-cell', 'NaN'), ('nan-column', 'NaN'), ('str-column', 'sbad'), ('object-cell', 'sbad'), ('empty', 'no entry'),
                  (None, None), ('good-column', None)]
    hi = 0
    for rep in range(ctx.n(1, 3)):
        for steps in histories:
            for inj, mention in injections:
                for e in ('biogeme', 'biogeme_dict', 'gvc'):
                    if ctx.quick and inj is not None and e == 'biogeme_dict' and (hi % 2):
                        hi += 1
                        continue
                    hi += 1
                    it = {'mode': 'history', 'steps': steps, 'inject': inj, 'entry': e, 'row': rng.randrange(5), 'nrows': rng.randint(4, 6)}
                    items.append(it)
                    meta.append(('history', (inj, mention), it))
    items += [c['item'] for c in load_corpus('other')]
    meta += [('corpus', c, c['item']) for c in load_corpus('other')]
    res = ctx.impl_cases('c12_faults.py', items, chunk=25, timeout=1200)
    coq_checks, coq_meta = [], []
    cov = {}
    for (what, info, obj), r in zip(meta, res):
        if what == 'corpus':
            judge_corpus_other(ctx, st, info, r)
            continue
        if what == 'request':
            e, base = info, obj
            light = {'request': e, 'tree': strip_sids(base['tree'])}
            st.record(light, nontrivial=e != 'gvd')
            wit = {'entry': e, 'tree': base['tree'], 'betas': base['betas'], 'rows': base['rows']}
            if e == 'gvd':
                if r.get('status') != 'accepted' and not r.get('engine'):
                    ctx.violation('C12/faults/valid-rejected/request/gvd', 'value and all derivatives of a valid formula are refused',
                                  wit, 'accepted', r)
            else:
                if not (r.get('status') == 'raised' and r.get('biogeme') and 'gradient' in (r.get('msg') or '')):
                    ctx.violation(f'C12/faults/hessian-without-gradient/{e}', 'second derivatives (hessian / BHHH) requested without the '
                                  'gradient are not refused with the library error', wit, 'BiogemeError mentioning the gradient', r)
            cov['request:' + e] = cov.get('request:' + e, 0) + 1
            continue
        if what == 'data':
            kind, fr = info, obj
            bad = dict(DATA_BAD).get(kind) or ('empty' if kind.startswith('empty') else None)
            st.record({'data': kind, 'frame': fr}, nontrivial=bad is not None)
            cov['data:' + kind] = cov.get('data:' + kind, 0) + 1
            wit = {'frame': fr, 'variant': kind}
            if bad is None:
                if r.get('status') != 'accepted':
                    ctx.violation(f'C12/faults/valid-rejected/data/{kind}', 'numeric data without NaN are refused', wit, 'accepted', r)
            else:
                cls = 'data-non-numeric' if bad == 'N' else ('data-nan' if bad == 'nan' else 'data-empty')
                mention = 'cbad' if bad == 'N' else ('NaN' if bad == 'nan' else 'no entry')
                if r.get('status') == 'accepted':
                    ctx.violation(f'C12/faults/{cls}/{kind}/database', f'Database(...) accepts {kind} data', wit, 'BiogemeError', r)
                elif not r.get('biogeme'):
                    ctx.violation(f'C12/faults/{cls}/{kind}/database', f'{kind} data surface as {r.get("exc")} instead of the library error',
                                  wit, 'BiogemeError', r)
                elif mention not in (r.get('msg') or ''):
                    ctx.violation(f'C12/faults/{cls}/{kind}/database/message', f'the message does not mention {mention}', wit, mention, r)
            # model
            if kind not in ('empty-rows', 'empty-frame') or True:
                cols = '[' + '; '.join(f'({coq_string(c["name"])}, {DTYPE_MODEL[c["kind"]]})' for c in fr['cols']) + ']'
                null = 'true' if any(c['kind'] in HAS_NULL for c in fr['cols']) and fr['nrows'] > 0 else 'false'
                refused = 'true' if r.get('status') == 'raised' and r.get('biogeme') else 'false'
                coq_checks.append(f'Bool.eqb (nonempty (data_audit (mkFrame {cols} {fr["nrows"]} {null}))) {refused}')
                coq_meta.append(({'data': kind, 'frame': fr}, r))
            continue
        if what in ('data-after', 'data-after-twin'):
            e = info
            st.record({'data': what, 'entry': e}, nontrivial=what == 'data-after')
            cov[what + ':' + e] = cov.get(what + ':' + e, 0) + 1
            wit = {'frame': obj, 'entry': e, 'emptied_by': 'Database.remove of every row'}
            if what == 'data-after':
                if 'crash' in r:
                    ctx.violation(f'C12/faults/data-empty/after-remove/{e}', 'a database emptied after its construction kills the process', wit,
                                  'BiogemeError', r['crash'])
                elif not (r.get('status') == 'raised' and r.get('biogeme')):
                    ctx.violation(f'C12/faults/data-empty/after-remove/{e}', 'a database emptied after its construction is not refused with '
                                  'the library error', wit, 'BiogemeError', r)
            elif r.get('status') != 'accepted':
                ctx.violation(f'C12/faults/valid-rejected/data/{e}', 'a valid database is refused', wit, 'accepted', r)
            continue
        if what == 'history':
            inj, mention = info
            it = obj
            e = it['entry']
            st.record({'history': it['steps'], 'inject': inj, 'entry': e}, nontrivial=inj not in (None, 'good-column'))
            hk = f'history:{"+".join(it["steps"]) or "none"}:{inj}:{e}'
            cov[hk] = cov.get(hk, 0) + 1
            wit = dict(it)
            cls = {'nan-cell': 'data-nan', 'nan-column': 'data-nan', 'str-column': 'data-non-numeric', 'object-cell': 'data-non-numeric',
                   'empty': 'data-empty'}.get(inj)
            if cls is None:
                if r.get('status') != 'accepted':
                    ctx.violation(f'C12/faults/valid-rejected/history/{e}', 'a valid table is refused after a history of operations', wit,
                                  'accepted', r if 'crash' not in r else r['crash'])
                continue
            # get_value_c does not audit the table (only emptiness): NaN / strings that entered the table later are not judged there
            if e == 'gvc' and cls != 'data-empty':
                st.extra.setdefault('unjudged_gvc_history', {}).setdefault(str(inj), {})
                k2 = r.get('exc') or r.get('status')
                st.extra['unjudged_gvc_history'][str(inj)][k2] = st.extra['unjudged_gvc_history'][str(inj)].get(k2, 0) + 1
                continue
            key = f'C12/faults/{cls}/history-{inj}/{e}'
            what_h = f'{inj} entered the table after {it["steps"] or "its construction"}'
            if 'crash' in r:
                ctx.violation(key, f'{what_h}: the process dies', wit, 'BiogemeError', r['crash'])
            elif r.get('status') == 'accepted':
                ctx.violation(key, f'{what_h}: accepted by {e}, produces {json.dumps(r.get("after") or r.get("value"))[:100]}', wit,
                              f'BiogemeError mentioning {mention}', r)
            elif not r.get('biogeme'):
                ctx.violation(key, f'{what_h}: surfaces as {r.get("exc")} in {e}', wit, f'BiogemeError mentioning {mention}', r)
            elif mention not in (r.get('msg') or ''):
                ctx.violation(key + '/message', f'{what_h}: the message does not mention {mention}', wit, mention, r)
            continue
        if what == 'nests':
            fn, fault, mention, cross, pair = info
            it = obj
            st.record({'nests': it['nests'], 'choice_set': it['choice_set'], 'func': fn, 'fault': fault}, nontrivial=fault is not None)
            cov[f'nests:{fn}:{fault}'] = cov.get(f'nests:{fn}:{fault}', 0) + 1
            pk = f'nests-positions:{"cnl" if cross else "nested"}:{fault}:{pair}'
            cov[pk] = cov.get(pk, 0) + 1
            wit = {k: it[k] for k in ('func', 'choice_set', 'nests', 'old_syntax', 'avail')}
            wit['positions'] = pair
            should_refuse = fault in ('outside', 'repeat') or (fault == 'overlap' and not cross)
            key = f'C12/faults/nests-{fault}/{fn}' if should_refuse else f'C12/faults/valid-rejected/nests/{fn}'
            if should_refuse:
                if 'crash' in r or r.get('status') == 'accepted':
                    ctx.violation(key, f'{fn} accepts nests with fault: {fault}', wit, 'BiogemeError', r)
                elif not r.get('biogeme'):
                    ctx.violation(key, f'nests with fault {fault} surface as {r.get("exc")} in {fn}', wit, 'BiogemeError', r)
                elif mention not in (r.get('msg') or ''):
                    ctx.violation(key + '/message', f'the message does not mention alternative {mention}', wit, mention, r)
            else:
                if r.get('status') != 'accepted' and not r.get('engine'):
                    ctx.violation(key, f'{fn} refuses valid nests', wit, 'accepted', r)
            ns = ('(mkNests [' + '; '.join(f'({a})%Z' for a in it['choice_set']) + '] ['
                  + '; '.join('[' + '; '.join(f'({a})%Z' for a in p) + ']' for p in it['nests']) + '])')
            refused = 'true' if r.get('status') == 'raised' and r.get('biogeme') else 'false'
            coq_checks.append(f'Bool.eqb (negb ({"cnl_ok" if cross else "nested_ok"} {ns})) {refused}')
            coq_meta.append(({'nests': it['nests'], 'choice_set': it['choice_set'], 'func': fn}, r))
    B = 300
    files = {f'c12_other_{i // B}': COQ_HEADER + 'Eval vm_compute in [\n' + ';\n'.join(coq_checks[i:i + B]) + '].\n'
             for i in range(0, len(coq_checks), B)}
    outs = ctx.coq_eval_many(files)
    for i in range(0, len(coq_checks), B):
        ok, out = outs[f'c12_other_{i // B}']
        bs = parse_bools(out) if ok else []
        if len(bs) != len(coq_checks[i:i + B]):
            ctx.stream_broken('faults_other', 'model evaluation failed: ' + out[-900:])
            continue
        for (light, r), b in zip(coq_meta[i:i + B], bs):
            if not b:
                st.disagree(light, 'model verdict (refused / accepted) differs', r)
    st.extra['coverage'] = cov
    lack = [f'{k}:{i}-{j}' for k in (3, 4, 5) for i in range(k) for j in range(k) if i != j
            and f'nests-positions:nested:overlap:{k}:{i}-{j}' not in cov]
    if lack:
        ctx.stream_broken('faults_other', f'coverage floor: nested-logit overlap never planted at the pairs of positions {lack[:6]}')
    if st.disagreements:
        ctx.stream_broken('faults_other', f'{len(st.disagreements)} disagreements; first: {json.dumps(st.disagreements[0], default=str)[:900]}')


def judge_corpus_other(ctx, st, c, r):
    st.record({'corpus': c.get('name')}, nontrivial=True)
    refused = r.get('status') == 'raised' and r.get('biogeme') and c.get('mention', '') in (r.get('msg') or '')
    if c['expect'] == 'refused' and not refused:
        ctx.violation(c['key'], c['what'], c['item'], 'BiogemeError' + (f' mentioning {c["mention"]}' if c.get('mention') else ''),
                      r if 'crash' not in r else r['crash'])
    if c['expect'] == 'accepted' and r.get('status') != 'accepted':
        ctx.violation(c['key'], c['what'], c['item'], 'accepted', r)


# =========================================================================================== stream: missing
def lazy_cases(rng):
    """targeted formulas: the dedicated column `xm` (holding the code on some rows) sits in a position that the lazy semantics
    reads or not depending on the switch column `sw` (0/1)"""
    xm, sw = N(['Var', 'xm']), N(['Var', 'sw'])
    rd = N(['Bin', 'Gt'], [xm, ZERO])
    swt = N(['Bin', 'Ne'], [sw, ZERO])
    out = [
        ('and-second', N(['Bin', 'And'], [swt, rd]), lambda s: s != 0),
        ('or-second', N(['Bin', 'Or'], [swt, rd]), lambda s: s == 0),
        ('and-first', N(['Bin', 'And'], [rd, swt]), lambda s: True),
        ('condsum-term', N(['CondSum'], [swt, xm, ONE, HALF]), lambda s: s != 0),
        ('condsum-cond', N(['CondSum'], [rd, HALF, swt, ONE]), lambda s: True),
        ('elem-entry', N(['Elem', [0, 1]], [sw, HALF, xm]), lambda s: s == 1),
        ('elem-key', N(['Elem', [0, 1, 5]], [N(['Bin', 'Times'], [sw, N(['Bin', 'Gt'], [xm, num(-1000)])]), HALF, ONE, TWO]), lambda s: True),
        ('logit-util-unavailable', N(['LogLogit', [1, 2], [1, 2]], [ONE, HALF, xm, ONE, sw]), lambda s: s != 0),
        ('logit-util-chosen', N(['LogLogit', [1, 2], [1, 2]], [TWO, HALF, xm, ONE, ONE]), lambda s: True),
        ('times-zero', N(['Bin', 'Times'], [ZERO, xm]), lambda s: True),
        ('multsum', N(['MultSum'], [HALF, xm, sw]), lambda s: True),
        ('linutil', N(['LinUtil'], [N(['Beta', 'bfr', False]), xm]), lambda s: True),
        ('belongs', N(['Belongs', [[1, 0], [3, 0]]], [xm]), lambda s: True),
        ('exp', N(['Un', 'Exp'], [N(['Bin', 'Times'], [HALF, xm])]), lambda s: True),
        ('unused-column', N(['Bin', 'Plus'], [sw, HALF]), lambda s: False),
    ]
    return out


def stream_missing(ctx):
    st = ctx.stream('missing', 'one-row tables where the missing-data code (99999, or another declared code through BIOGEME) sits in '
                    'cells of read / unread columns and branches (targeted And/Or, ConditionalSum, Elem, logit availability frames with '
                    'a switch column, strict frames, and random formulas with random planting): the evaluation must fail iff '
                    'evalX (computed by the proved interval evaluator with the cell absent from the row) is outside the domain; '
                    'the message must name the column and the code; non-trivial = at least one cell holds the code; distinct by '
                    '(tree, row)')
    rng = ctx.sub_rng('missing')
    items, meta = [], []
    betas0 = {'bfr': {'value': 0.5, 'fixed': False, 'positive': True, 'lb': None, 'ub': None}}
    for rep in range(ctx.n(1, 10)):
        for name, tree, reads in lazy_cases(rng):
            for s in (0.0, 1.0):
                for planted in (True, False):
                    code = MISSING_DEFAULT
                    path = 'gvc'
                    if rng.random() < 0.3 and 'LogLogit' not in json.dumps(tree):
                        path, code = 'biogeme', rng.choice([MISSING_DEFAULT, -1.0, 12345.0])
                    row = {'xm': code if planted else 1.5, 'sw': s, 'other': code if rng.random() < 0.5 else 0.25}
                    # wrap in a strict context so that the verdict must travel to the root
                    wrap = rng.choice(['none', 'plus', 'exp-half', 'cmp'])
                    t = {'none': tree, 'plus': N(['Bin', 'Plus'], [ONE, tree]), 'exp-half': N(['Un', 'Exp'], [N(['Bin', 'Times'], [num(1, -3), tree])]),
                         'cmp': N(['Bin', 'Le'], [tree, num(1000)])}[wrap]
                    if name.startswith('logit') and wrap == 'exp-half':
                        t = tree
                    items.append({'tree': t, 'betas': betas0, 'row': row, 'code': code, 'path': path})
                    meta.append({'name': name, 'expect_fail': planted and reads(s), 'planted': planted})
    for _ in range(ctx.n(60, 1500)):
        c = gen_case(rng, variables=True, max_depth=rng.choice([2, 3, 4]), n_rows=1, exclude=['NormalCdf'])
        row = dict(c['rows'][0])
        p = rng.choice([0.0, 0.15, 0.3])
        for k in list(row):
            if k == KEY_NAME:
                continue       # the key column selects the branch; it is read by construction when used
            if rng.random() < p:
                row[k] = MISSING_DEFAULT
        items.append({'tree': c['tree'], 'betas': c['betas'], 'row': row, 'code': MISSING_DEFAULT, 'path': 'gvc'})
        meta.append({'name': 'random', 'expect_fail': None, 'planted': any(v == MISSING_DEFAULT for v in row.values())})
    for c in load_corpus('missing'):
        items.append(c['item'])
        meta.append({'name': 'corpus:' + c.get('name', ''), 'expect_fail': c.get('expect_fail'), 'planted': True})
    res = ctx.impl_cases('c12_missing.py', items, chunk=12, timeout=1200)
    vcases, vmeta = [], []
    for it, m, r in zip(items, meta, res):
        env_row = {k: v for k, v in it['row'].items() if v != it['code']}
        benv = {k: v['value'] for k, v in it['betas'].items()}
        light = {'tree': strip_sids(it['tree']), 'row': it['row'], 'code': it['code'], 'path': it['path'], 'case': m['name']}
        if 'crash' in r:
            ctx.violation(f'C12/missing/crash/{m["name"]}', 'the process died while evaluating one observation', light, 'a value or an error', r['crash'])
            continue
        if 'value' in r:
            obs = r['value']
        elif r.get('engine') or r.get('biogeme'):
            obs = 'error'
        else:
            ctx.violation(f'C12/missing/exception/{m["name"]}', f'evaluating one observation raises {r.get("exc")}', light,
                          'a value, or an error of the library / engine naming the missing value', r)
            continue
        vcases.append({'expr': plain(it['tree']), 'env': {'beta': benv, 'var': env_row}, 'observed': obs})
        vmeta.append((it, m, r, light))
    verdicts = check_values(ctx, 'c12miss', vcases, relbits=-30, strict_nan=True)
    # is a model verdict "outside the domain" caused by the missing cells?  Re-evaluate the model with ordinary values in those
    # cells: only observations that are regular then are judged (evalX differs between the two rows only where a missing cell is read)
    again = [i for i, ((it, m, r, light), (v, info)) in enumerate(zip(vmeta, verdicts))
             if (v == 'differ' and isinstance(info, dict) and info.get('model') == 'outside the domain (NaN)')
             or (v == 'agree' and info == 'both outside the domain')]
    bcases = []
    for i in again:
        it = vmeta[i][0]
        full = {k: (0.75 if x == it['code'] else x) for k, x in it['row'].items()}
        bcases.append({'expr': vcases[i]['expr'], 'env': {'beta': vcases[i]['env']['beta'], 'var': full}, 'observed': 0.0})
    bverd = check_values(ctx, 'c12missb', bcases, relbits=-30, strict_nan=True) if bcases else []
    irregular = set()
    for i, (v, info) in zip(again, bverd):
        if v == 'undecided' or (isinstance(info, dict) and info.get('model') == 'outside the domain (NaN)'):
            irregular.add(i)
    und = 0
    split = {'read-fails': 0, 'unread-harmless': 0, 'no-code': 0, 'irregular-dropped': len(irregular)}
    for i, ((it, m, r, light), (v, info)) in enumerate(zip(vmeta, verdicts)):
        if v == 'undecided' or i in irregular:
            und += 1
            st.evaluations += 1
            continue
        st.record(light, nontrivial=m['planted'])
        failed = 'value' not in r
        if v == 'differ' and failed and isinstance(info, dict) and info.get('model') == '-inf' and any(
                c in (r.get('msg') or '') for c, x in it['row'].items() if x == it['code']):
            # the chosen alternative of a logit is unavailable: the engine walks the alternatives by increasing identifier and
            # reads those before the chosen one; evalX answers -inf without fixing that order: not decided by the model
            und += 1
            split['logit-order-undecided'] = split.get('logit-order-undecided', 0) + 1
            continue
        if v == 'differ':
            st.disagree(light, info, r)
            cols = [k for k, x in it['row'].items() if x == it['code']]
            cls = m['name']
            if not failed and linutil_reads(it['tree'], cols):
                cls = 'linear-utility'
            if failed and logit_audit_reads(it['tree'], cols) and any(c in (r.get('msg') or '') for c in cols):
                cls = 'logit-audit'
            if failed:
                what = ('the evaluation fails although the lazy semantics does not read any cell holding the missing-data code '
                        '(the code sits in an unread column / branch)') if m['planted'] else 'the evaluation of a regular observation fails'
                if ctx.violation(f'C12/missing/unread-not-harmless/{cls}', what, light, info, r) is False:
                    st.disagreements.pop()
            else:
                if ctx.violation(f'C12/missing/read-not-refused/{cls}', 'the formula reads a cell holding the missing-data code and a number '
                                 'is produced (or the value is wrong)', light, info, r) is False:
                    st.disagreements.pop()
            continue
        if m['expect_fail'] is not None and m['expect_fail'] != failed:
            st.disagree(light, f'by construction the cell is {"read" if m["expect_fail"] else "not read"}', r)
            continue
        if failed:
            split['read-fails'] += 1
            msg = r.get('msg') or ''
            cols = [k for k, x in it['row'].items() if x == it['code']]
            code_txt = repr(int(it['code'])) if float(it['code']).is_integer() else repr(it['code'])
            if m['planted'] and not (any(c in msg for c in cols) and code_txt in msg):
                ctx.violation(f'C12/missing/message/{m["name"]}', 'the error raised for a missing value names neither the column nor the code',
                              light, f'a message naming one of {cols} and {code_txt}', r)
        elif m['planted']:
            split['unread-harmless'] += 1
        else:
            split['no-code'] += 1
    st.extra.update({'undecided': und, 'split': split})
    if split['read-fails'] < ctx.n(10, 100) or split['unread-harmless'] < ctx.n(10, 100):
        ctx.stream_broken('missing', f'coverage floor: {split}')
    if st.disagreements:
        ctx.stream_broken('missing', f'{len(st.disagreements)} disagreements; first: {json.dumps(st.disagreements[0], default=str)[:900]}')


def mentions_var(t, cols):
    return (t['h'][0] == 'Var' and t['h'][1] in cols) or any(mentions_var(k, cols) for k in t['k'])


def logit_audit_reads(t, cols):
    """a logit whose choice or availabilities (evaluated on every row by LogLogit.audit) use a column holding the code"""
    if t['h'][0] == 'LogLogit':
        nu = len(t['h'][1])
        if any(mentions_var(k, cols) for k in [t['k'][0]] + t['k'][1 + nu:]):
            return True
    return any(logit_audit_reads(k, cols) for k in t['k'])


def linutil_reads(t, cols):
    """a linear utility whose variable holds the missing-data code"""
    if t['h'][0] == 'LinUtil':
        return any(k['h'][0] == 'Var' and k['h'][1] in cols for k in t['k'])
    return any(linutil_reads(k, cols) for k in t['k'])


# =========================================================================================== corpus / run / replay
def load_corpus(which):
    out = []
    for f in sorted(glob.glob('/verif/corpus/C12/*.json')):
        c = json.load(open(f))
        if c.get('stream') == which:
            c['corpus'] = f
            out.append(c)
    return out


def run(ctx):
    ctx.assumptions += ASSUME
    ctx.trusted += ['the ast extractor lib/props/c12_extract.py (tie A) and the mapping class <-> model head it declares',
                    'expression bridge lib/bridge.py + the builder in lib/impl/c12_faults.py (catalogs transparent)',
                    'engine semantics modelled (rocq/Model/EvalX.v), not verified; interval evaluator proved sound (Proofs/EvalIP.v)',
                    'pandas / numpy dtype predicates abstracted as the classes of Model/Audit.v dtype']
    try:
        table = gen_all(ctx)
        ctx.notes['recursion_table'] = {c: {m: f'{v[0]}:{v[1]}' for m, v in row.items()} for c, row in table.items()}
    except Untranslatable as e:
        ctx.tie_broken('py2v:audit recursion table', str(e))
    try:
        ctx.build()
        stream_faults(ctx)
        stream_histories(ctx)
        stream_other(ctx)
        stream_missing(ctx)
    finally:
        restore_generated(ctx)


def restore_generated(ctx):
    """after a trial against a scratch tree (VERIF_REPO test hook) put back the table of the registered repository, so that
    the shared Rocq tree never keeps a table generated from (or left over by) a modified source"""
    import common
    from pathlib import Path
    if str(common.REPO) == '/repo':
        return
    keep = ext.SRC
    try:
        ext.SRC = Path('/repo/src/biogeme')
        table, _ = ext.build_table()
        ctx.gen('AuditTable', ext.emit(table))
    except Exception:  # noqa
        pass
    finally:
        ext.SRC = keep


def replay(ctx, path):
    w = json.load(open(path))
    wit = w.get('witness') or {}
    if 'tree' in wit and 'entry' in wit:
        it = {'mode': 'formula', 'tree': wit['tree'], 'betas': wit.get('betas', {}), 'rows': wit['rows'],
              'panel': wit.get('panel', False), 'entry': wit['entry'], 'ndraws': 5}
        if 'trees' in wit:
            it['trees'] = wit['trees']
        r = ctx.impl_cases('c12_faults.py', [it])[0]
        print(json.dumps({'observed_now': r, 'recorded': w.get('observed')}, default=str)[:2000])
        twin = str(wit.get('kind', '')).startswith('valid twin')
        still = (r.get('status') != 'accepted') if twin else not (r.get('status') == 'raised' and r.get('biogeme')
                                                                    and wit.get('mention', '') in (r.get('msg') or ''))
        print('STILL FAILS' if still else 'no longer fails')
        return 1 if still else 0
    if 'tree' in wit and 'row' in wit:
        it = {'tree': wit['tree'], 'betas': {}, 'row': wit['row'], 'code': wit.get('code', MISSING_DEFAULT), 'path': wit.get('path', 'gvc')}
        r = ctx.impl_cases('c12_missing.py', [it])[0]
        print(json.dumps({'observed_now': r, 'recorded': w.get('observed')}, default=str)[:2000])
        return 2
    for mode_key, mode in (('steps', 'history'), ('frame', 'data'), ('nests', 'nests')):
        if mode_key in wit:
            it = dict(wit)
            it['mode'] = mode
            it.setdefault('entry', 'database')
            if mode == 'nests':
                it.setdefault('util_keys', it['choice_set'])
                it.setdefault('rows', [])
            r = ctx.impl_cases('c12_faults.py', [it])[0]
            print(json.dumps({'observed_now': r, 'recorded': w.get('observed')}, default=str)[:2000])
            return 2
    print('replay: this file names an obligation / stream; re-run ./check C12')
    return 2
