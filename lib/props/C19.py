"""C19 -- Sampled choice sets follow the protocol; full sampling equals the full model.

Theorems: rocq/Properties/C19.v (model rocq/Model/Sampling.v, lemmas rocq/Proofs/SamplingP.v).
Tie A: rocq/Gen/SamplingFormulas.v regenerated on every run by lib/impl/c19_gen.py (specialised,
fail-closed ast extractor): generate_segment_size, the log-probability / weight formulas, the
decrement in the chosen stratum, the flattened column names, the column-name constants.
Tie B streams (implementation runner lib/impl/c19_sample.py):
  sample    generated tables / partitions / sizes / individuals -> sample_alternatives,
            sample_mev_alternatives, ChoiceSetsGeneration.sample_and_merge with seeded numpy; the flat
            data base is converted to model terms and the PROVED checker check_sample (T19b) runs in
            Coq (vm_compute), together with check_flat / check_ind / the renamed expressions;
            the protocol is ALSO evaluated directly in Python (property oracle).
  full      fully sampled strata: GenerateModel.get_logit(), get_nested_logit(), get_cross_nested_logit():
            the three trees are compared node for node with the Gallina builders (get_logit of
            Model/Sampling.v, get_nested_logit / get_cross_nested_logit of Model/SamplingMev.v; expr_eqb
            in Coq, modulo the iteration order of the BelongsTo sets); their values through the engine
            vs models.loglogit / lognested / logcnl on the full choice set, per individual; the
            _CNL_ alpha columns and the MEV weights are checked (hypotheses alphas_hold / sample_holds of
            T19g / T19h); corpus witness of T19g_nest_repeating_an_alternative_refused (the full model must refuse the nest).
  validate  Partition(...) and SamplingContext.check_partition vs partition_accepts /
            check_partition_accepts.
  segsize   generate_segment_size vs the generated Gallina definition.
"""
import glob
import importlib.util
import json
import math
import os
from fractions import Fraction

from py2v import Untranslatable
from common import coq_string, coq_list, parse_bools, VERIF
import bridge

_spec = importlib.util.spec_from_file_location('c19_gen', str(VERIF / 'lib' / 'impl' / 'c19_gen.py'))
c19_gen = importlib.util.module_from_spec(_spec)
_spec.loader.exec_module(c19_gen)

IMPL = 'c19_sample.py'
# The source tree is common.REPO (VERIF_REPO test hook of ./check): ctx.impl sets PYTHONPATH from it and
# lib/impl/c19_gen.py reads it.
TOL_CORR = 1e-9     # |_log_proba - ln(k/n)|: the implementation's error is a few ulp of ln(n) <= 1e-15,
#                     two different ratios with denominators <= 99 differ by >= 1e-4 in logarithm
TOL_VAL = 1e-9      # relative tolerance on engine values (combined variables, log likelihoods)

ASSUME = [
    'numpy / pandas random sampling (DataFrame.sample(n, replace=False)) is an arbitrary oracle: the theorems '
    'hold for every outcome; the contract "n distinct rows of the frame" is modelled by draw (Model/Sampling.v)',
    'the ids of the table of alternatives are unique and every individual chose an alternative of the partition '
    '(documented preconditions of SamplingContext; hypotheses wf_strata / In c (full_set strata) of T19a)',
    'column names of the individuals do not collide with flattened names <attr>_<j> (hypothesis NoDup of T19c, '
    'checked per case inside Coq by nodup_sb)',
    'the double in column _log_proba / _mev_weight is decoded by the harness to the unique ratio p/q with '
    f'q <= number of alternatives within {TOL_CORR} (see TOL_CORR) before the exact checker runs',
]
TRUSTED = [
    'tie A: specialised ast extractor lib/impl/c19_gen.py (fail-closed) for generate_segment_size, logproba, mev_weight, '
    'flattened names; validated on this run by stream segsize',
    'tie B: hand-written model Model/Sampling.v of sample_alternatives / sample_mev_alternatives / process_row / '
    'define_new_variables / GenerateModel.get_logit, tied by streams sample, full, validate',
    'tie B: hand-written builders Model/SamplingMev.v of GenerateModel.get_nested_logit / get_cross_nested_logit (tree '
    'comparison in stream full); the full nested / cross-nested models are the C05/C06 builders Model/BuildersChoice.v '
    '(tied by C05/build)',
    'harness: generators, JSON -> Gallina encoders, the ratio decoder, the Python formula evaluator (floats)',
    'the biogeme engine (cythonbiogeme) is used to evaluate both sides of the full-sampling comparison',
]


# =============================================================== tie A
def gen_all(ctx):
    ctx.gen('SamplingFormulas', c19_gen.generate())


# =============================================================== numbers
def dyadic(x):
    x = float(x)
    if x == 0:
        return (0, 0)
    n, d = x.as_integer_ratio()
    e = -(d.bit_length() - 1)
    while n % 2 == 0:
        n //= 2
        e += 1
    return (n, e)


def cz(n):
    return f'({n})' if n < 0 else str(n)


def cdy(x):
    m, e = dyadic(x)
    return f'({cz(m)}, {cz(e)})'


def czl(l):
    return '[' + '; '.join(cz(int(x)) for x in l) + ']'


def decode_log_ratio(d, nmax):
    """the ratio p/q (q <= nmax, p <= q) whose logarithm is the double d, or None"""
    if d is None or isinstance(d, str):
        return None
    t = math.exp(d)
    for q in range(1, nmax + 1):
        p = round(t * q)
        if 1 <= p <= q and abs(d - math.log(p / q)) <= TOL_CORR:
            return (p, q)
    return None


def decode_weight(w, nmax):
    """(k, n) with n/k = w, k <= n <= nmax, or None"""
    if w is None or isinstance(w, str):
        return None
    for k in range(1, nmax + 1):
        n = round(w * k)
        if k <= n <= nmax and abs(w - n / k) <= TOL_CORR * max(1.0, abs(w)):
            return (k, n)
    return None


def as_int(v):
    """integer value of a data cell, None when it is not a finite integer"""
    if isinstance(v, bool) or not isinstance(v, (int, float)):
        return None
    if isinstance(v, float) and (math.isnan(v) or math.isinf(v) or v != int(v)):
        return None
    return int(v)


# =============================================================== formulas
def feval(t, env):
    op = t[0]
    if op == 'var':
        return env[t[1]]
    if op == 'num':
        return float(t[1])
    if op == 'beta':
        return float(t[2])
    if op == 'sq':
        x = feval(t[1], env)
        return x * x
    if op == 'neg':
        return -feval(t[1], env)
    if op == 'log':
        return math.log(feval(t[1], env))
    if op == 'exp':
        return math.exp(feval(t[1], env))
    a, b = feval(t[1], env), feval(t[2], env)
    if op == '+':
        return a + b
    if op == '-':
        return a - b
    if op == '*':
        return a * b
    if op == '/':
        return a / b
    raise ValueError(f'unknown op {op}')


def fcoq(t):
    op = t[0]
    if op == 'var':
        return f'(EVar {coq_string(t[1])})'
    if op == 'num':
        m, e = dyadic(t[1])
        return f'(ENum {cz(m)} {cz(e)})'
    if op == 'beta':
        return f'(EBeta {coq_string(t[1])} false)'
    if op == 'sq':
        x = fcoq(t[1])
        return f'(EBin Times {x} {x})'
    if op == 'neg':
        return f'(EUn UMinus {fcoq(t[1])})'
    if op == 'log':
        return f'(EUn Log {fcoq(t[1])})'
    if op == 'exp':
        return f'(EUn Exp {fcoq(t[1])})'
    return f'(EBin {dict(zip("+-*/", ["Plus", "Minus", "Times", "Divide"]))[op]} {fcoq(t[1])} {fcoq(t[2])})'


def fvars(t, acc=None):
    acc = acc if acc is not None else set()
    if t[0] == 'var':
        acc.add(t[1])
    elif t[0] not in ('num', 'beta'):
        for k in t[1:]:
            fvars(k, acc)
    return acc


def gen_formula(rng, ind_vars, alt_vars, depth=0):
    """a combined variable: well defined for positive data (log / division of 1 + a square)"""
    r = rng.random()
    if depth >= 3 or r < 0.3:
        pool = ind_vars + alt_vars + alt_vars
        if rng.random() < 0.15:
            return ['num', rng.choice([0.5, 2.0, 0.25, 3.0, 1.5])]
        return ['var', rng.choice(pool)]
    r = rng.random()
    a = gen_formula(rng, ind_vars, alt_vars, depth + 1)
    if r < 0.12:
        return ['log', ['+', ['num', 1.0], ['sq', a]]]
    if r < 0.2:
        return ['neg', a]
    if r < 0.3:
        return ['sq', a]
    b = gen_formula(rng, ind_vars, alt_vars, depth + 1)
    if r < 0.4:
        return ['/', a, ['+', ['num', 1.0], ['sq', b]]]
    return [rng.choice(['+', '-', '*', '+', '*']), a, b]


# =============================================================== generators
ATTRS = ['cost', 'time', 'q']
SOCIO = ['age', 'inc']


def gen_partition(rng, ids, nseg):
    ids = list(ids)
    rng.shuffle(ids)
    nseg = max(1, min(nseg, len(ids)))
    cuts = sorted(rng.sample(range(1, len(ids)), nseg - 1)) if nseg > 1 else []
    segs, prev = [], 0
    for c in cuts + [len(ids)]:
        segs.append(sorted(ids[prev:c]))
        prev = c
    return segs


def gen_sizes(rng, segs, mode):
    out = []
    for s in segs:
        n = len(s)
        if mode == 'full':
            out.append(n)
        elif mode == 'ones':
            out.append(1)
        elif mode == 'mixed':
            out.append(rng.choice([1, n, rng.randint(1, n)]))
        else:
            out.append(rng.randint(1, n))
    return out


def gen_index(rng, n):
    """row labels of the table of alternatives: None = default RangeIndex; a permutation of 0..n-1 (table
    sorted / reordered without reset_index); a rotation; labels shifted or spread (still integers)"""
    r = rng.random()
    if r < 0.3:
        return None
    if r < 0.65:
        p = list(range(n))
        rng.shuffle(p)
        return p
    if r < 0.8:
        k = rng.randint(1, max(1, n - 1))
        return [(i + k) % n for i in range(n)]
    if r < 0.9:
        return list(range(n - 1, -1, -1))
    k = rng.randint(1, 50)
    return [k + 2 * i for i in range(n)]


def gen_case(rng, kind='sample', force=None):
    force = force or {}
    n_alt = force.get('n_alt') or rng.randint(5, 30)
    ids = sorted(rng.sample(range(1, 100), n_alt))
    order = list(ids)
    rng.shuffle(order)  # the table is not sorted by id
    attrs = ATTRS[:rng.randint(1, 3)]
    alts = [[a] + [rng.randint(1, 64) / 8 for _ in attrs] for a in order]
    socio = SOCIO[:rng.randint(1, 2)]
    segs = gen_partition(rng, ids, rng.randint(1, 4))
    mode = force.get('mode') or rng.choice(['full', 'ones', 'random', 'random', 'mixed'])
    sizes = gen_sizes(rng, segs, mode)
    n_ind = rng.randint(3, 15)
    int_data = rng.random() < 0.25   # all-integer individuals: the row keeps an integer dtype
    inds = []
    for _ in range(n_ind):
        ch = rng.choice(ids)
        inds.append([ch] + [(rng.randint(1, 12) if int_data else rng.randint(1, 48) / 4) for _ in socio])
    case = {
        'kind': kind, 'id_col': 'alt_id', 'choice_col': 'choice',
        'alt_cols': ['alt_id'] + attrs, 'alts': alts, 'alt_int_cols': {'alt_id': 'int64'},
        'ind_cols': ['choice'] + socio, 'inds': inds,
        'ind_int_cols': {c: 'int64' for c in (['choice'] + socio if int_data else ['choice'])},
        'segments': segs, 'full_set': ids if rng.random() < 0.7 else None, 'sizes': sizes, 'mode': mode,
        'mev_segments': None, 'mev_sizes': None, 'mev_full_set': None,
        'seed': rng.randint(0, 2 ** 31 - 1),
    }
    case['alt_index'] = gen_index(rng, n_alt)
    if force.get('mev', rng.random() < 0.6):
        mids = ids if (rng.random() < 0.6 or kind == 'full') else sorted(rng.sample(ids, rng.randint(2, len(ids))))
        msegs = gen_partition(rng, mids, rng.randint(1, 3))
        case['mev_segments'] = msegs
        case['mev_sizes'] = gen_sizes(rng, msegs, 'full' if kind == 'full' else rng.choice(['full', 'ones', 'random', 'mixed']))
        case['mev_full_set'] = mids if rng.random() < 0.5 else None
    ncv = rng.randint(0, 2) if kind == 'sample' else rng.randint(0, 1)
    case['combined'] = []
    for i in range(ncv):
        # well-conditioned inputs (DESIGN 2.4): |value| <= 64 on every (individual, alternative) pair, so
        # that utilities stay below ~40 and no exponential overflows; the last resort is a bilinear form
        for attempt in range(40):
            f = gen_formula(rng, socio, attrs) if attempt < 39 else ['*', ['var', socio[0]], ['var', attrs[0]]]
            if not (fvars(f) & set(attrs)):   # must use at least one attribute of the alternative
                f = ['+', f, ['var', attrs[0]]]
            if attempt == 39:
                f = ['/', f, ['num', 16.0]]
            try:
                m = max(abs(feval(f, dict(zip(case['ind_cols'], r)) | dict(zip(case['alt_cols'], a))))
                        for r in inds for a in alts)
            except (ValueError, ZeroDivisionError, OverflowError):
                continue
            if m <= 64:
                break
        case['combined'].append({'name': f'cv{i + 1}', 'formula': f})
    terms = [['*', ['beta', f'b_{a}', rng.randint(-8, 8) / 8], ['var', a]] for a in attrs]
    terms += [['*', ['beta', f'b_{cv["name"]}', rng.randint(-4, 4) / 16], ['var', cv['name']]] for cv in case['combined']]
    u = terms[0]
    for t in terms[1:]:
        u = ['+', u, t]
    case['utility'] = u
    return case


def complete_full_model(case):
    """kind = full: values of the combined variables on the full choice set (harness evaluator)"""
    keys, vals = [], []
    for cv in case['combined']:
        for a in case['alts']:
            keys.append([cv['name'], int(a[0])])
    for r in case['inds']:
        env_i = dict(zip(case['ind_cols'], r))
        row = []
        for cv in case['combined']:
            for a in case['alts']:
                env = dict(env_i)
                env.update(dict(zip(case['alt_cols'], a)))
                row.append(feval(cv['formula'], env))
        vals.append(row)
    case['full_cv_keys'], case['full_cv_values'] = keys, vals
    return case


def add_full_model(rng, case):
    """kind = full: combined variables on the full choice set + generated nest structures"""
    complete_full_model(case)
    ids = sorted(int(a[0]) for a in case['alts'])
    if case['mev_segments'] is not None:
        # nests: a partition of a subset of the alternatives (the others are alone)
        pool = list(ids)
        rng.shuffle(pool)
        nn = rng.randint(1, 3)
        covered = pool[:rng.randint(max(2, len(pool) // 2), len(pool))]
        nsegs = gen_partition(rng, covered, nn)
        case['nested'] = [{'name': f'n{i}', 'mu_name': f'mu_n{i}', 'mu': rng.choice([1.0, 1.25, 1.5, 2.0, 3.0]), 'mu_num': rng.random() < 0.3,
                           'alts': s} for i, s in enumerate(nsegs)]
        # cross-nested: two or three nests, every alternative in at least one, alphas sum to one
        cn = rng.randint(2, 3)
        nests = [{'name': f'c{i}', 'mu_name': f'mu_c{i}', 'mu': rng.choice([1.0, 1.5, 2.0, 2.5]), 'mu_num': rng.random() < 0.3, 'alphas': []}
                 for i in range(cn)]
        for a in ids:
            members = rng.sample(range(cn), rng.choice([1, 1, 2]))
            w = [0.5, 0.5] if len(members) == 2 else [1.0]
            if len(members) == 2 and rng.random() < 0.5:
                w = [0.25, 0.75]
            for m, x in zip(members, w):
                nests[m]['alphas'].append([a, x])
        if all(n['alphas'] for n in nests):
            case['cnl'] = nests
    return case


def gen_mevdup_case(rng):
    """first sample complete, MEV sample PARTIAL, but all alternatives of a MEV stratum are copies of each
    other and lie in the same nests: the weighted MEV sums n/k * sum over the sample are then exactly the
    sums over the full choice set, so the nested / cross-nested log likelihood on the sample must still
    equal the full model (this is where a wrong use of the weight n/k becomes visible)."""
    case = gen_case(rng, 'full', {'mode': 'full', 'mev': True})
    pos = {int(a[0]): i for i, a in enumerate(case['alts'])}
    for seg in case['mev_segments']:
        ref = case['alts'][pos[seg[0]]][1:]
        for a in seg:
            case['alts'][pos[a]][1:] = list(ref)
    case['mev_sizes'] = [rng.randint(1, len(s)) for s in case['mev_segments']]
    case['mode'] = 'mevdup'
    complete_full_model(case)
    nseg = len(case['mev_segments'])
    nn = rng.randint(1, 2)
    assign = [rng.randint(0, nn) for _ in range(nseg)]      # nn = in no nest
    assign[0] = 0
    case['nested'] = [{'name': f'n{m}', 'mu_name': f'mu_n{m}', 'mu': rng.choice([1.25, 1.5, 2.0, 3.0]), 'mu_num': rng.random() < 0.3,
                       'alts': sorted(a for s, t in zip(case['mev_segments'], assign) if t == m for a in s)}
                      for m in range(nn) if any(t == m for t in assign)]
    nests = [{'name': f'c{i}', 'mu_name': f'mu_c{i}', 'mu': rng.choice([1.0, 1.5, 2.0, 2.5]), 'mu_num': rng.random() < 0.3, 'alphas': []} for i in range(2)]
    for si, seg in enumerate(case['mev_segments']):
        w = rng.choice([[1.0, None], [None, 1.0], [0.5, 0.5], [0.25, 0.75]]) if si > 1 else ([1.0, None], [0.25, 0.75])[si]
        for m, x in enumerate(w):
            if x is not None:
                nests[m]['alphas'] += [[a, x] for a in seg]
    if all(n['alphas'] for n in nests):
        case['cnl'] = nests
    return case


def gen_overlap_sample_case(rng):
    """strata that are NOT a partition: 3-5 segments, two of them (any positions, mostly non-adjacent) share an
    alternative, the union still equals the full set; fully sampled.  Must be refused at construction; if it is
    accepted the shared alternative is drawn from two strata and appears twice in the choice sets."""
    case = gen_case(rng, 'sample', {'mode': 'full', 'mev': False, 'n_alt': rng.randint(6, 14)})
    ids = sorted(int(a[0]) for a in case['alts'])
    segs = gen_partition(rng, ids, rng.randint(3, 5))
    i, j = overlap_pair(rng, len(segs), rng.random() < 0.7) or (0, 1)
    segs[i] = sorted(set(segs[i]) | {rng.choice(segs[j])})
    case.update(segments=segs, sizes=[len(s) for s in segs], full_set=ids if rng.random() < 0.7 else None,
                mode='overlap', expect_refusal=True, overlap_positions=[i, j])
    return case


# =============================================================== Python oracle for one merged row
def strata_of(case, which):
    segs = case['segments'] if which == 'first' else case['mev_segments']
    sizes = case['sizes'] if which == 'first' else case['mev_sizes']
    return list(zip(segs, sizes))


def check_rows_py(case, which, ids, corr_or_w, attr_rows, chosen):
    """direct statement of the protocol on one sample.  ids: list of ints (or None); corr_or_w:
    doubles; attr_rows: list of dict col -> value.  Returns list of (kind, detail)."""
    bad = []
    strata = strata_of(case, which)
    table = {int(a[0]): dict(zip(case['alt_cols'], a)) for a in case['alts']}
    if any(i is None for i in ids):
        return [('unreadable-id', ids)]
    if which == 'first':
        if not ids or ids[0] != chosen:
            bad.append(('chosen-first', {'first': ids[:1], 'chosen': chosen}))
    if len(set(ids)) != len(ids):
        bad.append(('duplicate', ids))
    for seg, k in strata:
        cnt = sum(1 for i in ids if i in seg)
        if cnt != k:
            bad.append(('count', {'stratum': seg, 'requested': k, 'found': cnt}))
    for j, i in enumerate(ids):
        st = [(seg, k) for seg, k in strata if i in seg]
        if len(st) != 1:
            bad.append(('membership', {'position': j, 'id': i}))
            continue
        seg, k = st[0]
        n = len(seg)
        v = corr_or_w[j]
        if which == 'first':
            want = math.log(k / n)
            if v is None or isinstance(v, str) or abs(v - want) > TOL_CORR:
                bad.append(('correction', {'position': j, 'id': i, 'k': k, 'n': n, 'expected': want, 'observed': v}))
        else:
            want = n / k
            if v is None or isinstance(v, str) or abs(v - want) > TOL_CORR * want:
                bad.append(('weight', {'position': j, 'id': i, 'k': k, 'n': n, 'expected': want, 'observed': v}))
        for col, val in table[i].items():
            if attr_rows[j].get(col) != val:
                bad.append(('attributes', {'position': j, 'id': i, 'column': col, 'expected': val,
                                           'observed': attr_rows[j].get(col)}))
    return bad


def flat_view(case, row, pre, J, special):
    """ids, special column (_log_proba / _mev_weight) and attribute dicts read from a flat row"""
    idc = case['id_col']
    ids, sp, attrs = [], [], []
    for j in range(J):
        v = row.get(f'{pre}{idc}_{j}')
        ids.append(as_int(v))
        sp.append(row.get(f'{pre}{special}_{j}'))
        attrs.append({c: row.get(f'{pre}{c}_{j}') for c in case['alt_cols']})
    return ids, sp, attrs


def oracle_sample_case(case, res):
    """all protocol violations of one implementation result (list of (kind, witness-detail))"""
    out = []
    if case.get('expect_refusal'):
        if not res.get('ok'):
            exc = str(res.get('exc'))
            return [] if exc.startswith(('ValueError', 'BiogemeError')) else [('exception', exc)]
        dup = None
        for n, d in enumerate(res.get('direct', [])):
            rows = d.get('first', {}).get('rows', [])
            cols = d.get('first', {}).get('columns', [])
            if case['id_col'] in cols:
                got = [as_int(r[cols.index(case['id_col'])]) for r in rows]
                if len(set(got)) != len(got):
                    dup = {'individual': n, 'sampled_ids': got}
                    break
        return [('non-partition-accepted', {'segments': case['segments'], 'overlap_positions': case.get('overlap_positions'),
                                            'expected': 'ValueError from Partition (segments intersect)',
                                            'duplicate_in_choice_set': dup})]
    if not res.get('ok'):
        return [('exception', res.get('exc'))]
    J = sum(case['sizes'])
    JM = sum(case['mev_sizes']) if case['mev_sizes'] is not None else 0
    table_cols = case['alt_cols']
    # (1) direct calls
    for n, (ind, d) in enumerate(zip(case['inds'], res['direct'])):
        if 'exc' in d:
            out.append(('exception', {'individual': n, 'exc': d['exc']}))
            continue
        for which, special in (('first', '_log_proba'), ('second', '_mev_weight')):
            if which not in d:
                continue
            fr = d[which]
            cols = fr['columns']
            miss = [c for c in table_cols + [special] if c not in cols]
            if miss:
                out.append(('columns-missing', {'individual': n, 'sample': which, 'missing': miss}))
                continue
            rows = [dict(zip(cols, r)) for r in fr['rows']]
            ids = [as_int(r[case['id_col']]) for r in rows]
            for k, det in check_rows_py(case, which, ids, [r[special] for r in rows], rows, int(ind[0])):
                out.append((k, {'individual': n, 'function': 'sample_alternatives' if which == 'first'
                                else 'sample_mev_alternatives', **({'detail': det})}))
    # (2) the merged data base
    cols = res['merged']['columns']
    want = list(case['ind_cols'])
    for j in range(J):
        want += [f'{c}_{j}' for c in table_cols + ['_log_proba']]
    for j in range(JM):
        want += [f'_MEV_{c}_{j}' for c in table_cols + ['_mev_weight']]
    for cv in case['combined']:
        want += [f'{cv["name"]}_{j}' for j in range(J)] + [f'_MEV_{cv["name"]}_{j}' for j in range(JM)]
    miss = [c for c in want if c not in cols]
    if miss:
        out.append(('columns-missing', {'function': 'sample_and_merge', 'missing': miss[:10]}))
        return out
    if len(res['merged']['rows']) != len(case['inds']):
        out.append(('rows', {'expected': len(case['inds']), 'observed': len(res['merged']['rows'])}))
        return out
    for n, (ind, r) in enumerate(zip(case['inds'], res['merged']['rows'])):
        row = dict(zip(cols, r))
        for c, v in zip(case['ind_cols'], ind):
            if row.get(c) != float(v):
                out.append(('individual-columns', {'individual': n, 'column': c, 'expected': v, 'observed': row.get(c)}))
        ids, lp, attrs = flat_view(case, row, '', J, '_log_proba')
        for k, det in check_rows_py(case, 'first', ids, lp, attrs, int(ind[0])):
            out.append((k, {'individual': n, 'function': 'sample_and_merge', 'detail': det}))
        mids = None
        if JM:
            mids, w, mattrs = flat_view(case, row, '_MEV_', JM, '_mev_weight')
            for k, det in check_rows_py(case, 'second', mids, w, mattrs, None):
                out.append((k, {'individual': n, 'function': 'sample_and_merge(MEV)', 'detail': det}))
        # combined variables from the individual's and the sampled alternative's own attributes
        table = {int(a[0]): dict(zip(case['alt_cols'], a)) for a in case['alts']}
        env_i = dict(zip(case['ind_cols'], ind))
        for cv in case['combined']:
            for pre, idl in (('', ids), ('_MEV_', mids or [])):
                for j, a in enumerate(idl):
                    if a is None or a not in table:
                        continue
                    env = dict(env_i)
                    env.update(table[a])
                    want_v = feval(cv['formula'], env)
                    got = row.get(f'{pre}{cv["name"]}_{j}')
                    if got is None or isinstance(got, str) or abs(got - want_v) > TOL_VAL * max(1.0, abs(want_v)):
                        out.append(('combined-value', {'individual': n, 'variable': f'{pre}{cv["name"]}_{j}',
                                                       'alternative': a, 'expected': want_v, 'observed': got}))
    return out


# =============================================================== Coq side of the sample stream
def coq_strata(segs, sizes):
    return coq_list([f'({czl(s)}, {cz(k)})' for s, k in zip(segs, sizes)])


def coq_row(pairs):
    return coq_list([f'({coq_string(k)}, {cdy(v)})' for k, v in pairs])


N_IND_CHECKS = 6


def coq_sample_case(case, res, modname):
    """Gallina module evaluating the proved checkers on one implementation result; returns
    (text, labels) where labels names each boolean printed, in order."""
    J = sum(case['sizes'])
    JM = sum(case['mev_sizes']) if case['mev_sizes'] is not None else 0
    nmax = len(case['alts'])
    cols = res['merged']['columns']
    keep = set(case['ind_cols'])     # _log_proba / _mev_weight are decoded separately (corrs / ws)
    for j in range(J):
        keep |= {f'{c}_{j}' for c in case['alt_cols']}
    for j in range(JM):
        keep |= {f'_MEV_{c}_{j}' for c in case['alt_cols']}
    labels = ['wf_strata', 'wf_mev_strata']
    inds = []
    for n, (ind, r) in enumerate(zip(case['inds'], res['merged']['rows'])):
        row = dict(zip(cols, r))
        pairs = [(c, row[c]) for c in cols if c in keep and isinstance(row[c], float)]
        corrs = [decode_log_ratio(row.get(f'_log_proba_{j}'), nmax) or (0, 0) for j in range(J)]
        ws = [decode_weight(row.get(f'_MEV__mev_weight_{j}'), nmax) or (0, 0) for j in range(JM)]
        indrow = list(zip(case['ind_cols'], [float(v) for v in ind]))
        inds.append(f'({coq_row(indrow)}, {coq_row(pairs)}, '
                    + coq_list([f'({k}, {m})' for k, m in corrs]) + ', '
                    + coq_list([f'({k}, {m})' for k, m in ws]) + ')')
        labels += [f'ind{n}:{x}' for x in ('check_sample', 'check_flat', 'check_ind', 'names_nodup',
                                           'check_mev_sample', 'check_flat_mev')]
    table = coq_list([coq_row(list(zip(case['alt_cols'], a))) for a in case['alts']], ';\n    ')
    forms = []
    defined = {d['name']: d for d in res['defined']}
    for cv in case['combined']:
        def cap(pre, n):
            items = []
            for j in range(n):
                d = defined.get(f'{pre}{cv["name"]}_{j}')
                items.append(bridge.json_to_coq(d['expr']) if d and 'expr' in d else '(EVar "@missing")')
            return coq_list(items, ';\n      ')
        forms.append(f'({fcoq(cv["formula"])},\n     {cap("", J)},\n     {cap("_MEV_", JM)})')
        labels += [f'{cv["name"]}:only_vars_renamed', f'{cv["name"]}:renamed_first', f'{cv["name"]}:renamed_mev']
    mev = coq_strata(case['mev_segments'], case['mev_sizes']) if JM else '[]'
    text = f'''Module {modname}.
Definition strata : list stratum := {coq_strata(case['segments'], case['sizes'])}.
Definition mev : list stratum := {mev}.
Definition table : list table_row :=
   {table}.
Definition cols : list string := {coq_list([coq_string(c) for c in res['alt_columns']])}.
Definition inds : list (table_row * table_row * list corr * list corr) :=
  {coq_list(inds, ';' + chr(10) + '   ')}.
Definition forms : list (expr * list expr * list expr) :=
  {coq_list(forms, ';' + chr(10) + '   ')}.
Definition out : list bool :=
  [wf_stratab strata; wf_stratab mev]
  ++ flat_map (check_individual {coq_string(case['id_col'])} {coq_string(case['choice_col'])} strata mev table) inds
  ++ flat_map (check_formula cols {J}%nat {JM}%nat) forms.
End {modname}.
'''
    return text, labels


COQ_HEADER_MEV = '''From BV Require Import Model.SamplingMev.
Open Scope string_scope.
Open Scope Z_scope.
'''

COQ_HEADER = '''From BV Require Import Model.Sampling.
Open Scope string_scope.
Open Scope Z_scope.
'''


# =============================================================== streams
def shard(cases, n):
    n = max(1, min(n, len(cases)))
    out = [[] for _ in range(n)]
    for i, c in enumerate(cases):
        out[i % n].append((i, c))
    return out


def run_impl(ctx, cases, nshards=16, timeout=1500):
    shards = shard(cases, nshards)
    outs = ctx.impl_parallel(IMPL, [[c for _, c in sh] for sh in shards], timeout=timeout)
    res = [None] * len(cases)
    for sh, o in zip(shards, outs):
        for (i, _), r in zip(sh, o):
            res[i] = r
    return res


def load_corpus(kind):
    out = []
    for p in sorted(glob.glob(str(VERIF / 'corpus' / 'C19' / '*.json'))):
        try:
            c = json.load(open(p))
        except Exception:  # noqa
            continue
        if c.get('kind') == kind:
            c['corpus'] = os.path.basename(p)
            if kind == 'full' and 'full_cv_keys' not in c:
                complete_full_model(c)
            out.append(c)
    return out


def case_summary(c):
    return {k: c[k] for k in ('segments', 'sizes', 'mev_segments', 'mev_sizes', 'seed', 'mode') if k in c} | {
        'n_alt': len(c['alts']), 'n_ind': len(c['inds']), 'alt_index': c.get('alt_index'), 'combined': [cv['name'] for cv in c.get('combined', [])]}


def stream_sample(ctx):
    st = ctx.stream('sample',
                    'alternative tables of 5-30 alternatives (ids not consecutive, table not sorted; row labels = RangeIndex, a permutation / '
                    'rotation / reversal of 0..J-1, or shifted integers) with 1-3 attributes, '
                    'partitions of 1-4 unequal strata, sizes k=n / k=1 / random, optional MEV partition (possibly of a subset), '
                    '3-15 individuals (float or all-integer rows), 0-2 combined variables with shared sub-expressions; '
                    'non-trivial = some stratum with 1 < k < n or a MEV sample or a combined variable; distinct by full case')
    rng = ctx.sub_rng('sample')
    cases = load_corpus('sample')
    n = ctx.n(40, 400)
    forced = [{'mode': 'full'}, {'mode': 'ones'}, {'mode': 'full', 'mev': True}, {'mode': 'ones', 'mev': True},
              {'n_alt': 5}, {'n_alt': 30, 'mev': True}]
    for i in range(n):
        cases.append(gen_case(rng, 'sample', forced[i] if i < len(forced) else None))
    for i in range(ctx.n(6, 40)):
        cases.append(gen_overlap_sample_case(rng))
    res = run_impl(ctx, cases)
    files, meta = {}, {}
    G = 3
    for g0 in range(0, len(cases), G):
        mods, labs = [], []
        for i in range(g0, min(g0 + G, len(cases))):
            c, r = cases[i], res[i]
            nontrivial = any(1 < k < len(s) for s, k in zip(c['segments'], c['sizes'])) or c['mev_segments'] is not None \
                or bool(c['combined'])
            st.record(case_summary(c), nontrivial=nontrivial)
            # ---- property oracle, directly on the implementation's output
            for kind, det in oracle_sample_case(c, r)[:3]:
                ctx.violation(f'C19/sample/{kind}', f'sampling protocol violated ({kind})',
                              {'case': c, 'detail': det}, 'the protocol of C19', det,
                              how='./check C19 --replay <this file>')
            if c.get('expect_refusal'):
                continue   # the model refuses (partition_accepts = false, see stream validate); nothing to evaluate
            if not r.get('ok') or len(r['merged']['rows']) != len(c['inds']):
                st.disagree(case_summary(c), 'model: a data base with one row per individual', r.get('exc', 'wrong shape'))
                continue
            try:
                text, labels = coq_sample_case(c, r, f'C{i}')
            except Exception as e:  # noqa  (malformed implementation output: reported, never a harness crash)
                st.disagree(case_summary(c), 'encodable output', f'{type(e).__name__}: {e}')
                continue
            mods.append(text + f'Eval vm_compute in C{i}.out.\n')
            labs.append((i, labels))
        if mods:
            files[f'sample_{g0 // G}'] = COQ_HEADER + '\n'.join(mods)
            meta[f'sample_{g0 // G}'] = labs
    outs = ctx.coq_eval_many(files, timeout=1200)
    for k, labs in meta.items():
        ok, out = outs[k]
        if not ok:
            ctx.stream_broken('sample', f'model evaluation failed in {k}: ' + out[-800:])
            continue
        bs = parse_bools(out)
        total = sum(len(l) for _, l in labs)
        if len(bs) != total:
            ctx.stream_broken('sample', f'could not parse the model output of {k} ({len(bs)} results for {total})')
            continue
        pos = 0
        for i, labels in labs:
            failed = [l for l, b in zip(labels, bs[pos:pos + len(labels)]) if not b]
            pos += len(labels)
            if failed:
                st.disagree(case_summary(cases[i]), 'proved checker accepts', {'rejected': failed[:8]},
                            note='check_sample / check_flat / renamed expressions (vm_compute) reject the output')
    st.extra['modes'] = {m: sum(1 for c in cases if c.get('mode') == m) for m in ('full', 'ones', 'random', 'mixed')}
    st.extra['with_mev'] = sum(1 for c in cases if c['mev_segments'] is not None)
    if st.disagreements:
        ctx.stream_broken('sample', f'{len(st.disagreements)} disagreements, first: {json.dumps(st.disagreements[0])[:900]}')


def mu_coq(n):
    """the nest parameter as a Python value of Model/BuildersChoice.v"""
    return f'(PN {cdy(n["mu"])})' if n.get('mu_num') else f'(PE (EBeta {coq_string(n["mu_name"])} false))'


def sort_belongs(j):
    """canonical order of the BelongsTo sets (the iteration order of a Python set is not modelled)"""
    h = j['h']
    if h[0] == 'Belongs':
        h = ['Belongs', sorted(h[1], key=lambda d: Fraction(d[0]) * Fraction(2) ** d[1])]
    return {'h': h, 'k': [sort_belongs(k) for k in j['k']]}


def rel_close(a, b):
    return (isinstance(a, float) and isinstance(b, float)
            and abs(a - b) <= TOL_VAL * max(1.0, abs(a), abs(b)))


def direct_full_loglik(case):
    """plain logit on the full choice set, by the harness evaluator (third, independent value)"""
    out = []
    for r in case['inds']:
        env_i = dict(zip(case['ind_cols'], r))
        vs = {}
        for a in case['alts']:
            env = dict(env_i)
            env.update(dict(zip(case['alt_cols'], a)))
            for cv in case['combined']:
                env[cv['name']] = feval(cv['formula'], env)
            vs[int(a[0])] = feval(case['utility'], env)
        m = max(vs.values())
        out.append(vs[int(r[0])] - (m + math.log(sum(math.exp(v - m) for v in vs.values()))))
    return out


def closed_form_sample_loglik(case, sample_ids):
    """(V_0 - ln(k_0/n_0)) - ln sum_j exp(V_j - ln(k_j/n_j)) on the sampled alternatives: the value of
    the corrected logit (sample_loglik of Model/Sampling.v), from the harness evaluator"""
    table = {int(a[0]): dict(zip(case['alt_cols'], a)) for a in case['alts']}
    out = []
    for r, sid in zip(case['inds'], sample_ids):
        env_i = dict(zip(case['ind_cols'], r))
        ws = []
        for a in sid:
            a = as_int(a)
            if a is None or a not in table:
                ws = None
                break
            env = dict(env_i)
            env.update(table[int(a)])
            for cv in case['combined']:
                env[cv['name']] = feval(cv['formula'], env)
            st = [(s, k) for s, k in zip(case['segments'], case['sizes']) if int(a) in s]
            if len(st) != 1:
                ws = None
                break
            ws.append(feval(case['utility'], env) - math.log(st[0][1] / len(st[0][0])))
        if not ws:
            out.append(None)
            continue
        m = max(ws)
        out.append(ws[0] - (m + math.log(sum(math.exp(w - m) for w in ws))))
    return out


def oracle_full_case(case, res):
    out = []
    if not res.get('ok'):
        return [('exception', res.get('exc'))]
    ids = sorted(int(a[0]) for a in case['alts'])
    closed = closed_form_sample_loglik(case, res['sample_ids'])
    lg = res['results'].get('logit', {})
    for n, (a, b) in enumerate(zip(lg.get('sample', []), closed)):
        if b is not None and not rel_close(a, b):
            out.append(('logit-on-sample', {'individual': n, 'engine_on_sample': a, 'corrected_logit_closed_form': b,
                                            'sampled': res['sample_ids'][n]}))
    if case.get('partial'):
        if 'sample_exc' in lg:
            out.append(('logit-exception', lg['sample_exc']))
        return out
    if case.get('repeated_in_nest'):
        # witness of T19g_nest_repeating_an_alternative_refused: a nest listing an alternative twice must be
        # REFUSED by the validators (BiogemeError from models.lognested).  If it is accepted the nest sum of
        # lognested counts the alternative twice, the sample builder once: the log likelihoods differ.
        nr = res['results'].get('nested', {})
        fe = str(nr.get('full_exc', ''))
        if fe.startswith('BiogemeError'):
            return out
        if 'full' in nr:
            out.append(('nested-repeated-alternative-accepted',
                        {'nests': case['nested'], 'expected': 'BiogemeError from models.lognested (nest refused)',
                         'full_model_accepted_with_values': nr['full'], 'on_sample': nr.get('sample'),
                         'values_differ': any(not rel_close(a, b) for a, b in zip(nr.get('sample') or [], nr['full']))}))
        else:
            out.append(('nested-exception', {'full_exc': fe, 'sample_exc': nr.get('sample_exc')}))
        return out
    # the columns _CNL_<nest>_<j> / _MEV__CNL_<nest>_<j> hold the alpha of the sampled alternative (0 outside the nest)
    for nest in case.get('cnl') or []:
        al = {int(k): float(v) for k, v in nest['alphas']}
        cols = (res.get('cnl_cols') or {}).get(nest['name'])
        if not isinstance(cols, dict):
            out.append(('cnl-alpha-columns', {'nest': nest['name'], 'observed': cols}))
            continue
        for which, idl in (('first', res['sample_ids']), ('mev', res.get('mev_ids'))):
            got = cols.get(which)
            if not isinstance(got, list) or not isinstance(idl, list):
                out.append(('cnl-alpha-columns', {'nest': nest['name'], 'sample': which, 'observed': str(got)[:200]}))
                continue
            for n, (row_ids, row_al) in enumerate(zip(idl, got)):
                want = [al.get(as_int(a), 0.0) for a in row_ids]
                if want != row_al:
                    out.append(('cnl-alpha-columns', {'nest': nest['name'], 'sample': which, 'individual': n,
                                                      'ids': row_ids, 'expected': want, 'observed': row_al}))
                    break
    if res.get('JM') and isinstance(res.get('mev_weight'), list) and case.get('mode') != 'mevdup':
        for n, wrow in enumerate(res['mev_weight']):
            if any(w != 1.0 for w in wrow):
                out.append(('mev-weight-not-one', {'individual': n, 'weights': wrow}))
                break
    for n, (sid, lp) in enumerate(zip(res['sample_ids'], res['log_proba'])):
        if sorted(as_int(x) for x in sid if as_int(x) is not None) != ids or len(sid) != len(ids):
            out.append(('not-a-permutation', {'individual': n, 'sampled': sid}))
        if any(v is None or isinstance(v, str) or abs(v) > TOL_CORR for v in lp):
            out.append(('nonzero-correction', {'individual': n, 'log_proba': lp}))
    direct = direct_full_loglik(case)
    for tag, r in res['results'].items():
        if 'sample_exc' in r or 'full_exc' in r:
            out.append((f'{tag}-exception', {k: r[k] for k in r if k.endswith('exc')}))
            continue
        for n, (a, b) in enumerate(zip(r['sample'], r['full'])):
            if isinstance(a, str) and a == b:
                continue   # both sides overflow to the same infinity: nothing to compare (ill-conditioned input)
            if not rel_close(a, b):
                out.append((f'{tag}-loglik', {'individual': n, 'on_sample': a, 'full_model': b}))
            if tag == 'logit' and not rel_close(b, direct[n]):
                out.append(('logit-full-vs-direct', {'individual': n, 'engine_full': b, 'harness_direct': direct[n]}))
    return out


def stream_full(ctx):
    st = ctx.stream('full',
                    'fully sampled strata (k = n everywhere, MEV partition fully sampled): log likelihood of '
                    'GenerateModel.get_logit / get_nested_logit / get_cross_nested_logit on the sample vs models.loglogit / '
                    'lognested / logcnl on the full choice set, per individual, through the engine (relative 1e-9) and vs a direct '
                    'evaluation; the get_logit tree vs the Gallina builder (expr_eqb in Coq); plus (mevdup) a PARTIAL MEV sample whose strata '
                    'hold copies of one alternative inside the same nests, where the weighted MEV sums are exact, and (partial) strata not '
                    'fully sampled where the engine value of get_logit is compared with the closed form of the corrected logit; '
                    'non-trivial = at least 2 strata '
                    'or a combined variable or a nest structure; distinct by full case')
    rng = ctx.sub_rng('full')
    cases = load_corpus('full')
    for i in range(ctx.n(20, 160)):
        c = gen_case(rng, 'full', {'mode': 'full', 'mev': (i % 3 != 0)})
        cases.append(add_full_model(rng, c))
    for i in range(ctx.n(6, 50)):
        cases.append(gen_mevdup_case(rng))
    for i in range(ctx.n(8, 60)):
        # strata NOT fully sampled: the engine value of get_logit vs the closed form of the corrected logit
        # (a concrete witness when the correction enters the utilities wrongly -- invisible at k = n)
        c = gen_case(rng, 'full', {'mode': 'random', 'mev': False})
        c['partial'] = True
        cases.append(complete_full_model(c))
    res = run_impl(ctx, cases)
    items = []
    for i, (c, r) in enumerate(zip(cases, res)):
        st.record(case_summary(c) | {'nested': bool(c.get('nested')), 'cnl': bool(c.get('cnl'))},
                  nontrivial=len(c['segments']) > 1 or bool(c['combined']) or bool(c.get('nested')))
        for kind, det in oracle_full_case(c, r)[:3]:
            ctx.violation(f'C19/full/{kind}', f'full sampling does not reproduce the full model ({kind})',
                          {'case': c, 'detail': det}, 'equal log likelihoods (relative 1e-9)', det,
                          how='./check C19 --replay <this file>')
        if not r.get('ok'):
            st.disagree(case_summary(c), 'a model', r.get('exc'))
            continue
        tree = r['results'].get('logit', {}).get('tree')
        if tree is None:
            st.disagree(case_summary(c), 'get_logit tree', 'not produced')
            continue
        attrs = coq_list([coq_string(a) for a in r['attributes']])
        V = fcoq(c['utility'])
        items.append((i, 'get_logit', f'expr_eqb (get_logit {attrs} {V} {r["J"]}%nat) {bridge.json_to_coq(tree)}'))
        us = f'(map (utility_j {attrs} "" {V}) (seq 0 {r["J"]}%nat))'
        ums = f'(map (utility_j {attrs} mev_prefix {V}) (seq 0 {r.get("JM", 0)}%nat))'
        idc = coq_string(c['id_col'])
        tn = r['results'].get('nested', {}).get('tree')
        if c.get('nested') and tn is not None:
            nests = coq_list([f'(mkNN {mu_coq(n)} {czl(sorted(n["alts"]))})' for n in c['nested']])
            items.append((i, 'get_nested_logit',
                          f'res_eqb expr_eqb (get_nested_logit mev_prefix {idc} {us} 0%nat {ums} {nests}) '
                          f'(Ok {bridge.json_to_coq(sort_belongs(tn))})'))
        tc = r['results'].get('cnl', {}).get('tree')
        if c.get('cnl') and tc is not None:
            nests = coq_list([f'({coq_string(n["name"])}, mkCN {mu_coq(n)} '
                              + coq_list([f'({cz(int(a))}, PN {cdy(x)})' for a, x in n['alphas']]) + ')' for n in c['cnl']])
            items.append((i, 'get_cross_nested_logit',
                          f'res_eqb expr_eqb (get_cross_nested_logit mev_prefix {us} 0%nat {ums} {nests}) '
                          f'(Ok {bridge.json_to_coq(tc)})'))
    B = 6
    files = {}
    for g in range(0, len(items), B):
        files[f'full_{g // B}'] = (COQ_HEADER_MEV + 'Eval vm_compute in ' + coq_list([t for _, _, t in items[g:g + B]], ';\n') + '.\n')
    outs = ctx.coq_eval_many(files, timeout=1200)
    for k in files:
        ok, out = outs[k]
        g = int(k.split('_')[1]) * B
        if not ok:
            ctx.stream_broken('full', f'model evaluation failed in {k}: ' + out[-800:])
            continue
        bs = parse_bools(out)
        if len(bs) != len(items[g:g + B]):
            ctx.stream_broken('full', f'could not parse the model output of {k}')
            continue
        for j, b in enumerate(bs):
            if not b:
                ci, what, _ = items[g + j]
                st.disagree(case_summary(cases[ci]), f'{what} (Gallina builder)', 'a different expression tree')
    st.extra['trees_compared'] = {w: sum(1 for _, x, _ in items if x == w)
                                  for w in ('get_logit', 'get_nested_logit', 'get_cross_nested_logit')}
    st.extra['nested_cases'] = sum(1 for c in cases if c.get('nested'))
    st.extra['cnl_cases'] = sum(1 for c in cases if c.get('cnl'))
    if st.disagreements:
        ctx.stream_broken('full', f'{len(st.disagreements)} disagreements, first: {json.dumps(st.disagreements[0])[:900]}')


def overlap_pair(rng, nseg, nonadjacent):
    """ordered pair (i, j), i != j, of segment positions: every position pair is reachable (first/last,
    non-adjacent, either order); nonadjacent forces |i - j| >= 2"""
    pairs = [(i, j) for i in range(nseg) for j in range(nseg) if i != j and (not nonadjacent or abs(i - j) >= 2)]
    return rng.choice(pairs) if pairs else None


def gen_validate_case(rng):
    kind = rng.choice(['valid', 'valid', 'overlap', 'overlap-nonadj', 'overlap-nonadj', 'missing', 'extra', 'empty-seg',
                       'nofull', 'emptyfull'])
    if kind == 'overlap-nonadj':
        universe = sorted(rng.sample(range(1, 40), rng.randint(5, 14)))
        nseg = rng.randint(3, 5)
    elif kind == 'overlap':
        universe = sorted(rng.sample(range(1, 40), rng.randint(3, 14)))
        nseg = rng.randint(2, 5)
    else:
        universe = sorted(rng.sample(range(1, 40), rng.randint(1, 14)))
        nseg = rng.randint(0, 5) if rng.random() < 0.1 else rng.randint(1, 5)
    segs = gen_partition(rng, universe, nseg) if nseg else []
    full = list(universe)
    pair = None
    if kind in ('overlap', 'overlap-nonadj'):
        pair = overlap_pair(rng, len(segs), kind == 'overlap-nonadj')
        if pair:   # the union is unchanged: only the disjointness test can refuse
            i, j = pair
            extra = rng.sample(segs[j], rng.randint(1, min(2, len(segs[j]))))
            segs[i] = sorted(set(segs[i]) | set(extra))
            if rng.random() < 0.3:
                full = None
    elif kind == 'missing':
        full = sorted(set(full) | {rng.randint(41, 50)})
    elif kind == 'extra' and segs:
        segs[-1] = sorted(set(segs[-1]) | {rng.randint(41, 50)})
    elif kind == 'empty-seg':
        segs.insert(rng.randint(0, len(segs)), [])
    elif kind == 'nofull':
        full = None
    elif kind == 'emptyfull':
        full = []
    sizes = []
    for s in segs:
        n = len(s)
        sizes.append(rng.choice([1, n, n, max(1, n - 1), 0, n + 1, -1]) if rng.random() < 0.5 else rng.randint(1, max(1, n)))
    table = list(universe)
    if rng.random() < 0.25 and table:
        table.remove(rng.choice(table))
    rng.shuffle(table)
    tindex = gen_index(rng, len(table))
    return {'kind': 'validate', 'table_index': tindex, 'segments': segs, 'full_set': full, 'sizes': sizes, 'table': table, 'variant': kind,
            'overlap_positions': list(pair) if pair else None}


def py_is_partition(segs, full):
    eff = set(full) if full else set().union(*[set(s) for s in segs]) if segs else set()
    if any(len(s) == 0 for s in segs):
        return False
    for i in range(len(segs)):
        for j in range(i + 1, len(segs)):
            if set(segs[i]) & set(segs[j]):
                return False
    return (set().union(*[set(s) for s in segs]) if segs else set()) == eff


def py_check_partition(c):
    return all(len(s) >= 1 and k != 0 and k <= len(s) and set(s) <= set(c['table'])
               for s, k in zip(c['segments'], c['sizes']))


def stream_validate(ctx):
    st = ctx.stream('validate',
                    'segment lists (0-5 segments over up to 14 ids): valid, overlapping at EVERY ordered pair of positions (adjacent, non-adjacent, first/last), not covering, exceeding the full set, '
                    'with an empty segment, without / with an empty full set; sizes in {1, n, n-1, 0, n+1, -1, random}; tables with a '
                    'missing id; non-trivial = every generated case; distinct by case')
    rng = ctx.sub_rng('validate')
    cases = load_corpus('validate') + [gen_validate_case(rng) for _ in range(ctx.n(300, 4000))]
    res = run_impl(ctx, cases, nshards=8)
    items = []
    for c, r in zip(cases, res):
        st.record(c, nontrivial=True)
        if not r.get('ok'):
            ctx.violation('C19/validate/exception', 'validation crashed', c, None, r.get('exc'))
            items.append('(false, false)')
            continue
        acc_p = r['partition'] == 'accepted'
        acc_c = r['check_partition'] == 'accepted'
        if r['partition'] not in ('accepted', 'ValueError') or acc_p != py_is_partition(c['segments'], c['full_set']):
            ctx.violation('C19/validate/partition', 'Partition() does not accept exactly the partitions', c,
                          'accepted' if py_is_partition(c['segments'], c['full_set']) else 'ValueError', r,
                          how='biogeme.partition.Partition([set(s) for s in segments], full_set)')
        if r['check_partition'] not in ('accepted', 'BiogemeError') or acc_c != py_check_partition(c):
            ctx.violation('C19/validate/check_partition', 'check_partition accepts / refuses a wrong configuration', c,
                          'accepted' if py_check_partition(c) else 'BiogemeError', r)
        full = czl(c['full_set'] or [])
        segs = coq_list([czl(s) for s in c['segments']])
        items.append(f'(Bool.eqb (partition_accepts {segs} {full}) {"true" if acc_p else "false"}, '
                     f'Bool.eqb (check_partition_accepts {czl(c["table"])} {coq_strata(c["segments"], c["sizes"])}) '
                     f'{"true" if acc_c else "false"})')
    B = 400
    files = {f'validate_{g // B}': COQ_HEADER + 'Eval vm_compute in ' + coq_list(items[g:g + B], ';\n') + '.\n'
             for g in range(0, len(items), B)}
    outs = ctx.coq_eval_many(files)
    for k in files:
        ok, out = outs[k]
        g = int(k.split('_')[1]) * B
        if not ok:
            ctx.stream_broken('validate', 'model evaluation failed: ' + out[-600:])
            continue
        bs = parse_bools(out)
        if len(bs) != 2 * len(items[g:g + B]):
            ctx.stream_broken('validate', 'could not parse the model output')
            continue
        for j in range(len(bs) // 2):
            if not (bs[2 * j] and bs[2 * j + 1]):
                st.disagree(cases[g + j], 'partition_accepts / check_partition_accepts', res[g + j])
    st.extra['variants'] = {v: sum(1 for c in cases if c.get('variant') == v)
                            for v in ('valid', 'overlap', 'overlap-nonadj', 'missing', 'extra', 'empty-seg', 'nofull', 'emptyfull')}
    st.extra['overlap_position_pairs'] = sorted({tuple(c['overlap_positions']) for c in cases if c.get('overlap_positions')})
    if st.disagreements:
        ctx.stream_broken('validate', f'{len(st.disagreements)} disagreements, first: {json.dumps(st.disagreements[0])[:600]}')


def stream_segsize(ctx):
    st = ctx.stream('segsize', 'generate_segment_size(s, m) for s in -3..400, m in -2..40 (random) and the grid 0..12 x 0..6; '
                               'non-trivial = s >= 0 and m >= 1; distinct by (s, m)')
    rng = ctx.sub_rng('segsize')
    pairs = [(s, m) for s in range(0, 13) for m in range(0, 7)] + [(-1, 3), (5, -1), (0, 1)]
    pairs += [(rng.randint(-3, 400), rng.randint(-2, 40)) for _ in range(ctx.n(200, 2000))]
    cases = [{'kind': 'segsize', 's': s, 'm': m} for s, m in pairs]
    res = run_impl(ctx, cases, nshards=4)
    items = []
    for c, r in zip(cases, res):
        st.record(c, nontrivial=c['s'] >= 0 and c['m'] >= 1)
        s, m = c['s'], c['m']
        v = r.get('value')
        if not r.get('ok'):
            ctx.violation('C19/segsize/exception', 'generate_segment_size crashed', c, None, r.get('exc'))
        elif s >= 0 and m >= 1:
            good = (v is not None and len(v) == m and sum(v) == s and max(v) - min(v) <= 1
                    and all(v[i] >= v[i + 1] for i in range(m - 1)))
            if not good:
                ctx.violation('C19/segsize/value', 'segment sizes do not cover the sample evenly', c,
                              'm sizes differing by at most one, summing to s', v)
        elif v is not None:
            ctx.violation('C19/segsize/accepted-invalid', 'invalid arguments accepted', c, 'ValueError', v)
        obs = 'None' if v is None else f'(Some {czl(v)})'
        items.append(f'match generate_segment_size {cz(s)} {cz(m)}, {obs} with '
                     '| Some a, Some b => list_eqb Z.eqb a b | None, None => true | _, _ => false end')
    text = ('From BV Require Import Model.Sampling Gen.SamplingFormulas.\nOpen Scope Z_scope.\n'
            'Eval vm_compute in ' + coq_list(items, ';\n') + '.\n')
    ok, out = ctx.coq_eval('segsize', text)
    bs = parse_bools(out) if ok else []
    if not ok or len(bs) != len(items):
        ctx.stream_broken('segsize', 'model evaluation failed: ' + out[-600:])
        return
    for c, r, b in zip(cases, res, bs):
        if not b:
            st.disagree(c, 'generated definition differs', r)
    if st.disagreements:
        ctx.stream_broken('segsize', f'{len(st.disagreements)} disagreements, first: {st.disagreements[0]}')


# =============================================================== entry points
def run(ctx):
    ctx.assumptions += ASSUME
    ctx.trusted += TRUSTED
    try:
        gen_all(ctx)
    except Untranslatable as e:
        ctx.tie_broken('ast-extractor:SamplingFormulas', str(e))
    import time
    t0 = time.time()
    ctx.build()
    times = {'build': round(time.time() - t0, 1)}
    for name, fn in (('segsize', stream_segsize), ('validate', stream_validate), ('sample', stream_sample),
                     ('full', stream_full)):
        t0 = time.time()
        fn(ctx)
        times[name] = round(time.time() - t0, 1)
    ctx.notes['wall_by_stage_s'] = times
    ctx.notes['side_effects'] = ('sample_and_merge writes the merged data to the fixed file name given in the context '
                                 '(biogeme_file_name) in cwd, overwriting silently; runs are made in scratch directories '
                                 '(overwrite behaviour is the concern of C14)')


def replay(ctx, path):
    w = json.load(open(path))
    wit = w.get('witness')
    case = wit.get('case') if isinstance(wit, dict) and 'case' in wit else wit
    if not isinstance(case, dict) or 'kind' not in case:
        print('replay: this file names an obligation/stream; re-run ./check C19')
        return 2
    kind = case['kind']
    if kind == 'full' and 'full_cv_keys' not in case:
        complete_full_model(case)
    try:
        r = run_impl(ctx, [case], nshards=1)[0]
    finally:
        import shutil
        shutil.rmtree(ctx.scratch, ignore_errors=True)
    if kind == 'sample':
        bad = oracle_sample_case(case, r)
    elif kind == 'full':
        bad = oracle_full_case(case, r)
    elif kind == 'validate':
        bad = []
        if r.get('ok'):
            if (r['partition'] == 'accepted') != py_is_partition(case['segments'], case['full_set']):
                bad.append(('partition', r))
            if (r['check_partition'] == 'accepted') != py_check_partition(case):
                bad.append(('check_partition', r))
        else:
            bad.append(('exception', r))
    else:
        v = r.get('value')
        s, m = case['s'], case['m']
        ok = (v is None) if (s < 0 or m < 1) else (v is not None and len(v) == m and sum(v) == s and max(v) - min(v) <= 1)
        bad = [] if ok else [('value', v)]
    print(json.dumps({'kind': kind, 'still_fails': bool(bad), 'violations': [[k, d] for k, d in bad[:3]]}, default=str)[:3000])
    return 1 if bad else 0
