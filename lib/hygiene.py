"""Hygiene gate over the Rocq development: no declared axioms (Axiom/Parameter/Conjecture, Variable/Hypothesis/Context
outside a Section, Admitted, admit, Admit Obligations), no switched-off checks.  Returns a list of offending lines."""
import re
from pathlib import Path

FORBIDDEN = re.compile(r'\bAdmitted\b|\badmit\b|^\s*(Local\s+|Global\s+)?(Axiom|Axioms|Parameter|Parameters|Conjecture|Conjectures)\b|'
                       r'Unset\s+Guard|bypass_check|Admit\s+Obligations|type-in-type|impredicative-set|Unset\s+Positivity|Unset\s+Universe\s+Checking')
ASSUME = re.compile(r'^\s*(Local\s+|Global\s+|#\[[^\]]*\]\s*)*(Variable|Variables|Hypothesis|Hypotheses|Context)\b')
OPEN = re.compile(r'^\s*Section\s+[\w\']+\s*\.')
CLOSE_OR_OPEN_MODULE = re.compile(r'^\s*(Module|End)\b')


def strip_comments(text):
    out, depth, i = [], 0, 0
    while i < len(text):
        if text.startswith('(*', i):
            depth += 1
            i += 2
        elif text.startswith('*)', i) and depth:
            depth -= 1
            i += 2
        else:
            if depth == 0:
                out.append(text[i])
            elif text[i] == '\n':
                out.append('\n')
            i += 1
    return ''.join(out)


def scan(root='/verif/rocq'):
    bad = []
    for f in sorted(Path(root).rglob('*.v')):
        text = strip_comments(f.read_text())
        # string literals may contain anything: drop them
        text = re.sub(r'"(?:[^"]|"")*"', '""', text)
        stack = []
        for n, line in enumerate(text.splitlines(), 1):
            m = re.match(r'^\s*Section\s+([\w\']+)\s*\.', line)
            if m:
                stack.append(('S', m.group(1)))
                continue
            m = re.match(r'^\s*Module\s+(Type\s+)?([\w\']+)[^:=]*\.\s*$', line)
            if m and ':=' not in line:
                stack.append(('M', m.group(2)))
                continue
            m = re.match(r'^\s*End\s+([\w\']+)\s*\.', line)
            if m and stack and stack[-1][1] == m.group(1):
                stack.pop()
                continue
            if FORBIDDEN.search(line):
                bad.append(f'{f}:{n}: {line.strip()[:100]}')
            if ASSUME.match(line) and not any(k == 'S' for k, _ in stack):
                bad.append(f'{f}:{n}: assumption outside a Section: {line.strip()[:100]}')
    return bad


if __name__ == '__main__':
    b = scan()
    print('\n'.join(b) if b else 'hygiene: clean')
