"""Writes /verif/MANIFEST.json from the per-property registry below (kept valid at all times)."""
import json, sys
sys.path.insert(0, '/verif/lib')
from registry import CLAIMED, NOT_APPLICABLE

checks = []
for pid, c in sorted(CLAIMED.items()):
    checks.append({
        'property_id': pid,
        'quick_cmd': f'./check {pid} --tier quick',
        'thorough_cmd': f'./check {pid} --tier thorough',
        'evidence_file': f'/verif/evidence/{pid}.json',
        'replay_cmd_template': f'./check {pid} --replay {{path}}',
        'engine': 'rocq',
        'level_claimed': {'category': 'proof', 'text': c['text'], 'design_ref': c.get('design_ref', f'DESIGN.md section 3/{pid}')},
        'level_note': c['note'],
        'technique': c['technique'],
    })
m = {
    'version': 1,
    'setup_cmd': './setup.sh',
    'hooks': {
        'guard': 'BIOGEME_VERIF',
        'enable': 'no source hooks: the checks set BIOGEME_VERIF=1 in the environment of every implementation subprocess, but /repo contains no guarded code; instrumentation is harness-side (monkey-patching in /verif/lib/impl)',
        'baseline_off_cmd': 'cd /repo && /venv/bin/python -m pytest -ra -q -p no:cacheprovider --timeout=900 --continue-on-collection-errors',
        'source_commits': [],
        'add_only': True,
    },
    'engines': [
        {'name': 'rocq', 'path': '/verif/rocq', 'serves_properties': sorted(CLAIMED), 'kind_free_text': 'Coq 8.16.1 development (Model/, Gen/ regenerated from /repo, Proofs/, Properties/); full .vo build with make; Print Assumptions under every property theorem'},
        {'name': 'py2v', 'path': '/verif/lib/py2v', 'serves_properties': sorted(p for p, c in CLAIMED.items() if 'tie A' in c['technique']), 'kind_free_text': 'fail-closed Python-ast to Gallina translator (tie A): the model is regenerated from the source on every run'},
        {'name': 'corr', 'path': '/verif/lib', 'serves_properties': sorted(CLAIMED), 'kind_free_text': 'correspondence harness (tie B): seeded structured generators, implementation run in /venv/bin/python subprocesses, the same cases evaluated on the model by vm_compute in generated cases files, canonicalised diff, failing-input search, known findings'},
    ],
    'checks': checks,
    'not_applicable': [{'property_id': p, 'reason': r} for p, r in sorted(NOT_APPLICABLE.items())],
    'notes': 'See /verif/DESIGN.md. ./check <id> regenerates Gen/*.v from /repo, rebuilds the Rocq development incrementally, runs the correspondence streams and writes /verif/evidence/<id>.json.',
}
json.dump(m, open('/verif/MANIFEST.json', 'w'), indent=1)
print('MANIFEST.json written:', len(checks), 'checks,', len(m['not_applicable']), 'not applicable')
