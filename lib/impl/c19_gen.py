"""C19 tie A: a specialised, fail-closed extractor (python `ast`) for the small pure pieces of
src/biogeme/sampling_of_alternatives: `generate_segment_size` (whole function), the
log-probability / MEV-weight formulas and the decrement in the chosen stratum
(`sample_alternatives`, `sample_mev_alternatives`), the flattened column names (`process_row`) and
the column-name constants.  Every shape that is not exactly the expected one raises Untranslatable
(= broken tie).  Output: rocq/Gen/SamplingFormulas.v."""
import ast
from pathlib import Path

from py2v import Untranslatable

from common import REPO  # honours VERIF_REPO (test hook of ./check)

REPO_SRC = REPO / 'src' / 'biogeme' / 'sampling_of_alternatives'


def _parse(name):
    p = REPO_SRC / name
    try:
        return ast.parse(p.read_text()), str(p)
    except (OSError, SyntaxError) as e:
        raise Untranslatable(f'cannot read/parse {p}: {e}')


def _find(tree, qual, fn):
    body = tree.body
    node = None
    for part in qual.split('.'):
        node = next((n for n in body if isinstance(n, (ast.FunctionDef, ast.ClassDef)) and n.name == part), None)
        if node is None:
            raise Untranslatable(f'{fn}: {qual} not found')
        body = node.body
    if not isinstance(node, ast.FunctionDef):
        raise Untranslatable(f'{fn}: {qual} is not a function')
    return node


def _fail(node, msg):
    raise Untranslatable(f'line {getattr(node, "lineno", "?")}: {msg}: {ast.unparse(node)[:100]!r}')


def _is_doc(s):
    return isinstance(s, ast.Expr) and isinstance(s.value, ast.Constant) and isinstance(s.value.value, str)


# ---------------------------------------------------------------- integer code (generate_segment_size)
ZOPS = {ast.Add: '+', ast.Sub: '-', ast.Mult: '*', ast.FloorDiv: '/', ast.Mod: 'mod'}
ZCMP = {ast.Lt: '<?', ast.LtE: '<=?', ast.Eq: '=?'}


def zexpr(e, env):
    """integer-valued expression -> (Gallina code, type) with type in {'Z', 'list Z'}"""
    if isinstance(e, ast.Constant) and type(e.value) is int:
        return f'({e.value})%Z', 'Z'
    if isinstance(e, ast.Name):
        if e.id not in env:
            _fail(e, 'unknown name')
        return e.id, env[e.id]
    if isinstance(e, ast.BinOp):
        if isinstance(e.op, ast.Mult) and isinstance(e.left, ast.List) and len(e.left.elts) == 1:
            x, tx = zexpr(e.left.elts[0], env)
            n, tn = zexpr(e.right, env)
            if tx != 'Z' or tn != 'Z':
                _fail(e, 'list repetition of non-integers')
            return f'(py_list_repeat {x} {n})', 'list Z'
        if type(e.op) in ZOPS:
            a, ta = zexpr(e.left, env)
            b, tb = zexpr(e.right, env)
            if ta != 'Z' or tb != 'Z':
                _fail(e, 'arithmetic on non-integers')
            return f'({a} {ZOPS[type(e.op)]} {b})%Z', 'Z'
    _fail(e, 'unsupported integer expression')


def zcond(e, env):
    if isinstance(e, ast.Compare) and len(e.ops) == 1 and type(e.ops[0]) in ZCMP:
        a, ta = zexpr(e.left, env)
        b, tb = zexpr(e.comparators[0], env)
        if ta != 'Z' or tb != 'Z':
            _fail(e, 'comparison of non-integers')
        return f'({a} {ZCMP[type(e.ops[0])]} {b})%Z'
    _fail(e, 'unsupported condition')


def gen_segment_size(tree, fn):
    f = _find(tree, 'generate_segment_size', fn)
    args = [a.arg for a in f.args.args]
    if args != ['sample_size', 'number_of_segments'] or f.args.vararg or f.args.kwarg or f.args.kwonlyargs:
        raise Untranslatable(f'generate_segment_size: signature changed: {args}')
    env = {a: 'Z' for a in args}
    lines = []
    body = [s for s in f.body if not _is_doc(s)]
    returned = False
    for s in body:
        if returned:
            _fail(s, 'statement after return')
        if isinstance(s, ast.If):
            if s.orelse or len(s.body) != 1 or not isinstance(s.body[0], ast.Raise):
                _fail(s, 'only guards of the form `if c: raise ...` are understood')
            lines.append(f'if {zcond(s.test, env)} then None else')
        elif isinstance(s, ast.Assign):
            if len(s.targets) != 1 or not isinstance(s.targets[0], ast.Name):
                _fail(s, 'unsupported assignment target')
            code, t = zexpr(s.value, env)
            nm = s.targets[0].id
            env[nm] = t
            lines.append(f'let {nm} := {code} in')
        elif isinstance(s, ast.For):
            # for i in range(e): xs[i] += c
            ok = (isinstance(s.target, ast.Name) and not s.orelse and isinstance(s.iter, ast.Call)
                  and isinstance(s.iter.func, ast.Name) and s.iter.func.id == 'range' and len(s.iter.args) == 1
                  and not s.iter.keywords and len(s.body) == 1 and isinstance(s.body[0], ast.AugAssign)
                  and isinstance(s.body[0].op, ast.Add) and isinstance(s.body[0].target, ast.Subscript)
                  and isinstance(s.body[0].target.value, ast.Name)
                  and isinstance(s.body[0].target.slice, ast.Name)
                  and s.body[0].target.slice.id == s.target.id)
            if not ok:
                _fail(s, 'only `for i in range(e): xs[i] += c` is understood')
            xs = s.body[0].target.value.id
            if env.get(xs) != 'list Z':
                _fail(s, 'subscripted name is not a list of integers')
            n, tn = zexpr(s.iter.args[0], env)
            env2 = dict(env)
            env2[s.target.id] = 'Z'
            c, tc = zexpr(s.body[0].value, env2)
            if tn != 'Z' or tc != 'Z':
                _fail(s, 'non-integer range / increment')
            i = s.target.id
            lines.append(f'let {xs} := fold_left (fun {xs} {i} => py_list_add_at {xs} {i} {c}) (py_range {n}) {xs} in')
        elif isinstance(s, ast.Return):
            code, t = zexpr(s.value, env)
            if t != 'list Z':
                _fail(s, 'return value is not a list of integers')
            lines.append(f'Some {code}.')
            returned = True
        else:
            _fail(s, 'unsupported statement')
    if not returned:
        raise Untranslatable('generate_segment_size: no return')
    return (f'(* from {fn}:{f.lineno} generate_segment_size; None = an exception is raised *)\n'
            'Definition generate_segment_size (sample_size number_of_segments : Z) : option (list Z) :=\n  '
            + '\n  '.join(lines) + '\n')


# ---------------------------------------------------------------- real formulas
def rexpr(e, names):
    if isinstance(e, ast.Name) and e.id in names:
        return e.id
    if isinstance(e, ast.BinOp) and type(e.op) in (ast.Add, ast.Sub, ast.Mult, ast.Div):
        op = {ast.Add: '+', ast.Sub: '-', ast.Mult: '*', ast.Div: '/'}[type(e.op)]
        return f'({rexpr(e.left, names)} {op} {rexpr(e.right, names)})'
    if (isinstance(e, ast.Call) and isinstance(e.func, ast.Attribute) and isinstance(e.func.value, ast.Name)
            and e.func.value.id == 'np' and e.func.attr == 'log' and len(e.args) == 1 and not e.keywords):
        return f'(ln {rexpr(e.args[0], names)})'
    _fail(e, 'unsupported real expression')


def _assign_to(s, name):
    return (isinstance(s, ast.Assign) and len(s.targets) == 1 and isinstance(s.targets[0], ast.Name)
            and s.targets[0].id == name)


def _col_assign(s, frame, col, value):
    """frame[COL] = value"""
    return (isinstance(s, ast.Assign) and len(s.targets) == 1 and isinstance(s.targets[0], ast.Subscript)
            and ast.unparse(s.targets[0]) == f'{frame}[{col}]' and ast.unparse(s.value) == value)


def _stratum_loop(f, over, what):
    loops = [s for s in f.body if isinstance(s, ast.For) and ast.unparse(s.iter) == over]
    if len(loops) != 1 or not isinstance(loops[0].target, ast.Name) or loops[0].target.id != 'stratum':
        raise Untranslatable(f'{what}: expected exactly one `for stratum in {over}`')
    return loops[0]


def _bindings_before(body, stop_index, what):
    """the loop must bind stratum_size / sample_size to the stratum's n and k before the formula,
    with no other assignment to them in between"""
    seen = {}
    for s in body[:stop_index]:
        for nm in ('stratum_size', 'sample_size'):
            if _assign_to(s, nm):
                if nm in seen:
                    _fail(s, f'{what}: {nm} assigned twice before the formula')
                seen[nm] = ast.unparse(s.value)
            elif isinstance(s, ast.AugAssign) and ast.unparse(s.target) == nm:
                _fail(s, f'{what}: {nm} modified before the formula')
            elif isinstance(s, (ast.If, ast.For, ast.While, ast.With, ast.Try)):
                for sub in ast.walk(s):
                    if isinstance(sub, (ast.Assign, ast.AugAssign)) and nm in ast.unparse(sub).split('=')[0]:
                        _fail(s, f'{what}: {nm} modified in a block before the formula')
    if seen.get('stratum_size') != 'len(stratum.subset)' or seen.get('sample_size') != 'stratum.sample_size':
        raise Untranslatable(f'{what}: stratum_size / sample_size are not bound to len(stratum.subset) / '
                             f'stratum.sample_size before the formula: {seen}')


def gen_formulas(tree, fn):
    out = []
    # ---- first sample
    f = _find(tree, 'SamplingOfAlternatives.sample_alternatives', fn)
    loop = _stratum_loop(f, 'self.partition', 'sample_alternatives')
    body = loop.body
    idx = [i for i, s in enumerate(body) if _assign_to(s, 'logproba')]
    if len(idx) != 1:
        raise Untranslatable('sample_alternatives: expected exactly one assignment to logproba in the loop')
    _bindings_before(body, idx[0], 'sample_alternatives')
    code = rexpr(body[idx[0]].value, {'sample_size', 'stratum_size'})
    out.append(f'(* from {fn}:{body[idx[0]].lineno} *)\n'
               f'Definition logproba_formula (sample_size stratum_size : R) : R := {code}%R.\n')
    rest = body[idx[0] + 1:]
    ifs = [s for s in rest if isinstance(s, ast.If) and ast.unparse(s.test) == 'chosen in stratum.subset']
    if len(ifs) != 1 or ifs[0].orelse:
        raise Untranslatable('sample_alternatives: expected one `if chosen in stratum.subset:` after logproba')
    blk = ifs[0].body
    dec = [s for s in blk if isinstance(s, ast.AugAssign) and ast.unparse(s.target) == 'sample_size']
    if len(dec) != 1 or not isinstance(dec[0].op, (ast.Sub, ast.Add)):
        raise Untranslatable('sample_alternatives: expected one `sample_size -= c` in the chosen stratum')
    c, tc = zexpr(dec[0].value, {})
    op = '-' if isinstance(dec[0].op, ast.Sub) else '+'
    out.append(f'(* from {fn}:{dec[0].lineno} *)\n'
               f'Definition sample_size_in_chosen_stratum (sample_size : Z) : Z := (sample_size {op} {c})%Z.\n')
    if not any(ast.unparse(s) == 'the_subset_of_alternatives.discard(chosen)' for s in blk):
        raise Untranslatable('sample_alternatives: the chosen alternative is not discarded from the stratum')
    if not any(_col_assign(s, 'chosen_alternative', 'LOG_PROBA_COL', 'logproba') for s in blk):
        raise Untranslatable('sample_alternatives: chosen_alternative[LOG_PROBA_COL] = logproba not found')
    after = rest[rest.index(ifs[0]) + 1:]
    if not any(_col_assign(s, 'sample', 'LOG_PROBA_COL', 'logproba') for s in after):
        raise Untranslatable('sample_alternatives: sample[LOG_PROBA_COL] = logproba not found')
    smp = [s for s in after if _assign_to(s, 'sample')]
    if len(smp) != 1 or 'n=sample_size' not in ast.unparse(smp[0].value) or 'replace=False' not in ast.unparse(smp[0].value):
        raise Untranslatable('sample_alternatives: expected sample = subset.sample(n=sample_size, replace=False, ...)')
    # ---- second sample
    f2 = _find(tree, 'SamplingOfAlternatives.sample_mev_alternatives', fn)
    loop2 = _stratum_loop(f2, 'self.second_partition', 'sample_mev_alternatives')
    body2 = loop2.body
    idx2 = [i for i, s in enumerate(body2) if _assign_to(s, 'mev_weight')]
    if len(idx2) != 1:
        raise Untranslatable('sample_mev_alternatives: expected exactly one assignment to mev_weight')
    _bindings_before(body2, idx2[0], 'sample_mev_alternatives')
    code2 = rexpr(body2[idx2[0]].value, {'sample_size', 'stratum_size'})
    out.append(f'(* from {fn}:{body2[idx2[0]].lineno} *)\n'
               f'Definition mev_weight_formula (sample_size stratum_size : R) : R := {code2}%R.\n')
    if not any(_col_assign(s, 'sample', 'MEV_WEIGHT', 'mev_weight') for s in body2[idx2[0] + 1:]):
        raise Untranslatable('sample_mev_alternatives: sample[MEV_WEIGHT] = mev_weight not found')
    return ''.join(out)


# ---------------------------------------------------------------- names
def gen_constants(tree, fn):
    want = ['MEV_PREFIX', 'LOG_PROBA_COL', 'MEV_WEIGHT', 'CNL_PREFIX']
    got = {}
    for s in tree.body:
        if isinstance(s, ast.Assign) and len(s.targets) == 1 and isinstance(s.targets[0], ast.Name) \
                and s.targets[0].id in want:
            if not (isinstance(s.value, ast.Constant) and isinstance(s.value.value, str)):
                _fail(s, 'constant is not a string literal')
            got[s.targets[0].id] = s.value.value
    miss = [w for w in want if w not in got]
    if miss:
        raise Untranslatable(f'{fn}: constants not found: {miss}')
    from common import coq_string
    return ''.join(f'Definition {k} : string := {coq_string(got[k])}.\n' for k in want)


def fstring(e, names):
    if not isinstance(e, ast.JoinedStr):
        _fail(e, 'not an f-string')
    parts = []
    from common import coq_string
    for v in e.values:
        if isinstance(v, ast.Constant) and isinstance(v.value, str):
            parts.append(coq_string(v.value))
        elif isinstance(v, ast.FormattedValue) and v.conversion == -1 and v.format_spec is None \
                and isinstance(v.value, ast.Name) and v.value.id in names:
            parts.append(v.value.id)
        else:
            _fail(e, 'unsupported f-string component')
    return '(' + ' ++ '.join(parts) + ')%string'


def gen_flat_names(tree, fn):
    f = _find(tree, 'ChoiceSetsGeneration.process_row', fn)
    comps = {}
    for s in ast.walk(f):
        if isinstance(s, ast.Assign) and len(s.targets) == 1 and isinstance(s.targets[0], ast.Name) \
                and s.targets[0].id in ('flattened_first_dict', 'flattened_second_dict'):
            comps[s.targets[0].id] = s.value
    out = []
    for nm, coqn in (('flattened_first_dict', 'flat_name'), ('flattened_second_dict', 'mev_flat_name')):
        c = comps.get(nm)
        if not (isinstance(c, ast.DictComp) and len(c.generators) == 1 and not c.generators[0].ifs
                and ast.unparse(c.generators[0].target) == '((row, col_name), value)'
                and ast.unparse(c.value) == 'value'):
            raise Untranslatable(f'process_row: {nm} is not the expected dict comprehension')
        out.append(f'(* from {fn}:{c.lineno} *)\n'
                   f'Definition {coqn} (col_name row : string) : string := '
                   f'{fstring(c.key, {"col_name", "row", "MEV_PREFIX"})}.\n')
    return ''.join(out)


def generate():
    t1, f1 = _parse('sampling_of_alternatives.py')
    t2, f2 = _parse('sampling_context.py')
    t3, f3 = _parse('choice_set_generation.py')
    rel = lambda f: f.replace(str(REPO) + '/', '')
    return ('From Coq Require Import ZArith List String Reals.\n'
            'From BV Require Import Model.Sampling.\n'
            'Import ListNotations.\n\n'
            + gen_constants(t2, rel(f2)) + '\n'
            + gen_segment_size(t1, rel(f1)) + '\n'
            + gen_formulas(t1, rel(f1)) + '\n'
            + gen_flat_names(t3, rel(f3)))
