"""Implementation side of stream C08/stats.

Input (stdin, JSON): {"cases": [case...], "only": optional list of section names}
A case describes a synthetic raw estimation outcome; every number is a float given as
`float.hex()` text (exact):
  names, betas, bounds [[lb|null, ub|null]...], L, L0|null, Lnull|null, N, nobs,
  H [[..]]|null, B [[..]]|null, boot [[..]]|null, monte_carlo, lr_with: optional second case
The runner builds RawResults from a SimpleNamespace standing for the BIOGEME object (RawResults.__init__
only reads attributes), runs bioResults on it and reports EVERY number as data (floats again
as hex text).  Exceptions are caught per section and reported as data.
Prints one line '@@<json>'.
"""
import datetime
import json
import sys
import types
import warnings

warnings.filterwarnings('ignore')
import numpy as np  # noqa: E402


def fx(h):
    return None if h is None else float.fromhex(h)


def hx(x):
    """any scalar -> exact text"""
    if x is None:
        return None
    if isinstance(x, (bool, np.bool_)):
        return bool(x)
    if isinstance(x, (int, np.integer)):
        return {'int': int(x)}
    if isinstance(x, str):
        return {'str': x}
    try:
        f = float(x)
    except Exception:
        return {'repr': repr(x)[:80]}
    if f != f:
        return 'nan'
    if f in (float('inf'), float('-inf')):
        return 'inf' if f > 0 else '-inf'
    return f.hex()


def mat(m):
    if m is None:
        return None
    a = np.asarray(m)
    if a.ndim != 2:
        return {'bad_shape': list(a.shape), 'flat': [hx(v) for v in a.ravel()[:40]]}
    return [[hx(v) for v in row] for row in a]


def exc(e):
    return {'exc': type(e).__name__, 'msg': str(e)[:300]}


def build_raw(c):
    from biogeme.results import RawResults
    from biogeme.function_output import BiogemeFunctionOutput

    names = list(c['names'])
    betas = [fx(b) for b in c['betas']]
    bounds = {n: (fx(lb), fx(ub)) for n, (lb, ub) in zip(names, c['bounds'])}
    N, nobs = c['N'], c['nobs']
    db = types.SimpleNamespace(
        name='synthetic', get_sample_size=lambda: N, get_number_of_observations=lambda: nobs,
        typesOfDraws={'xi': ('NORMAL', 'synthetic')} if c.get('monte_carlo') else {}, excludedData=c.get('excluded', 0),
    )
    model = types.SimpleNamespace(
        modelName=c.get('model_name', 'synthetic_model'), user_notes='',
        id_manager=types.SimpleNamespace(free_betas=types.SimpleNamespace(names=names)),
        initLogLike=fx(c['L0']), nullLogLike=fx(c['Lnull']),
        get_bounds_on_beta=lambda n: bounds[n], database=db,
        monte_carlo=bool(c.get('monte_carlo')), number_of_draws=c.get('draws', 0),
        drawsProcessingTime=datetime.timedelta(seconds=1), optimizationMessages={'synthetic': 'yes'},
        convergence=True, number_of_threads=1, bootstrap_time=datetime.timedelta(seconds=2),
    )
    H = None if c['H'] is None else np.array([[fx(v) for v in r] for r in c['H']], dtype=float)
    B = None if c['B'] is None else np.array([[fx(v) for v in r] for r in c['B']], dtype=float)
    boot = None if c.get('boot') is None else np.array([[fx(v) for v in r] for r in c['boot']], dtype=float)
    fgh = BiogemeFunctionOutput(function=fx(c['L']), gradient=np.array([fx(g) for g in c['g']], dtype=float),
                                hessian=H, bhhh=B)
    return RawResults(model, betas, fgh, bootstrap=boot)


def frame(df):
    """DataFrame -> {'columns': [...], 'index': [...], 'cells': {row: {col: value}}}"""
    out = {'columns': [str(c) for c in df.columns], 'index': [str(i) for i in df.index], 'cells': {}}
    for i in df.index:
        out['cells'][str(i)] = {str(col): hx(df.loc[i, col]) for col in df.columns}
    return out


BETA_ATTRS = ['value', 'lb', 'ub', 'stdErr', 'tTest', 'pValue', 'robust_stdErr', 'robust_tTest', 'robust_pValue',
              'bootstrap_stdErr', 'bootstrap_tTest', 'bootstrap_pValue']
SCALARS = ['nparam', 'logLike', 'initLogLike', 'nullLogLike', 'sampleSize', 'numberOfObservations',
           'likelihoodRatioTestNull', 'likelihoodRatioTest', 'rhoSquare', 'rhoSquareNull', 'rhoBarSquare',
           'rhoBarSquareNull', 'akaike', 'bayesian', 'gradientNorm', 'smallestEigenValue', 'largestEigenValue',
           'smallestSingularValue', 'largestSingularValue', 'conditionNumber']
MATRICES = ['varCovar', 'correlation', 'robust_varCovar', 'robust_correlation', 'bootstrap_varCovar',
            'bootstrap_correlation']


def apply_raw(raw, c):
    """replace, IN PLACE, the raw inputs of an already existing (possibly already processed) RawResults object
    by those of case c (same parameters, same names)"""
    import datetime

    vals = [fx(b) for b in c['betas']]
    raw.betaValues = list(vals)
    for b, v, (lb, ub) in zip(raw.betas, vals, c['bounds']):
        b.value, b.lb, b.ub = v, fx(lb), fx(ub)
    raw.logLike, raw.initLogLike, raw.nullLogLike = fx(c['L']), fx(c['L0']), fx(c['Lnull'])
    raw.sampleSize, raw.numberOfObservations = c['N'], c['nobs']
    raw.excludedData = c.get('excluded', 0)
    raw.H = None if c['H'] is None else np.array([[fx(v) for v in r] for r in c['H']], dtype=float)
    raw.bhhh = None if c['B'] is None else np.array([[fx(v) for v in r] for r in c['B']], dtype=float)
    raw.bootstrap = None if c.get('boot') is None else np.array([[fx(v) for v in r] for r in c['boot']], dtype=float)
    if raw.bootstrap is not None and not hasattr(raw, 'bootstrap_time'):
        raw.bootstrap_time = datetime.timedelta(seconds=2)


def next_results(prev, c, mode):
    """one step of a history: a new bioResults for the raw outcome c, obtained from the already processed
    results `prev` through one of the entry points of results.py"""
    import copy
    import pickle
    from biogeme.results import bioResults

    if mode == 'same_object':                     # the processed RawResults is updated and reported again
        apply_raw(prev.data, c)
        return bioResults(the_raw_results=prev.data, identification_threshold=1.0e-5)
    if mode == 'deepcopy':
        raw = copy.deepcopy(prev.data)
        apply_raw(raw, c)
        return bioResults(the_raw_results=raw, identification_threshold=1.0e-5)
    if mode == 'pickle_then_modify':              # written by write_pickle, read back, updated, reported again
        fn = prev.write_pickle()
        r = bioResults(pickle_file=fn, identification_threshold=1.0e-5)
        apply_raw(r.data, c)
        return bioResults(the_raw_results=r.data, identification_threshold=1.0e-5)
    if mode == 'modify_then_pickle':              # updated, written by write_pickle, read by the pickle entry point
        apply_raw(prev.data, c)
        fn = prev.write_pickle()
        return bioResults(pickle_file=fn, identification_threshold=1.0e-5)
    if mode == 'raw_pickle':                      # the raw object itself pickled by the user, as the docs suggest
        apply_raw(prev.data, c)
        raw = pickle.loads(pickle.dumps(prev.data))
        return bioResults(the_raw_results=raw, identification_threshold=1.0e-5)
    raise ValueError(f'unknown history mode {mode}')


def run_case(c, want):
    from biogeme.results import bioResults

    try:
        raw = build_raw(c)
    except Exception as e:  # noqa
        return {'build': exc(e)}
    try:
        res = bioResults(raw, identification_threshold=1.0e-5)
    except Exception as e:  # noqa
        return {'construct': exc(e)}
    if not c.get('history'):
        return report(res, c, want)
    # a history: the same raw outcome object processed again after each update
    c0 = {k: v for k, v in c.items() if k not in ('history', 'modes', 'lr_with')}
    outs = [_try_report(res, c0, want)]
    for step, mode in zip(c['history'], c['modes']):
        try:
            res = next_results(res, step, mode)
        except Exception as e:  # noqa
            outs.append({'construct': exc(e)})
            break
        outs.append(_try_report(res, step, want))
    return {'history_outs': outs}


def _try_report(res, c, want):
    try:
        return report(res, c, want)
    except Exception as e:  # noqa
        return {'runner': exc(e)}


def report(res, c, want):
    """every number reported by a bioResults object, as data"""
    from biogeme.results import bioResults, compile_estimation_results

    out = {}
    d = res.data
    out['scalars'] = {k: hx(getattr(d, k, None)) if hasattr(d, k) else {'missing': True} for k in SCALARS}
    out['matrices'] = {k: (mat(getattr(d, k)) if hasattr(d, k) else None) for k in MATRICES}
    out['eigenValues'] = [hx(v) for v in getattr(d, 'eigenValues', [])] if hasattr(d, 'eigenValues') else None
    out['betas'] = [{'name': b.name, **{a: hx(getattr(b, a)) for a in BETA_ATTRS},
                     'active': _try(lambda b=b: bool(b.is_bound_active()))} for b in d.betas]
    sot = getattr(d, 'secondOrderTable', None)
    out['secondOrderTable'] = None if sot is None else [[k[0], k[1], [hx(v) for v in vals]] for k, vals in sot.items()]

    def sect(name, fn):
        if want and name not in want:
            return
        try:
            out[name] = fn()
        except Exception as e:  # noqa
            out[name] = exc(e)

    sect('nfree', lambda: int(res.number_of_free_parameters()))
    sect('est_robust', lambda: frame(res.get_estimated_parameters(only_robust=True)))
    sect('est_all', lambda: frame(res.get_estimated_parameters(only_robust=False)))
    sect('corr', lambda: frame(res.get_correlation_results()))
    sect('general', lambda: {k: {'value': hx(v.value), 'format': v.format} for k, v in res.get_general_statistics().items()})
    sect('general_text', lambda: res.print_general_statistics())
    sect('var', lambda: frame(res.get_var_covar()))
    sect('robvar', lambda: frame(res.get_robust_var_covar()))
    sect('bootvar', lambda: (lambda f: None if f is None else frame(f))(res.get_bootstrap_var_covar()))

    def comp(formatted, s, t):
        df, conf = compile_estimation_results({'M': res}, include_robust_stderr=s, include_robust_ttest=t,
                                              formatted=formatted)
        return frame(df)

    for s in (False, True):
        for t in (False, True):
            sect(f'compile_raw_{int(s)}{int(t)}', lambda s=s, t=t: comp(False, s, t))
            sect(f'compile_fmt_{int(s)}{int(t)}', lambda s=s, t=t: comp(True, s, t))

    if c.get('lr_with') is not None and (not want or 'lr' in want):
        try:
            other = bioResults(build_raw(c['lr_with']), identification_threshold=1.0e-5)
        except Exception as e:  # noqa
            out['lr'] = {'other': exc(e)}
        else:
            lr = {}
            for nm, a, b in (('self_other', res, other), ('other_self', other, res)):
                for alpha in c.get('alphas', ['0x1.999999999999ap-5']):
                    try:
                        r = a.likelihood_ratio_test(b, significance_level=fx(alpha))
                        lr[f'{nm}@{alpha}'] = {'message': r.message, 'statistic': hx(r.statistic), 'threshold': hx(r.threshold)}
                    except Exception as e:  # noqa
                        lr[f'{nm}@{alpha}'] = exc(e)
            out['lr'] = lr
    return out


def _try(fn):
    try:
        return fn()
    except Exception as e:  # noqa
        return exc(e)


def main():
    payload = json.load(sys.stdin)
    want = payload.get('only')
    res = []
    for c in payload['cases']:
        try:
            res.append(run_case(c, want))
        except Exception as e:  # noqa  (never let one case kill the batch)
            res.append({'runner': exc(e)})
    print('@@' + json.dumps(res))


if __name__ == '__main__':
    main()
