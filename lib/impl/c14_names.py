"""Implementation side of stream C14/names: run filenames.get_new_file_name (and
tools.files.create_backup) in scratch directories populated with decoys."""
import signal, json, os, sys, tempfile, shutil
from biogeme.filenames import get_new_file_name

def _alarm(*a):
    raise TimeoutError('no answer after 5 s')


signal.signal(signal.SIGALRM, _alarm)
cases = json.load(sys.stdin)
out = []
timeouts = 0
root = os.getcwd()
for c in cases:
    if timeouts >= 3:   # the implementation stopped answering: do not hang the harness
        out.append({'ok': False, 'exc': 'TimeoutError', 'msg': 'skipped after 3 timeouts', 'unchanged': True})
        continue
    d = tempfile.mkdtemp(dir=root)
    os.chdir(d)
    try:
        for f in c['files']:
            open(f, 'w').close()
        for f in c.get('dirs', []):
            os.mkdir(f)
        before = sorted(os.listdir('.'))
        try:
            signal.alarm(5)
            r = get_new_file_name(c['name'], c['ext'])
            signal.alarm(0)
            res = {'ok': True, 'name': r, 'existed': os.path.isfile(r)}
        except Exception as e:  # noqa
            signal.alarm(0)
            timeouts += isinstance(e, TimeoutError)
            res = {'ok': False, 'exc': type(e).__name__, 'msg': str(e)[:200]}
        res['unchanged'] = before == sorted(os.listdir('.'))
        out.append(res)
    finally:
        os.chdir(root)
        shutil.rmtree(d, ignore_errors=True)
print('@@' + json.dumps(out))
