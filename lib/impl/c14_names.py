"""Implementation side of stream C14/names: run filenames.get_new_file_name (and
tools.files.create_backup) in scratch directories populated with decoys."""
import json, os, sys, tempfile, shutil
from biogeme.filenames import get_new_file_name

cases = json.load(sys.stdin)
out = []
root = os.getcwd()
for c in cases:
    d = tempfile.mkdtemp(dir=root)
    os.chdir(d)
    try:
        for f in c['files']:
            open(f, 'w').close()
        for f in c.get('dirs', []):
            os.mkdir(f)
        before = sorted(os.listdir('.'))
        try:
            r = get_new_file_name(c['name'], c['ext'])
            res = {'ok': True, 'name': r, 'existed': os.path.isfile(r)}
        except Exception as e:  # noqa
            res = {'ok': False, 'exc': type(e).__name__, 'msg': str(e)[:200]}
        res['unchanged'] = before == sorted(os.listdir('.'))
        out.append(res)
    finally:
        os.chdir(root)
        shutil.rmtree(d, ignore_errors=True)
print('@@' + json.dumps(out))
