"""Implementation side of stream C09/panel_map.

For every case: build a pandas table with an identifier column, declare it as panel data through
Database.panel, optionally run a history (rebuild the map, remove rows through Database.remove), and report
what the database holds afterwards: the individualMap, the identifier and original-row-number columns of
database.data, the sample size.  Exceptions are data, not crashes."""
import json
import math
import sys
import logging

import numpy as np
import pandas as pd

logging.disable(logging.CRITICAL)

from biogeme.database import Database  # noqa: E402
from biogeme.expressions import Variable  # noqa: E402


def scaled_int(v, scale):
    """identifier -> exact integer (identifier * scale); integers never go through a float;
    None if not integral (a corrupted identifier)"""
    if isinstance(v, (int, np.integer)) and not isinstance(v, bool):
        return int(v) * scale
    f = float(v) * scale
    if f != f or math.isinf(f) or f != int(f):
        return None
    return int(f)


def run_case(c):
    n = len(c['ids'])
    scale = c['scale']
    if c['dtype'] == 'float':
        col = np.array([i / scale for i in c['ids']], dtype=np.float64)
    else:
        col = np.array(c['ids'], dtype=np.int64)
    df = pd.DataFrame({'x': np.arange(n, dtype=np.float64) + 0.5, 'pid': col,
                       'row': np.arange(n, dtype=np.int64),
                       'rm': np.array(c.get('rm') or [0] * n, dtype=np.int64)})
    idx = c.get('index', 'range')
    if idx == 'rev':
        df.index = list(range(n - 1, -1, -1))
    elif idx == 'sparse':
        df.index = [3 * k + 7 for k in range(n)]
    elif idx == 'dup':
        df.index = [k // 2 for k in range(n)]
    res = {'ok': True}
    try:
        d = Database('c09', df)
    except Exception as e:  # noqa
        return {'ok': False, 'stage': 'Database', 'exc': type(e).__name__, 'msg': str(e)[:200]}
    try:
        d.panel('pid')
    except Exception as e:  # noqa
        res = {'ok': False, 'stage': 'panel', 'exc': type(e).__name__, 'msg': str(e)[:200]}
        try:
            res['is_panel_after'] = bool(d.is_panel())
            res['rows_after'] = [int(v) for v in d.data['row'].tolist()]
            res['columns_after'] = [str(x) for x in d.data.columns]
        except Exception as e2:  # noqa
            res['after_exc'] = type(e2).__name__
        return res
    try:
        for op in c.get('history', []):
            if op == 'rebuild':
                d.build_panel_map()
            elif op == 'remove':
                d.remove(Variable('rm'))
            elif op == 'size':
                d.get_sample_size()
        m = d.individualMap
        res['map'] = []
        for key, (a, b) in zip(m.index.tolist(), m.values.tolist()):
            res['map'].append([scaled_int(key, scale), int(a), int(b), float(a) == int(a) and float(b) == int(b)])
        res['ids_after'] = [scaled_int(v, scale) for v in d.data['pid'].tolist()]
        res['rows_after'] = [int(v) for v in d.data['row'].tolist()]
        res['index_after'] = [int(v) for v in d.data.index.tolist()]
        res['columns_after'] = [str(x) for x in d.data.columns]
        res['sample_size'] = int(d.get_sample_size())
        res['n_obs'] = int(d.get_number_of_observations())
        res['is_panel'] = bool(d.is_panel())
    except Exception as e:  # noqa
        res = {'ok': False, 'stage': 'history', 'exc': type(e).__name__, 'msg': str(e)[:200]}
    return res


def main():
    cases = json.load(sys.stdin)
    out = []
    for c in cases:
        try:
            out.append(run_case(c))
        except Exception as e:  # noqa
            out.append({'ok': False, 'stage': 'runner', 'exc': type(e).__name__, 'msg': str(e)[:200]})
    print('@@' + json.dumps(out))


main()
