"""Implementation side of streams C20/alias_enum and C20/alias_reach.

enum : import every module of the package and list, with Python's own machinery,
       (a) every object carrying `__deprecated__` (module functions, class dictionary entries),
       (b) every function wrapped by deprecated_parameters (with the map held in its closure),
       (c) the MRO of every top-level class restricted to package classes,
       (d) for every class, the old names it exposes (inspect.getattr_static along the MRO).
reach: for every (class, old name) pair / module-level alias given in the payload, call the alias
       on a bare instance (object.__new__) with None for every required parameter, and record the
       first function of the package entered after the wrappers of deprecated.py -- the call is
       aborted at that function's entry (no body code runs).
"""
import importlib
import inspect
import json
import os
import pkgutil
import sys
import warnings

warnings.simplefilter('ignore')
payload = json.load(sys.stdin)
out = {'import_errors': {}}

import biogeme  # noqa: E402

PKG_DIR = os.path.dirname(os.path.abspath(biogeme.__file__))
mods = {}
for mi in pkgutil.walk_packages(biogeme.__path__, 'biogeme.'):
    try:
        mods[mi.name] = importlib.import_module(mi.name)
    except BaseException as e:  # noqa
        out['import_errors'][mi.name] = repr(e)[:300]
mods['biogeme'] = biogeme


def modname_of_file(fn):
    fn = os.path.abspath(fn)
    if not fn.startswith(PKG_DIR):
        return None
    rel = os.path.relpath(fn, os.path.dirname(PKG_DIR))[:-3]
    parts = rel.split(os.sep)
    if parts[-1] == '__init__':
        parts = parts[:-1]
    return '.'.join(parts)


def unwrap_binder(v):
    if isinstance(v, (staticmethod, classmethod)):
        return v.__func__, type(v).__name__
    return v, None


def is_dp_wrapper(f):
    co = getattr(f, '__code__', None)
    return (co is not None and co.co_name == 'wrapper' and co.co_filename.endswith('deprecated.py')
            and not getattr(f, '__deprecated__', False) and hasattr(f, '__wrapped__'))


def code_id(f):
    """definition site of the innermost wrapped function"""
    g = f
    seen = 0
    while hasattr(g, '__wrapped__') and seen < 10:
        g = g.__wrapped__
        seen += 1
    g, _ = unwrap_binder(g)
    co = getattr(g, '__code__', None)
    if co is None:
        return None
    return {'mod': modname_of_file(co.co_filename), 'qual': co.co_qualname, 'line': co.co_firstlineno}


def top_classes():
    res = []
    for mn, m in mods.items():
        for name, v in vars(m).items():
            if inspect.isclass(v) and v.__module__ == mn and v.__qualname__ == name:
                res.append(v)
    return res


def cname(k):
    return f'{k.__module__}:{k.__qualname__}'


if payload['mode'] == 'enum':
    aliases, kws, mros, exposes = [], [], {}, []
    for mn, m in mods.items():
        for name, v in list(vars(m).items()):
            if inspect.isfunction(v) and v.__module__ == mn:
                if getattr(v, '__deprecated__', False):
                    cid = code_id(v)
                    if cid and cid['mod'] == mn:  # defined here (not re-exported)
                        aliases.append({'mod': mn, 'owner': '', 'old': v.__name__, 'attr': name,
                                        'new': getattr(v, '__newname__', None), 'line': cid['line']})
                elif is_dp_wrapper(v):
                    cid = code_id(v)
                    if cid and cid['mod'] == mn:
                        cells = [c.cell_contents for c in (v.__closure__ or ()) if isinstance(c.cell_contents, dict)]
                        kws.append({'mod': mn, 'owner': '', 'name': name, 'line': cid['line'],
                                    'map': sorted(cells[0].items()) if len(cells) == 1 else None})
    for k in top_classes():
        mros[cname(k)] = [cname(b) for b in k.__mro__
                          if b.__module__.split('.')[0] == 'biogeme' and b.__qualname__.find('.') < 0]
        for name, raw in list(vars(k).items()):
            v, binder = unwrap_binder(raw)
            if not inspect.isfunction(v):
                continue
            if getattr(v, '__deprecated__', False):
                cid = code_id(v)
                aliases.append({'mod': k.__module__, 'owner': k.__qualname__, 'old': v.__name__, 'attr': name,
                                'new': getattr(v, '__newname__', None), 'line': cid['line'] if cid else None,
                                'binder': binder})
            elif is_dp_wrapper(v):
                cid = code_id(v)
                cells = [c.cell_contents for c in (v.__closure__ or ()) if isinstance(c.cell_contents, dict)]
                kws.append({'mod': k.__module__, 'owner': k.__qualname__, 'name': name, 'line': cid['line'] if cid else None,
                            'map': sorted(cells[0].items()) if len(cells) == 1 else None})
        for name in dir(k):
            try:
                raw = inspect.getattr_static(k, name)
            except AttributeError:
                continue
            v, _ = unwrap_binder(raw)
            if inspect.isfunction(v) and getattr(v, '__deprecated__', False):
                cid = code_id(v)
                exposes.append({'cls': cname(k), 'old': name, 'line': cid['line'] if cid else None,
                                'def_mod': cid['mod'] if cid else None})
    out['abstract'] = [cname(k) for k in top_classes() if getattr(k, '__abstractmethods__', None)]
    out.update({'aliases': aliases, 'kws': kws, 'mros': mros, 'exposes': exposes,
                'n_modules': len(mods)})

elif payload['mode'] == 'reach':
    class Abort(BaseException):
        pass

    hit = []

    def prof(frame, event, arg):
        if event != 'call':
            return
        co = frame.f_code
        fn = co.co_filename
        if not fn.startswith(PKG_DIR) or fn.endswith('deprecated.py'):
            return
        hit.append({'mod': modname_of_file(fn), 'qual': co.co_qualname, 'line': co.co_firstlineno})
        raise Abort()

    classes = {cname(k): k for k in top_classes()}
    res = []
    for case in payload['cases']:
        r = {'ok': False}
        try:
            if case['cls']:
                k = classes[case['cls']]
                if getattr(k, '__abstractmethods__', None):
                    # abstract class: a bare instance of a direct subclass that only lifts the ban
                    k = type(k.__name__, (k,), {})
                    k.__abstractmethods__ = frozenset()
                obj = object.__new__(k)
                f = getattr(obj, case['old'])
            else:
                f = getattr(mods[case['mod']], case['old'])
            sig = inspect.signature(f)  # follows __wrapped__: the stub's declared signature
            args = [None for p in sig.parameters.values()
                    if p.kind in (p.POSITIONAL_ONLY, p.POSITIONAL_OR_KEYWORD) and p.default is p.empty]
            del hit[:]
            sys.setprofile(prof)
            try:
                f(*args)
                r['note'] = 'returned without entering a package function'
            except Abort:
                pass
            finally:
                sys.setprofile(None)
            if hit:
                r = {'ok': True, **hit[0]}
        except BaseException as e:  # noqa
            sys.setprofile(None)
            r = {'ok': False, 'exc': type(e).__name__, 'msg': str(e)[:200]}
        res.append(r)
    out['results'] = res

print('@@' + json.dumps(out))
