"""Runs inside the implementation subprocess: converts a biogeme Expression object graph into the
JSON form of the Gallina `expr` rose tree (Model/Expr.v).  Pure structure; no evaluation."""
import math


def dyadic(x):
    x = float(x)
    if not math.isfinite(x):
        raise ValueError(f'non-finite number {x}')
    if x == 0:
        return [0, 0]
    n, d = x.as_integer_ratio()
    e = -(d.bit_length() - 1)
    while n % 2 == 0:
        n //= 2
        e += 1
    return [n, e]


BIN = {'Plus': 'Plus', 'Minus': 'Minus', 'Times': 'Times', 'Divide': 'Divide', 'Power': 'Power',
       'bioMin': 'BMin', 'bioMax': 'BMax', 'And': 'And', 'Or': 'Or', 'Equal': 'Eq', 'NotEqual': 'Ne',
       'LessOrEqual': 'Le', 'GreaterOrEqual': 'Ge', 'Less': 'Lt', 'Greater': 'Gt'}
UN = {'UnaryMinus': 'UMinus', 'exp': 'Exp', 'log': 'Log', 'logzero': 'Logzero', 'sin': 'Sin', 'cos': 'Cos',
      'bioNormalCdf': 'NormalCdf', 'MonteCarlo': 'MonteCarlo', 'PanelLikelihoodTrajectory': 'PanelTraj'}


def expr_to_json(e, with_ids=False, through_catalogs=True):
    """with_ids: attach the Python object identity (id(e)) to every node (sharing is visible)."""
    from biogeme.expressions import Expression

    def go(x):
        cn = type(x).__name__
        node = None
        if not isinstance(x, Expression):
            raise TypeError(f'not an Expression: {x!r}')
        if cn == 'Numeric':
            node = {'h': ['Num'] + dyadic(x.value), 'k': []}
        elif cn == 'Beta':
            node = {'h': ['Beta', x.name, bool(x.status != 0)], 'k': []}
        elif cn in ('Variable', 'DefineVariable'):
            node = {'h': ['Var', x.name], 'k': []}
        elif cn == 'bioDraws':
            node = {'h': ['Draws', x.name, x.drawType], 'k': []}
        elif cn == 'RandomVariable':
            node = {'h': ['RV', x.name], 'k': []}
        elif cn in BIN:
            node = {'h': ['Bin', BIN[cn]], 'k': [go(x.left), go(x.right)]}
        elif cn in UN:
            node = {'h': ['Un', UN[cn]], 'k': [go(x.child)]}
        elif cn == 'PowerConstant':
            node = {'h': ['PowC'] + dyadic(x.exponent), 'k': [go(x.child)]}
        elif cn == 'Derive':
            node = {'h': ['Derive', x.elementaryName], 'k': [go(x.child)]}
        elif cn == 'Integrate':
            node = {'h': ['Integrate', x.randomVariableName], 'k': [go(x.child)]}
        elif cn == 'BelongsTo':
            node = {'h': ['Belongs', [dyadic(v) for v in x.the_set]], 'k': [go(x.child)]}
        elif cn == 'bioMultSum':
            node = {'h': ['MultSum'], 'k': [go(c) for c in x.get_children()]}
        elif cn == 'ConditionalSum':
            ks = []
            for t in x.list_of_terms:
                ks += [go(t.condition), go(t.term)]
            node = {'h': ['CondSum'], 'k': ks}
        elif cn == 'Elem':
            keys = [int(k) for k in x.dict_of_expressions.keys()]
            node = {'h': ['Elem', keys], 'k': [go(x.keyExpression)] + [go(v) for v in x.dict_of_expressions.values()]}
        elif cn == 'bioLinearUtility':
            ks = []
            for b, v in x.listOfTerms:
                ks += [go(b), go(v)]
            node = {'h': ['LinUtil'], 'k': ks}
        elif cn in ('LogLogit', '_bioLogLogit', '_bioLogLogitFullChoiceSet'):
            uk = [int(k) for k in x.util.keys()]
            ak = [int(k) for k in x.av.keys()]
            node = {'h': ['LogLogit', uk, ak],
                    'k': [go(x.choice)] + [go(v) for v in x.util.values()] + [go(v) for v in x.av.values()]}
        elif hasattr(x, 'selected') and through_catalogs:
            _, sel = x.selected()
            return go(sel)
        else:
            raise TypeError(f'unsupported expression class {cn}')
        if with_ids:
            node['id'] = id(x)
        return node

    return go(e)
