"""Implementation side of stream C14/backup: tools.files.create_backup in scratch directories.

payload: list of {files:[relative paths], dirs:[relative paths], target, rename}
result : list of {ok, ret, splitext:[root, ext], before:{path:[sha,kind]}, after:{...}} -- paths relative
to the scratch directory, sub-directories listed recursively."""
import hashlib
import signal, json
import logging
import os
import shutil
import sys
import tempfile

logging.disable(logging.CRITICAL)
from biogeme.tools.files import create_backup  # noqa: E402


def listing():
    out = {}
    for root, dirs, files in os.walk('.'):
        for d in dirs:
            out[os.path.relpath(os.path.join(root, d), '.')] = ['', 'd']
        for f in files:
            p = os.path.relpath(os.path.join(root, f), '.')
            with open(p, 'rb') as fh:
                out[p] = [hashlib.sha256(fh.read()).hexdigest(), 'f']
    return out


def _alarm(*a):
    raise TimeoutError('no answer after 5 s')


signal.signal(signal.SIGALRM, _alarm)
cases = json.load(sys.stdin)
res = []
timeouts = 0
root = os.getcwd()
for c in cases:
    if timeouts >= 3:   # the implementation stopped answering: do not hang the harness
        res.append({'ok': False, 'exc': 'TimeoutError', 'msg': 'skipped after 3 timeouts', 'before': {}, 'after': {}, 'splitext': ['', '']})
        continue
    d = tempfile.mkdtemp(dir=root)
    os.chdir(d)
    try:
        for x in c.get('dirs', []):
            os.makedirs(x, exist_ok=True)
        for f in c['files']:
            if os.path.dirname(f):
                os.makedirs(os.path.dirname(f), exist_ok=True)
            with open(f, 'w') as fh:
                fh.write('content of ' + f + '\n')
        r = {'before': listing(), 'splitext': list(os.path.splitext(c['target']))}
        try:
            signal.alarm(5)
            r['ret'] = create_backup(c['target'], bool(c['rename']))
            signal.alarm(0)
            r['ok'] = True
        except Exception as e:  # noqa
            signal.alarm(0)
            timeouts += isinstance(e, TimeoutError)
            r['ok'] = False
            r['exc'] = type(e).__name__
            r['msg'] = str(e)[:200]
        r['after'] = listing()
        res.append(r)
    finally:
        os.chdir(root)
        shutil.rmtree(d, ignore_errors=True)
print('@@' + json.dumps(res))
