"""Implementation side of C07: REAL estimations with every optimisation algorithm.

Input (stdin, JSON): {"problems": {pid: problem}, "cases": [run, ...], "spy": bool}
  problem = {"cols": {name: [float.hex]}, "choice": [int], "alts": {alt: [[param, column-or-null], ...]}}
            (the utility of an alternative is the sum of param * column; a null column is the constant 1)
  run     = {"pid", "params": [{"name", "init": hex, "lb": hex|null, "ub": hex|null, "fixed": bool}],
             "algorithm", "share": bool, "iter_start": {name: hex}|null, "settings": {parameter: value}|null,
             "quick": bool (quick_estimate() instead of estimate()),
             "bootstrap": B|null (estimate(run_bootstrap=True) with bootstrap_samples=B, numpy seeded with "np_seed"),
             "pre": [action], "post": [action]  (further calls on the SAME BIOGEME object before / after the estimation; after the
             "post" actions the fields of the returned results object are exported again under "after"),
             action = ["eval", {name: hex}, scaled] | ["like", {name: hex}] | ["check_derivatives", {name: hex}]
                      | ["estimate_from", {name: hex}] | ["quick_from", {name: hex}]
                      | ["bootstrap_fault", B, fault_at, "optimize"|"derivatives", exception name, numpy seed]}
  a problem with "kind": "expo" is the duration / count model  sum_n y_n log(lin_n) - lin_n t_n,  lin_n = sum_k param_k * column_k
  ("lin": [[param, column-or-null]], columns "t" and optionally "y"): concave, undefined (NaN) where some lin_n < 0.
Prints one line '@@<json list>' with one result per run (an exception is reported as data).
Runs in the scratch cwd given by the harness (estimation may write __*.iter / biogeme.toml there)."""
import json
import os
import sys
import warnings

warnings.filterwarnings('ignore')


def hx(v):
    return float(v).hex()


def hxl(a):
    return [hx(v) for v in a]


def hxm(m):
    return [[hx(v) for v in row] for row in m]


def fh(s):
    return None if s is None else float.fromhex(s)


def main():
    payload = json.load(sys.stdin)
    import logging
    logging.disable(logging.CRITICAL)
    import numpy as np
    import pandas as pd
    import biogeme.database as db
    import biogeme.biogeme as bio
    import biogeme.optimization as opt
    from biogeme.expressions import Beta, Variable, log
    from biogeme import models
    from biogeme.parameters import Parameters

    problems = payload['problems']
    frames = {}
    SECTION = {}
    try:
        from biogeme.default_parameters import all_parameters_tuple
        for t in all_parameters_tuple():
            SECTION[t.name] = t.section
    except Exception:
        pass

    # ---- spies on the external routines (stream plumbing): record what the wrapper hands over, then run the real one
    calls = []

    def tok(v):
        from fractions import Fraction
        import math
        if v is None:
            return 'None'
        if isinstance(v, (bool, np.bool_)):
            return 'True' if v else 'False'
        if isinstance(v, (int, float, np.integer, np.floating)):
            f = float(v) if not isinstance(v, (int, np.integer)) else int(v)
            if isinstance(f, float) and not math.isfinite(f):
                return 'float:' + repr(f)
            fr = Fraction(f)
            return f'{fr.numerator}/{fr.denominator}'
        if isinstance(v, str):
            return 'str:' + v
        return 'obj:' + type(v).__name__

    def bounds_list(b):
        # biogeme_optimization.Bounds, scipy.optimize.Bounds (infinite = no bound) or a list of pairs; never raises
        try:
            if b is None:
                return None
            if hasattr(b, 'bounds'):
                b = b.bounds
            elif hasattr(b, 'lb') and hasattr(b, 'ub'):
                b = [(None if not np.isfinite(l) else float(l), None if not np.isfinite(u) else float(u))
                     for l, u in zip(np.atleast_1d(b.lb), np.atleast_1d(b.ub))]
            return [[None if l is None else hx(l), None if u is None else hx(u)] for (l, u) in b]
        except Exception as e:  # noqa
            return 'unreadable: ' + repr(e)[:120]

    def install_spies():
        import biogeme_optimization.function as bof
        base_init = bof.FunctionToMinimize.__init__

        def init_spy(self, epsilon=None, steptol=None, *a, **k):
            calls.append({'routine': 'FunctionToMinimize.__init__', 'kwargs': {'epsilon': tok(epsilon), 'steptol': tok(steptol)}})
            return base_init(self, epsilon=epsilon, steptol=steptol, *a, **k)

        bof.FunctionToMinimize.__init__ = init_spy
        for name, full in (('newton_line_search', 'biogeme_optimization.linesearch.newton_line_search'),
                           ('bfgs_line_search', 'biogeme_optimization.linesearch.bfgs_line_search'),
                           ('newton_trust_region', 'biogeme_optimization.trust_region.newton_trust_region'),
                           ('bfgs_trust_region', 'biogeme_optimization.trust_region.bfgs_trust_region'),
                           ('simple_bounds_newton_algorithm', 'biogeme_optimization.simple_bounds.simple_bounds_newton_algorithm')):
            real = getattr(opt, name, None)
            if real is None:
                continue

            def spy(*a, _real=real, _full=full, **k):
                rec = {'routine': _full, 'npos': len(a), 'kwargs': {}, 'bounds': None, 'has_bounds': 'bounds' in k,
                       'start': None, 'fct': None}
                for kk, v in k.items():
                    if kk == 'bounds':
                        rec['bounds'] = bounds_list(v)
                    elif kk == 'starting_point':
                        rec['start'] = hxl(v)
                    elif kk == 'the_function':
                        rec['fct'] = type(v).__name__
                    elif kk == 'variable_names':
                        rec['variable_names'] = None if v is None else list(v)
                    else:
                        rec['kwargs'][kk] = tok(v)
                calls.append(rec)
                out = _real(*a, **k)
                try:
                    rec['ret_convergence'] = bool(out.convergence)
                    rec['ret_solution'] = hxl(out.solution)
                    rec['ret_cause'] = str((out.messages or {}).get('Cause of termination', ''))[:160]
                except Exception as e:  # noqa
                    rec['ret_error'] = repr(e)[:200]
                return out

            setattr(opt, name, spy)
        real_min = opt.sc.minimize

        class SC:
            def __getattr__(self, n):
                return getattr(sys.modules['scipy.optimize'], n)

            @staticmethod
            def minimize(fun, x0, *a, **k):
                rec = {'routine': 'scipy.optimize.minimize', 'npos': 2 + len(a), 'kwargs': {}, 'has_bounds': 'bounds' in k,
                       'bounds': bounds_list(k.get('bounds')), 'start': hxl(x0), 'fct': 'closure', 'jac': tok(k.get('jac'))}
                o = k.get('options') or {}
                rec['options'] = {kk: tok(v) for kk, v in o.items()}
                calls.append(rec)
                out = real_min(fun, x0, *a, **k)
                try:
                    rec['ret_convergence'] = bool(out.success)
                    rec['ret_solution'] = hxl(out.x)
                    rec['ret_cause'] = str(out.message)[:160]
                except Exception as e:  # noqa
                    rec['ret_error'] = repr(e)[:200]
                return out

        opt.sc = SC()

    if payload.get('spy'):
        try:
            install_spies()
        except Exception as e:  # noqa
            print('@@' + json.dumps([{'error': 'spy installation failed: ' + repr(e)[:300]}] * len(payload['cases'])))
            return

    def frame(pid):
        if pid not in frames:
            p = problems[pid]
            d = {c: [float.fromhex(v) for v in vals] for c, vals in p['cols'].items()}
            if p.get('choice') is not None:
                d['choice'] = [int(c) for c in p['choice']]
            frames[pid] = pd.DataFrame(d)
        return frames[pid]

    def build(run, name, algorithm, save_iterations, with_settings=True):
        p = problems[run['pid']]
        database = db.Database('c07', frame(run['pid']).copy())
        shared = {}
        leaves = []

        def beta(n):
            spec = next(x for x in run['params'] if x['name'] == n)
            if run.get('share') and n in shared:
                return shared[n]
            b = Beta(n, float.fromhex(spec['init']), fh(spec['lb']), fh(spec['ub']), 1 if spec['fixed'] else 0)
            shared[n] = b
            leaves.append(b)
            return b

        def linear(terms):
            v = None
            for prm, col in terms:
                t = beta(prm) if col is None else beta(prm) * Variable(col)
                v = t if v is None else v + t
            return v

        if p.get('kind') == 'expo':
            lin = linear(p['lin'])
            lin2 = linear(p['lin'])
            first = log(lin) if 'y' not in p['cols'] else Variable('y') * log(lin)
            lp = first - lin2 * Variable('t')
        else:
            V = {}
            for alt, terms in p['alts'].items():
                v = linear(terms)
                V[int(alt)] = 0 if v is None else v
            lp = models.loglogit(V, None, Variable('choice'))
        prm = Parameters()
        prm.set_value('generate_html', False, 'Output')
        prm.set_value('generate_pickle', False, 'Output')
        prm.set_value('save_iterations', bool(save_iterations), 'Estimation')
        prm.set_value('number_of_threads', 1, 'MultiThreading')
        prm.set_value('optimization_algorithm', algorithm, 'Estimation')
        if with_settings:
            for k, v in (run.get('settings') or {}).items():
                prm.set_value(k, v, SECTION.get(k))
        b = bio.BIOGEME(database, lp, parameters=prm)
        b.modelName = name
        return b, lp, leaves

    def walk(e, out, seen_depth=0):
        if isinstance(e, Beta):
            out.append(e)
        try:
            ch = e.get_children()
        except Exception:
            ch = []
        for c in ch:
            walk(c, out, seen_depth + 1)

    def leaf_state(lp):
        out = []
        walk(lp, out)
        return [{'name': x.name, 'init': hx(x.initValue), 'lb': None if x.lb is None else hx(x.lb),
                 'ub': None if x.ub is None else hx(x.ub), 'status': int(x.status), 'obj': id(x)} for x in out]

    results = []
    for idx, run in enumerate(payload['cases']):
        res = {}
        try:
            del calls[:]
            name = f'm{idx}'
            it = run.get('iter_start')
            b, lp, _ = build(run, name, run['algorithm'], save_iterations=it is not None)
            res['leaves_before'] = leaf_state(lp)
            res['free_names'] = list(b.id_manager.free_betas.names)
            res['idm_start'] = hxl(b.id_manager.free_betas_values)
            res['is_model_complex'] = bool(b.is_model_complex())
            if it is not None:
                with open(f'__{name}.iter', 'w', encoding='utf-8') as f:
                    for k, v in it.items():
                        print(f'{k} = {float.fromhex(v)!r}', file=f)
            def point(spec_):
                vals = {x['name']: float.fromhex(x['init']) for x in run['params']}
                vals.update({k: float.fromhex(v) for k, v in spec_.items()})
                return np.array([vals[n] for n in b.id_manager.free_betas.names])

            def act(a):
                kind = a[0]
                if kind == 'eval':
                    b.calculate_likelihood_and_derivatives(point(a[1]), scaled=bool(a[2]), hessian=True, bhhh=True)
                elif kind == 'like':
                    b.calculate_likelihood(point(a[1]), scaled=False)
                elif kind == 'check_derivatives':
                    b.check_derivatives(point(a[1]), verbose=False)
                elif kind == 'estimate_from':
                    b.change_init_values({k: float.fromhex(v) for k, v in a[1].items()})
                    rr = b.estimate()
                    pre_log.append({'action': kind, 'estimates': {k: hx(v) for k, v in rr.get_beta_values().items()}})
                elif kind == 'quick_from':
                    b.change_init_values({k: float.fromhex(v) for k, v in a[1].items()})
                    b.quick_estimate()
                elif kind == 'bootstrap_fault':
                    # estimate(run_bootstrap=True) hit by a fault inside its `fault_at`-th re-estimation (1-based), raised either on
                    # entering optimize() or in the middle of it (second evaluation of the derivatives); the exception is caught by the
                    # caller, who goes on using the SAME object
                    _, B, fault_at, where, exc_name, seed = a
                    import biogeme.exceptions as bexc
                    try:
                        from biogeme_optimization.exceptions import OptimizationError
                    except Exception:  # noqa
                        OptimizationError = RuntimeError
                    exc = {'RuntimeError': RuntimeError, 'KeyboardInterrupt': KeyboardInterrupt, 'OptimizationError': OptimizationError,
                           'BiogemeError': bexc.BiogemeError}.get(exc_name, RuntimeError)
                    state = {'n': 0, 'armed': False, 'evals': 0}
                    real_opt, real_der = b.optimize, b.calculate_likelihood_and_derivatives

                    def opt_wrap(starting_values=None):
                        state['n'] += 1
                        state['armed'] = state['n'] == fault_at + 1
                        state['evals'] = 0
                        if state['armed'] and where == 'optimize':
                            raise exc('injected fault on entering a bootstrap re-estimation')
                        return real_opt(starting_values)

                    def der_wrap(*aa, **kk):
                        if state['armed'] and where == 'derivatives':
                            state['evals'] += 1
                            if state['evals'] >= 2:
                                raise exc('injected fault in the middle of a bootstrap re-estimation')
                        return real_der(*aa, **kk)

                    b.optimize = opt_wrap
                    b.calculate_likelihood_and_derivatives = der_wrap
                    np.random.seed(int(seed))
                    b.bootstrap_samples = int(B)
                    import contextlib
                    import io
                    try:
                        with contextlib.redirect_stderr(io.StringIO()):
                            rr = b.estimate(run_bootstrap=True)
                        pre_log.append({'action': kind, 'fault': None, 'optimizations': state['n'],
                                        'estimates': {k: hx(v) for k, v in rr.get_beta_values().items()}})
                    except BaseException as e:  # noqa  (KeyboardInterrupt included: this is the fault we inject)
                        pre_log.append({'action': kind, 'fault': type(e).__name__, 'optimizations': state['n']})
                    finally:
                        del b.optimize
                        del b.calculate_likelihood_and_derivatives
                else:
                    raise ValueError('unknown action ' + str(kind))

            def export(d):
                return {
                    'betaNames': list(d.betaNames), 'betaValues': hxl(d.betaValues),
                    'logLike': hx(d.logLike), 'initLogLike': None if d.initLogLike is None else hx(d.initLogLike),
                    'g': None if d.g is None else hxl(d.g), 'H': None if d.H is None else hxm(d.H),
                    'bhhh': None if d.bhhh is None else hxm(d.bhhh),
                    'convergence': bool(d.convergence),
                    'cause': str((d.optimizationMessages or {}).get('Cause of termination', ''))[:160],
                    'bootstrap': None if getattr(d, 'bootstrap', None) is None else hxm(d.bootstrap),
                }

            pre_log = []
            for a in run.get('pre') or []:
                n_log = len(pre_log)
                act(a)
                if len(pre_log) == n_log:
                    pre_log.append({'action': a[0]})
            res['pre_log'] = list(pre_log)        # one entry per pre action
            del calls[:]
            if run.get('bootstrap'):
                np.random.seed(int(run.get('np_seed') or 0))
                b.bootstrap_samples = int(run['bootstrap'])
                import contextlib
                import io
                with contextlib.redirect_stderr(io.StringIO()):
                    r = b.estimate(run_bootstrap=True)
            else:
                r = b.quick_estimate() if run.get('quick') else b.estimate()
            d = r.data
            res.update(export(d))
            res.update({
                'ok': True,
                'res_bounds': [[None if x.lb is None else hx(x.lb), None if x.ub is None else hx(x.ub)] for x in d.betas],
                'res_values': hxl([x.value for x in d.betas]),
                'get_beta_values': {k: hx(v) for k, v in r.get_beta_values().items()},
                'leaves_after': leaf_state(lp),
                'idm_after': hxl(b.id_manager.free_betas_values),
                'idm_expr_after': {n: hx(e.initValue) for n, e in b.id_manager.free_betas.expressions.items()},
                'files': sorted(os.listdir('.')),
                'calls': list(calls),
                'has_converged': bool(r.algorithm_has_converged()),
            })
            if run.get('post'):
                for a in run['post']:
                    act(a)
                res['after'] = export(d)
            # ---- recomputation by a FRESH object (new Beta objects carrying the original starting values)
            del calls[:]
            b2, lp2, _ = build(run, name + 'r', 'simple_bounds', save_iterations=False, with_settings=False)
            names2 = list(b2.id_manager.free_betas.names)
            res['fresh_names'] = names2
            xs = [float(v) for v in d.betaValues]
            start = {x['name']: float.fromhex(x['init']) for x in run['params']}
            if it is not None:
                for k, v in it.items():
                    start[k] = float.fromhex(v)
            # earlier calls on the same object move the starting vector: change_init_values(point) before an estimation, and a
            # COMPLETED estimate() writes its estimates back (formulas and starting vector)
            for a, lg in zip(run.get('pre') or [], res.get('pre_log') or []):
                if a[0] in ('estimate_from', 'quick_from'):
                    start.update({k: float.fromhex(v) for k, v in a[1].items()})
                if lg.get('estimates'):
                    start.update({k: float.fromhex(v) for k, v in lg['estimates'].items()})
            x0 = [start[n] for n in names2]
            res['x0'] = hxl(x0)
            res['re_init'] = hx(b2.calculate_likelihood(x0, scaled=False))
            if len(xs) == len(names2):
                res['re_f'] = hx(b2.calculate_likelihood(xs, scaled=False))
                o = b2.calculate_likelihood_and_derivatives(xs, scaled=False, hessian=True, bhhh=True)
                res['re_f2'] = hx(o.function)
                res['re_g'] = hxl(o.gradient)
                res['re_H'] = hxm(o.hessian)
                res['re_bhhh'] = hxm(o.bhhh)
        except Exception as e:  # noqa
            import traceback
            res['ok'] = False
            res['error'] = f'{type(e).__name__}: {str(e)[:300]}'
            res['trace'] = traceback.format_exc()[-1200:]
        results.append(res)
    print('@@' + json.dumps(results))


main()
