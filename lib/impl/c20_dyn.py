"""Implementation side of stream C20/alias_dyn: call a deprecated name and the replacement its
name designates, side by side, on freshly built objects, and report everything observable.

payload: {'cases': [{'cls': 'module:Class' | '', 'mod': module, 'old': name, 'new': expected
          replacement name, 'variant': k, 'seed': s}, ...]}
For each case three runs are made, each in its own empty directory with the same RNG seed and
freshly built receiver and arguments:  old,  new (a),  new (b).   new(a) vs new(b) tells which
components are reproducible at all (time stamps, object ids ...); only those are compared.
Components: result | exception | files | state (receiver attributes and arguments after the call)
            | warnings (other than the alias' own) | log records | stdout.
Every exception is data.  Output: one line '@@' + json.
"""
import contextlib
import datetime as _dt
import dataclasses
import hashlib
import importlib
import inspect
import io
import json
import logging
import os
import random
import re
import shutil
import sys
import tempfile
import warnings

import numpy as np
import pandas as pd

warnings.simplefilter('ignore')
payload = json.load(sys.stdin)
ROOT = os.getcwd()

import biogeme  # noqa: E402
import biogeme.biogeme as bio  # noqa: E402
import biogeme.database as db  # noqa: E402
import biogeme.expressions as ex  # noqa: E402
from biogeme.expressions import (Beta, Variable, Numeric, Expression)  # noqa: E402

# ------------------------------------------------------------------------------- canonical form
_TS = re.compile(r'\d{4}-\d{2}-\d{2}[ T]\d{2}:\d{2}:\d{2}(\.\d+)?')
_DUR = re.compile(r'\b\d+:\d{2}:\d{2}(\.\d+)?\b')
_ADDR = re.compile(r'0x[0-9a-fA-F]{6,}')
_BIGID = re.compile(r'(?<![\d.])\d{9,}(?![\d.])')
_ENTRY = re.compile(r'data entry \d+')


class Canon:
    """Structural, identity-free rendering of a Python value."""

    def __init__(self):
        self.ids = {}
        self.objs = {}

    def text(self, s):
        s = _TS.sub('<ts>', s)
        s = _DUR.sub('<dur>', s)
        s = _ADDR.sub('<addr>', s)
        s = _ENTRY.sub('data entry <n>', s)  # which thread reports first is a race

        def ren(m):
            k = m.group(0)
            if k not in self.ids:
                self.ids[k] = f'#{len(self.ids)}'
            return self.ids[k]

        return _BIGID.sub(ren, s)

    def num(self, x):
        x = float(x)
        return 'f:' + (x.hex() if x == x else 'nan')

    def go(self, v, depth=0):
        if depth > 60:
            return '<deep>'
        if v is None or isinstance(v, (bool, int)) and not isinstance(v, np.generic):
            return v
        if isinstance(v, float):
            return self.num(v)
        if isinstance(v, str):
            return self.text(v)
        if isinstance(v, bytes):
            return 'b:' + self.text(v.decode('latin-1'))
        if isinstance(v, np.generic):
            if isinstance(v, (np.bool_,)):
                return bool(v)
            if isinstance(v, np.integer):
                return int(v)
            if isinstance(v, np.floating):
                return self.num(v)
            return self.text(repr(v))
        if isinstance(v, np.ndarray):
            if v.dtype.kind in 'fc':
                data = [self.num(x) for x in v.ravel().tolist()] if v.dtype.kind == 'f' else [repr(x) for x in v.ravel().tolist()]
            else:
                data = [self.go(x, depth + 1) for x in v.ravel().tolist()]
            return {'nd': str(v.dtype), 'shape': list(v.shape), 'data': data}
        if isinstance(v, pd.DataFrame):
            return {'df': [self.go(c, depth + 1) for c in v.columns], 'index': [self.go(i, depth + 1) for i in v.index.tolist()],
                    'dtypes': [str(t) for t in v.dtypes], 'values': [[self.go(x, depth + 1) for x in row] for row in v.values.tolist()]}
        if isinstance(v, pd.Series):
            return {'series': self.go(v.name, depth + 1), 'index': [self.go(i, depth + 1) for i in v.index.tolist()],
                    'dtype': str(v.dtype), 'values': [self.go(x, depth + 1) for x in v.tolist()]}
        if isinstance(v, (list, tuple)):
            tag = type(v).__name__
            items = [self.go(x, depth + 1) for x in v]
            if hasattr(v, '_fields'):
                return {'nt': tag, 'items': items}
            return {'t': items} if isinstance(v, tuple) else items
        if isinstance(v, (set, frozenset)):
            return {'set': sorted((self.go(x, depth + 1) for x in v), key=lambda z: json.dumps(z, sort_keys=True, default=str))}
        if isinstance(v, dict):
            items = [[self.go(k, depth + 1), self.go(x, depth + 1)] for k, x in v.items()]
            return {'dict': sorted(items, key=lambda z: json.dumps(z[0], sort_keys=True, default=str))}
        if inspect.isclass(v):
            return f'<class {v.__module__}.{v.__qualname__}>'
        if inspect.isroutine(v) or inspect.ismodule(v):
            return f'<callable {getattr(v, "__module__", "")}.{getattr(v, "__qualname__", getattr(v, "__name__", "?"))}>'
        if isinstance(v, logging.Logger):
            return '<logger>'
        if isinstance(v, (_dt.timedelta, _dt.datetime, _dt.date, _dt.time)):
            return f'<{type(v).__name__}>'
        oid = id(v)
        if oid in self.objs:
            return {'ref': self.objs[oid]}
        self.objs[oid] = len(self.objs)
        tname = f'{type(v).__module__}.{type(v).__qualname__}'
        if isinstance(v, np.random.Generator) or tname.startswith('numpy.random'):
            return f'<{tname}>'
        if hasattr(v, 'value') and hasattr(v, 'name') and type(v).__module__ != 'builtins' and isinstance(v, __import__('enum').Enum):
            return f'<enum {tname}.{v.name}>'
        d = None
        if dataclasses.is_dataclass(v):
            d = {f.name: getattr(v, f.name, None) for f in dataclasses.fields(v)}
        elif hasattr(v, '__dict__'):
            d = dict(vars(v))
        elif hasattr(v, '__slots__'):
            d = {s: getattr(v, s, None) for s in v.__slots__}
        if d is None:
            return self.text(f'<{tname} {v!r}>')
        return {'obj': tname, 'n': self.objs[oid],
                'attrs': {str(k): self.go(x, depth + 1) for k, x in sorted(d.items(), key=lambda kv: str(kv[0]))}}


def digest(x):
    s = json.dumps(x, sort_keys=True, default=str)
    return {'h': hashlib.sha256(s.encode()).hexdigest()[:16], 'p': s[:240], 'tree': x}


def all_diffs(a, b, path='', out=None, cap=40):
    """leaf paths where two canonical trees differ (capped)"""
    if out is None:
        out = []
    if len(out) >= cap:
        return out
    if type(a) is not type(b):
        out.append((path, a, b))
    elif isinstance(a, dict):
        for k in sorted(set(a) | set(b), key=str):
            if k not in a or k not in b:
                out.append((f'{path}/{k}', a.get(k, '<absent>'), b.get(k, '<absent>')))
            else:
                all_diffs(a[k], b[k], f'{path}/{k}', out, cap)
    elif isinstance(a, list):
        if len(a) != len(b):
            out.append((f'{path}/len', len(a), len(b)))
        else:
            for i, (x, y) in enumerate(zip(a, b)):
                all_diffs(x, y, f'{path}/{i}', out, cap)
    elif a != b:
        if isinstance(a, str) and a.startswith('f:') and isinstance(b, str) and b.startswith('f:') and close(a, b):
            return out
        out.append((path, a, b))
    return out


def close(a, b):
    """two doubles produced by the same computation up to the summation order of the engine's
    threads: relative 1e-9 (rounding noise is ~1e-16; a different formula is far beyond)"""
    try:
        x, y = (float('nan') if t == 'f:nan' else float.fromhex(t[2:]) for t in (a, b))
    except ValueError:
        return False
    if x != x or y != y:
        return x != x and y != y
    if x in (float('inf'), float('-inf')) or y in (float('inf'), float('-inf')):
        return x == y
    return abs(x - y) <= 1e-9 * max(1.0, abs(x), abs(y))


def related(p, q):
    return p == q or p.startswith(q + '/') or q.startswith(p + '/')


# ------------------------------------------------------------------------------------- world
def table(n=6):
    return pd.DataFrame({
        'ID': [1, 1, 2, 2, 3, 3][:n], 'x': [1.0, 2.5, 0.5, 4.0, 3.0, 1.5][:n], 'y': [2.0, 1.0, 3.5, 0.5, 2.5, 4.5][:n],
        'choice': [1, 2, 1, 2, 2, 1][:n], 'av1': [1, 1, 1, 1, 1, 1][:n], 'av2': [1, 1, 0, 1, 1, 1][:n],
        'w': [1.0, 1.0, 2.0, 0.5, 1.0, 1.5][:n], 'grp': [7, 7, 8, 8, 8, 9][:n]})


def mk_db(panel=False, name='tdb'):
    d = db.Database(name, table())
    if panel:
        d.panel('ID')
    return d


def betas():
    return Beta('b1', 0.5, None, None, 0), Beta('b2', -0.25, -10, 10, 0), Beta('bfix', 1.5, None, None, 1)


def utilities():
    b1, b2, bf = betas()
    x, y = Variable('x'), Variable('y')
    return {1: b1 * x + bf, 2: b2 * y}


def avail():
    return {1: Variable('av1'), 2: Variable('av2')}


def logit_model():
    from biogeme import models
    return models.loglogit(utilities(), avail(), Variable('choice'))


def mk_biogeme(sim=False):
    from biogeme.parameters import Parameters
    d = mk_db()
    p = Parameters()
    if sim:
        from biogeme import models
        f = {'p1': models.logit(utilities(), avail(), 1), 'u1': utilities()[1]}
    else:
        f = logit_model()
    b = bio.BIOGEME(d, f, parameters=p)
    b.modelName = 'c20model'
    b.generate_html = False
    b.generate_pickle = False
    b.save_iterations = False
    return b


_RESULT_PICKLE = os.path.join(ROOT, 'c20_results.pickle')


def mk_results():
    import biogeme.results as res
    if not os.path.exists(_RESULT_PICKLE):
        cwd = os.getcwd()
        tmp = tempfile.mkdtemp(dir=ROOT)
        os.chdir(tmp)
        try:
            b = mk_biogeme()
            b.generate_pickle = True
            r = b.estimate()
            src = [f for f in os.listdir('.') if f.endswith('.pickle')][0]
            shutil.copy(src, _RESULT_PICKLE)
        finally:
            os.chdir(cwd)
            shutil.rmtree(tmp, ignore_errors=True)
    return res.bioResults(pickle_file=_RESULT_PICKLE)


def nests_nl():
    from biogeme.nests import OneNestForNestedLogit, NestsForNestedLogit
    mu = Beta('mu_a', 1.5, 1, 10, 0)
    return NestsForNestedLogit(choice_set=[1, 2, 3], tuple_of_nests=(OneNestForNestedLogit(nest_param=mu, list_of_alternatives=[1, 2], name='a'),))


def nests_cnl():
    from biogeme.nests import OneNestForCrossNestedLogit, NestsForCrossNestedLogit
    mu_a, mu_b = Beta('mu_a', 1.5, 1, 10, 0), Beta('mu_b', 2.0, 1, 10, 0)
    al = Beta('alpha', 0.4, 0, 1, 0)
    na = OneNestForCrossNestedLogit(nest_param=mu_a, dict_of_alpha={1: 1.0, 2: al}, name='a')
    nb = OneNestForCrossNestedLogit(nest_param=mu_b, dict_of_alpha={2: 1 - al, 3: 1.0}, name='b')
    return NestsForCrossNestedLogit(choice_set=[1, 2, 3], tuple_of_nests=(na, nb))


def nests_cnl_numeric():
    from biogeme.nests import OneNestForCrossNestedLogit, NestsForCrossNestedLogit
    na = OneNestForCrossNestedLogit(nest_param=1.5, dict_of_alpha={1: 1.0, 2: 0.4}, name='a')
    nb = OneNestForCrossNestedLogit(nest_param=2.0, dict_of_alpha={2: 0.6, 3: 1.0}, name='b')
    return NestsForCrossNestedLogit(choice_set=[1, 2, 3], tuple_of_nests=(na, nb))


def util3():
    b1, b2, bf = betas()
    x, y = Variable('x'), Variable('y')
    return {1: b1 * x + bf, 2: b2 * y, 3: b1 * y - b2 * x}


def avail3(variant):
    if variant % 3 == 2:
        return None
    return {1: Variable('av1'), 2: Variable('av2'), 3: Numeric(1)}


# sample instances of every Expression class --------------------------------------------------
def expr_samples(cname, v):
    """-> a fresh instance of the class (variant v), or None when no recipe exists."""
    b1, b2, bf = betas()
    x, y = Variable('x'), Variable('y')
    n2, n3 = Numeric(2.0), Numeric(-0.75)
    closed = [n2 + n3, b1 * n2, (b1 + bf) / n2, n2][v % 4]           # evaluable without data
    opened = [b1 * x, x + y, b2 * y - n2, b1 * x + b2 * y][v % 4]    # needs data
    a, b = (closed, [n3, b2 + n2, bf, b1][v % 4]) if v % 2 == 0 else (opened, [y, n2, b1, x * n2][v % 4])
    E = ex
    binary = {'Plus', 'Minus', 'Times', 'Divide', 'Power', 'bioMin', 'bioMax', 'And', 'Or', 'BinaryOperator',
              'ComparisonOperator', 'Equal', 'NotEqual', 'LessOrEqual', 'GreaterOrEqual', 'Less', 'Greater'}
    unary = {'UnaryMinus', 'MonteCarlo', 'bioNormalCdf', 'PanelLikelihoodTrajectory', 'exp', 'sin', 'cos', 'log',
             'logzero', 'UnaryOperator'}
    mods = ['biogeme.expressions', 'biogeme.expressions.binary_expressions', 'biogeme.expressions.unary_expressions',
            'biogeme.expressions.comparison_expressions', 'biogeme.expressions.nary_expressions',
            'biogeme.expressions.logit_expressions', 'biogeme.expressions.elementary_expressions',
            'biogeme.expressions.base_expressions', 'biogeme.expressions.multiple_expressions']

    def K(name):
        for m in mods:
            mm = importlib.import_module(m)
            if hasattr(mm, name):
                return getattr(mm, name)
        raise KeyError(name)

    if cname in binary:
        return K(cname)(a, b)
    if cname in unary:
        return K(cname)(a)
    if cname == 'Expression':
        return Expression()
    if cname == 'Numeric':
        return Numeric([2.5, -1.0, 0.0, 1e-3][v % 4])
    if cname == 'Beta':
        return [b1, b2, bf, Beta('bb', 0.0, 0, 1, 0)][v % 4]
    if cname == 'Variable':
        return [x, y, Variable('choice'), Variable('nocolumn')][v % 4]
    if cname == 'Elementary':
        return K('Elementary')('el')
    if cname == 'bioDraws':
        return E.bioDraws('d1', ['NORMAL', 'UNIFORM'][v % 2])
    if cname == 'RandomVariable':
        return E.RandomVariable('omega')
    if cname == 'DefineVariable':
        # the constructor always raises (obsolete class): a bare instance initialised as the Variable it is
        o = object.__new__(K('DefineVariable'))
        K('Variable').__init__(o, ['newv', 'x'][v % 2])
        return o
    if cname == 'PowerConstant':
        return K('PowerConstant')(a, [2.0, 0.5, -1.0, 3.0][v % 4])
    if cname == 'Derive':
        return E.Derive(b1 * b1 * n2 + b1 * x, 'b1')
    if cname == 'Integrate':
        return E.Integrate(E.RandomVariable('omega') * b1, 'omega')
    if cname == 'BelongsTo':
        return E.BelongsTo(a, {1.0, 2.0, 1.25})
    if cname == 'bioMultSum':
        return E.bioMultSum([a, b, n2] if v % 2 == 0 else {'p': a, 'q': b})
    if cname == 'ConditionalSum':
        T = K('ConditionalTermTuple')
        return K('ConditionalSum')([T(condition=Numeric(1), term=a), T(condition=(n3 > 0), term=b)])
    if cname == 'Elem':
        return E.Elem({0: a, 1: b, 2: n3}, [Numeric(1), Numeric(0), Numeric(5), x][v % 4])
    if cname == 'bioLinearUtility':
        T = K('LinearTermTuple')
        return E.bioLinearUtility([T(beta=b1, x=x), T(beta=b2, x=y)])
    if cname in ('LogLogit', '_bioLogLogit', '_bioLogLogitFullChoiceSet'):
        if v % 2 == 0:
            u, av, ch = {1: closed, 2: n3, 3: bf}, ({1: Numeric(1), 2: Numeric(1), 3: Numeric([1, 0][v % 4 // 2])}), Numeric([1, 3][v % 4 // 2])
        else:
            u, av, ch = utilities(), avail(), Variable('choice')
        if cname == '_bioLogLogitFullChoiceSet':
            return K(cname)(u, ch)
        return K(cname)(u, av, ch)
    if cname == 'MultipleExpression':
        return None  # abstract
    if cname == 'Catalog':
        from biogeme.catalog import Catalog
        return Catalog.from_dict('cat', {'first': a, 'second': b})
    return None


def n_free(e):
    try:
        return len(e.get_beta_values())
    except Exception:  # noqa
        return 0


def expr_args(old, e, v):
    """arguments for the Expression aliases"""
    if old in ('getValue', 'getClassName', 'requiresDraws', 'getStatusIdManager', 'countPanelTrajectoryExpressions'):
        return (), {}
    if old == 'getSignature':
        if v % 2 == 1:
            e.prepare(mk_db(), 10)
        return (), {}
    if old == 'getElementaryExpression':
        return (['b1', 'x', 'omega', 'zz'][v % 4],), {}
    if old == 'setIdManager':
        if v % 2 == 0:
            return (None,), {}
        from biogeme.expressions.idmanager import IdManager
        return (IdManager([e], mk_db(), 10),), {}
    if old == 'embedExpression':
        return (['MonteCarlo', 'PanelLikelihoodTrajectory', 'bioDraws', 'Plus'][v % 4],), {}
    if old == 'getValue_c':
        if v % 3 == 0:
            return (), {'prepare_ids': True}
        if v % 3 == 1:
            return (), {'database': mk_db(), 'prepare_ids': True, 'number_of_draws': 20}
        return (mk_db(), {'b1': 0.1, 'b2': 0.2}, 20, True, True), {}
    if old == 'getValueAndDerivatives':
        if v % 2 == 0:
            return (), {'database': mk_db(), 'prepare_ids': True, 'number_of_draws': 20}
        return ({'b1': 0.1, 'b2': 0.2}, mk_db(), 20, True, False, False, False, True), {}
    if old == 'createFunction':
        return (), {'database': mk_db(), 'number_of_draws': 20, 'gradient': True, 'hessian': v % 2 == 0, 'bhhh': False}
    return None


# ------------------------------------------------------------------------------------ recipes
def setup(case):
    """-> (receiver, args, kwargs, post) ; post(result, receiver) optionally refines a result that
    is itself a function.  Raises LookupError when no recipe exists."""
    cls, mod, old, v = case['cls'], case['mod'], case['old'], case['variant']
    post = None
    if cls:
        cm, cn = cls.split(':')
        K = getattr(importlib.import_module(cm), cn)
        if issubclass(K, Expression):
            e = expr_samples(cn, v // 2 if old in ('getSignature', 'setIdManager') else v)
            if e is None:
                raise LookupError(f'no sample instance for {cn}')
            r = expr_args(old, e, v)
            if r is None:
                raise LookupError(f'no argument recipe for Expression.{old}')
            if old == 'createFunction':
                k = n_free(e)

                def post(res, recv, k=k):
                    return {'called_on': k, 'value': res(np.array([0.1 * (i + 1) for i in range(k)]))}
            return e, r[0], r[1], post
        if cn == 'Database':
            panel = old in ('sampleIndividualMapWithReplacement', 'buildPanelMap', 'generateFlatPanelDataframe') or \
                (old in ('isPanel', 'getSampleSize', 'getNumberOfObservations') and v % 2 == 1)
            d = mk_db(panel=panel)
            x, y = Variable('x'), Variable('y')
            A = {
                'valuesFromDatabase': lambda: (([x * 2 + y, x / y, Variable('nocol'), x][v % 4],), {}),
                'checkAvailabilityOfChosenAlt': lambda: ((avail(), Variable('choice')), {}),
                'choiceAvailabilityStatistics': lambda: ((avail(), Variable('choice')), {}),
                'scaleColumn': lambda: ((['x', 'y', 'nocol', 'w'][v % 4], [0.5, 10.0, 2.0, 0.0][v % 4]), {}),
                'suggestScaling': lambda: [((), {}), ((['x', 'y'],), {}), ((), {'report_all': True}), ((['nocol'],), {})][v % 4],
                'sampleWithReplacement': lambda: [((), {}), ((3,), {}), ((), {'size': 10}), ((1,), {})][v % 4],
                'sampleIndividualMapWithReplacement': lambda: [((), {}), ((2,), {}), ((), {'size': 5}), ((1,), {})][v % 4],
                'addColumn': lambda: [((x + 1, 'newcol'), {}), ((x * y, 'x'), {}), ((Variable('nocol'), 'n2'), {}), ((), {'expression': y * 2, 'column': 'c3'})][v % 4],
                'DefineVariable': lambda: [(('nv', x * 3), {}), (('nv2', x + y), {}), (('x', y), {}), ((), {'name': 'nv3', 'expression': y})][v % 4],
                'dumpOnFile': lambda: ((), {}),
                'setRandomNumberGenerators': lambda: (({'MYU': (lambda sample_size, number_of_draws: np.random.uniform(size=(sample_size, number_of_draws)), 'my uniform')},), {}),
                'generateDraws': lambda: [(({'d1': 'UNIFORM', 'd2': 'NORMAL'}, ['d1', 'd2'], 4), {}),
                                          (({'d1': 'UNIFORM_HALTON2'}, ['d1'], 3), {}),
                                          (({'d1': 'NOSUCH'}, ['d1'], 3), {}),
                                          (({'d1': 'NORMAL_ANTI', 'd2': 'UNIFORMSYM'}, ['d2', 'd1'], 6), {})][v % 4],
                'getNumberOfObservations': lambda: ((), {}), 'getSampleSize': lambda: ((), {}), 'isPanel': lambda: ((), {}),
                'buildPanelMap': lambda: ((), {}),
                'generateFlatPanelDataframe': lambda: [((), {}), ((True,), {}), ((False, ['grp']), {}), ((), {'identical_columns': []})][v % 4],
                'descriptionOfNativeDraws': lambda: ((), {}),
            }
            if old not in A:
                raise LookupError(f'no argument recipe for Database.{old}')
            a, k = A[old]()
            return d, a, k, None
        if cn == 'BIOGEME':
            b = mk_biogeme(sim=(old == 'confidenceIntervals'))
            xx = [np.array([0.1, 0.2]), [0.5, -0.25], np.array([0.0, 0.0]), np.array([1.0])][v % 4]
            A = {
                'getBoundsOnBeta': lambda: ((['b1', 'b2', 'bfix', 'nope'][v % 4],), {}),
                'calculateNullLoglikelihood': lambda: ((avail(),), {}),
                'calculateInitLikelihood': lambda: ((), {}),
                'calculateLikelihood': lambda: [((xx, False), {}), ((xx, True), {}), ((xx,), {'scaled': False}), ((xx, False), {})][v % 4],
                'calculateLikelihoodAndDerivatives': lambda: [((xx, False), {}), ((xx, True, True, True), {}), ((xx,), {'scaled': False, 'hessian': True}), ((xx, False), {})][v % 4],
                'likelihoodFiniteDifferenceHessian': lambda: ((xx,), {}),
                'checkDerivatives': lambda: [((xx,), {}), ((xx, True), {}), ((xx,), {'verbose': False}), ((xx,), {})][v % 4],
                'setRandomInitValues': lambda: [((), {}), ((5.0,), {}), ((), {'default_bound': 1.0}), ((0.0,), {})][v % 4],
                'quickEstimate': lambda: ((), {}),
                'confidenceIntervals': lambda: (([{'b1': 0.4, 'b2': -0.2}, {'b1': 0.6, 'b2': -0.3}, {'b1': 0.5, 'b2': -0.1}], [0.9, 0.5][v % 2]), {}),
            }
            if old not in A:
                raise LookupError(f'no argument recipe for BIOGEME.{old}')
            a, k = A[old]()
            return b, a, k, None
        if cn == 'bioResults':
            r = mk_results()
            A = {
                'writePickle': ((), {}), 'shortSummary': ((), {}), 'getGeneralStatistics': ((), {}), 'printGeneralStatistics': ((), {}),
                'numberOfFreeParameters': ((), {}), 'getVarCovar': ((), {}), 'getRobustVarCovar': ((), {}),
                'getBootstrapVarCovar': ((), {}), 'writeLaTeX': ((), {}),
                'getLaTeX': [((), {}), ((False,), {}), ((True,), {}), ((), {})][v % 4],
                'getEstimatedParameters': [((), {}), ((False,), {}), ((), {'only_robust': False}), ((True,), {})][v % 4],
                'getCorrelationResults': [((), {}), ((['b1', 'b2'],), {}), ((), {'subset': ['b1']}), ((['nope'],), {})][v % 4],
                'getHtml': [((), {}), ((False,), {}), ((), {'only_robust': True}), ((), {})][v % 4],
                'getBetaValues': [((), {}), ((['b1'],), {}), ((), {'my_betas': ['b2', 'b1']}), ((['nope'],), {})][v % 4],
                'writeHtml': [((), {}), ((False,), {}), ((), {'only_robust': True}), ((), {})][v % 4],
                'getBetasForSensitivityAnalysis': [((['b1', 'b2'],), {'use_bootstrap': False}), ((['b1', 'b2'], 5, False), {}), ((['b1'],), {}), ((['b1', 'b2'],), {'size': 3, 'use_bootstrap': False})][v % 4],
                'getF12': [((), {}), ((False,), {}), ((), {'robust_std_err': True}), ((), {})][v % 4],
                'writeF12': [((), {}), ((False,), {}), ((), {'robust_std_err': True}), ((), {})][v % 4],
            }
            if old not in A:
                raise LookupError(f'no argument recipe for bioResults.{old}')
            return r, A[old][0], A[old][1], None
        if cn == 'IdManager':
            from biogeme.expressions.idmanager import IdManager
            f = logit_model()
            im = IdManager([f], mk_db(), 10)
            if v % 2 == 0:
                # set_data / set_data_map forward to `expression.cpp`, which no expression class defines:
                # give the expression a recorder so that the call has an observable effect
                class Rec:
                    def __init__(self):
                        self.calls = []

                    def set_data(self, sample):
                        self.calls.append(['set_data', list(sample.shape)])

                    def set_data_map(self, sample):
                        self.calls.append(['set_data_map', list(sample.shape)])
                f.cpp = Rec()
            return im, (table(4 if v % 4 >= 2 else 6),), {}, None
        raise LookupError(f'no recipe for class {cn}')
    # ---- module level
    m = importlib.import_module(mod)
    x, y = Variable('x'), Variable('y')
    b1, b2, bf = betas()
    ch = [1, 2, 3, Variable('choice')][v % 4]

    def call_fn(res, recv):
        pts = [np.array([1.0, 2.0, 0.5]), np.array([0.3, 0.3, 0.3])]
        return {'at': [res(p) for p in pts]}

    M = {
        ('biogeme.cnl', 'cnl_G'): lambda: (([1, 2, 3], nests_cnl_numeric()), {}, call_fn),
        ('biogeme.cnl', 'cnl_CDF'): lambda: (([1, 2, 3], nests_cnl_numeric()), {}, call_fn),
        ('biogeme.draws', 'getUniform'): lambda: ([(3, 4), (2, 5, True), (1, 1), (4, 2, False)][v % 4], {}, None),
        ('biogeme.draws', 'getLatinHypercubeDraws'): lambda: [((3, 4), {}, None), ((2, 5, True), {}, None),
                                                              ((2, 2), {'uniform_numbers': np.array([0.1, 0.6, 0.3, 0.9])}, None),
                                                              ((2, 2, False, np.array([0.5, 0.2, 0.7, 0.4])), {}, None)][v % 4],
        ('biogeme.draws', 'getHaltonDraws'): lambda: [((3, 4), {}, None), ((2, 5, True, 3, 10), {}, None),
                                                      ((2, 2), {'base': 5, 'shuffled': True}, None), ((2, 3, False, 4), {}, None)][v % 4],
        ('biogeme.draws', 'getAntithetic'): lambda: ((m.get_uniform, 3, 4), {}, None),
        ('biogeme.draws', 'getNormalWichuraDraws'): lambda: [((3, 4), {}, None), ((2, 4), {'antithetic': True}, None),
                                                             ((2, 2, np.array([0.1, 0.6, 0.3, 0.9])), {}, None), ((2, 3), {}, None)][v % 4],
        ('biogeme.models.cnl', 'cnl_avail'): lambda: ((util3(), avail3(v), nests_cnl(), ch), {}, None),
        ('biogeme.models.cnl', 'logcnl_avail'): lambda: ((util3(), avail3(v), nests_cnl(), ch), {}, None),
        ('biogeme.models.cnl', 'getMevForCrossNested'): lambda: ((util3(), avail3(v), nests_cnl()), {}, None),
        ('biogeme.models.cnl', 'getMevForCrossNestedMu'): lambda: ((util3(), avail3(v), nests_cnl(), Beta('mu', 1.2, 1, 5, 0)), {}, None),
        ('biogeme.models.mev', 'logmev_endogenousSampling'): lambda: ((util3(), {1: x, 2: y, 3: x * y}, avail3(v), {1: Numeric(0.1), 2: Numeric(0.2), 3: Numeric(0.3)}, ch), {}, None),
        ('biogeme.models.mev', 'mev_endogenousSampling'): lambda: ((util3(), {1: x, 2: y, 3: x * y}, avail3(v), {1: Numeric(0.1), 2: Numeric(0.2), 3: Numeric(0.3)}, ch), {}, None),
        ('biogeme.models.nested', 'getMevGeneratingForNested'): lambda: ((util3(), avail3(v), nests_nl()), {}, None),
        ('biogeme.models.nested', 'getMevForNested'): lambda: ((util3(), avail3(v), nests_nl()), {}, None),
        ('biogeme.models.nested', 'getMevForNestedMu'): lambda: ((util3(), avail3(v), nests_nl(), Beta('mu', 1.2, 1, 5, 0)), {}, None),
        ('biogeme.models.nested', 'nestedMevMu'): lambda: ((util3(), avail3(v), nests_nl(), ch, Beta('mu', 1.2, 1, 5, 0)), {}, None),
        ('biogeme.models.nested', 'lognestedMevMu'): lambda: ((util3(), avail3(v), nests_nl(), ch, Beta('mu', 1.2, 1, 5, 0)), {}, None),
        ('biogeme.models.piecewise', 'piecewiseVariables'): lambda: (([x, 'x', x, y][v % 4], [[None, 1, 3, None], [0, 2, None], [1, 1], [None, None]][v % 4]), {}, None),
        ('biogeme.models.piecewise', 'piecewiseFormula'): lambda: [(('x', [None, 1, 3, None]), {}, None), ((x, [0, 2, None], [b1, b2]), {}, None),
                                                                   (('x', [0, 1, 2]), {'betas': [b1]}, None), ((x * y, [0, 1]), {}, None)][v % 4],
        ('biogeme.models.piecewise', 'piecewiseFunction'): lambda: (([0.5, 2.0, 7.0, -1.0][v % 4], [[None, 1, 3, None], [0, 2, None], [1, 3, 5, 10], [None, 0, None]][v % 4],
                                                                     [[1.0, 2.0, 3.0], [0.5, -0.5], [1.0, 1.0, 1.0], [2.0, 4.0]][v % 4]), {}, None),
        ('biogeme.multiobjectives', 'AIC_BIC_dimension'): lambda: ((mk_results(),), {}, None),
        ('biogeme.results', 'calcPValue'): lambda: (([0.0, 1.96, -2.5, float('inf')][v % 4],), {}, None),
        ('biogeme.results', 'compileEstimationResults'): lambda: [(({'m1': mk_results(), 'm2': mk_results()},), {}, None),
                                                                 (({'m1': mk_results()},), {'formatted': False, 'include_robust_stderr': True}, None),
                                                                 (({'m1': mk_results()}, ('Sample size',), False), {}, None),
                                                                 (({},), {}, None)][v % 4],
        ('biogeme.segmentation', 'segment_parameter'): lambda: ((b1, _seg_tuples(v)), ({'prefix': 'pp'} if v % 2 else {}), None),
        ('biogeme.tools.database', 'countNumberOfGroups'): lambda: ((table(), ['grp', 'ID', 'choice', 'nocol'][v % 4]), {}, None),
        ('biogeme.tools.derivatives', 'findiff_H'): lambda: ((_quad_fn(), np.array([[1.0, 2.0], [0.0, 0.0], [-1.0, 0.5], [3.0, 3.0]][v % 4])), {}, None),
        ('biogeme.tools.derivatives', 'checkDerivatives'): lambda: ((_quad_fn(), np.array([[1.0, 2.0], [0.0, 0.0], [-1.0, 0.5], [3.0, 3.0]][v % 4])),
                                                                    [{}, {'names': ['p', 'q']}, {'logg': True}, {'names': ['p', 'q'], 'logg': True}][v % 4], None),
        ('biogeme.version', 'getVersion'): lambda: ((), {}, None), ('biogeme.version', 'getHtml'): lambda: ((), {}, None),
        ('biogeme.version', 'getText'): lambda: ((), {}, None), ('biogeme.version', 'getLaTeX'): lambda: ((), {}, None),
    }
    if (mod, old) not in M:
        raise LookupError(f'no recipe for {mod}.{old}')
    a, k, post = M[(mod, old)]()
    return m, a, k, post


def _seg_tuples(v):
    from biogeme.segmentation import DiscreteSegmentationTuple
    t1 = DiscreteSegmentationTuple(variable=Variable('grp'), mapping={7: 'g7', 8: 'g8', 9: 'g9'})
    t2 = DiscreteSegmentationTuple(variable=Variable('choice'), mapping={1: 'c1', 2: 'c2'}, reference='c2')
    return [(t1,), (t1, t2), (t2,), ()][v % 4]


def _quad_fn():
    from biogeme.function_output import FunctionOutput

    def f(xv):
        f0 = float(xv[0] ** 2 * xv[1] + 3 * xv[1] ** 2 + xv[0])
        g = np.array([2 * xv[0] * xv[1] + 1, xv[0] ** 2 + 6 * xv[1]])
        h = np.array([[2 * xv[1], 2 * xv[0]], [2 * xv[0], 6.0]])
        return FunctionOutput(function=f0, gradient=g, hessian=h)

    return f



# --------------------------------------------------------------- renamed keyword arguments
def setup_kw(case):
    """case: {'cls','mod','func','okw','nkw' (None = ignored keyword),'variant','via' (alias name or None)}
    -> (callable-holder, func name, args, kwargs-without-the-keyword, value, post)"""
    cls, mod, func, okw, v = case['cls'], case['mod'], case['func'], case['okw'], case['variant']
    x, y = Variable('x'), Variable('y')
    b1, b2, bf = betas()
    post = None
    if cls.endswith(':bioResults'):
        if func == '__init__':
            import biogeme.results as res
            mk_results()
            if okw == 'pickleFile':
                return res, 'bioResults', (), {}, _RESULT_PICKLE, None
            if okw == 'theRawResults':
                import pickle
                with open(_RESULT_PICKLE, 'rb') as f:
                    raw = pickle.load(f)
                return res, 'bioResults', (), {}, raw, None
            raise LookupError(f'no keyword recipe for bioResults.__init__({okw})')
        r = mk_results()
        V = {'onlyRobust': [False, True][v % 2], 'robustStdErr': [False, True][v % 2], 'myBetas': [['b1'], ['b2', 'b1']][v % 2],
             'useBootstrap': False}
        base = {'get_betas_for_sensitivity_analysis': ((), {'my_betas': ['b1', 'b2'], 'size': 4, 'use_bootstrap': False})}
        a, k = base.get(func, ((), {}))
        k = dict(k)
        k.pop(case['nkw'], None)
        if okw not in V:
            raise LookupError(f'no value recipe for keyword {okw}')
        return r, func, a, k, V[okw], None
    if cls.endswith(':BIOGEME'):
        if func == '__init__':
            from biogeme.parameters import Parameters
            V = {'suggestScales': True, 'numberOfThreads': 2, 'numberOfDraws': 50, 'missingData': 9999, 'parameter_file': Parameters(),
                 'userNotes': 'my notes', 'generateHtml': False, 'saveIterations': False, 'seed_param': 17}
            if okw not in V:
                raise LookupError(f'no value recipe for keyword {okw}')
            k = {} if okw == 'parameter_file' else {'parameters': Parameters()}
            return bio, 'BIOGEME', (mk_db(), logit_model()), k, V[okw], None
        if func == 'estimate':
            return mk_biogeme(), func, (), {}, False, None
        if func == 'simulate':
            return mk_biogeme(sim=True), func, (), {}, {'b1': 0.3, 'b2': -0.4}, None
        raise LookupError(f'no keyword recipe for BIOGEME.{func}')
    if cls.endswith(':Expression'):
        e = [b1 * x + b2 * y, ex.exp(b1 * x) + bf, b1 * ex.MonteCarlo(ex.bioDraws('d1', 'UNIFORM') * x)][v % 3]
        V = {'numberOfDraws': [7, 12][v % 2], 'prepareIds': True}
        d = mk_db()
        base = {'prepare': ((), {'database': d}), 'get_value_c': ((), {'database': d, 'prepare_ids': True, 'number_of_draws': 9}),
                'get_value_and_derivatives': ((), {'database': d, 'prepare_ids': True, 'number_of_draws': 9}),
                'create_function': ((), {'database': d, 'number_of_draws': 9}),
                'create_objective_function': ((), {'database': d, 'number_of_draws': 9})}
        if func not in base or okw not in V:
            raise LookupError(f'no keyword recipe for Expression.{func}({okw})')
        a, k = base[func]
        k = dict(k)
        k.pop(case['nkw'], None)
        if func == 'create_function':
            kk = n_free(e)

            def post(res, recv, kk=kk):
                return {'value': res(np.array([0.1 * (i + 1) for i in range(kk)]))}
        if func == 'create_objective_function':
            def post(res, recv):
                return {'dim': res.dimension(), 'type': type(res).__name__}
        return e, func, a, k, V[okw], post
    if mod == 'biogeme.draws' and not cls:
        m = importlib.import_module(mod)
        u = np.array([0.15, 0.65, 0.35, 0.85, 0.05, 0.55][: [4, 6][v % 2]])
        return m, func, ([2, 3][v % 2], 2), {}, u, None
    raise LookupError(f'no keyword recipe for {cls or mod}.{func}')

# --------------------------------------------------------------------------------------- run
_NUM = re.compile(r'\d+(\.\d+)?([eE][+-]?\d+)?')


def exc_text(c, exc):
    """Message of an exception.  Errors of the C++ engine quote the row that failed first and the values of
    that row inside the printed expression: which row reports first is a race between the engine's threads,
    so numbers are masked in those messages (file names, expression structure and wording are kept)."""
    t = c.text(str(exc))
    if 'cythonbiogeme' in t or 'Biogeme exception' in t:
        t = _NUM.sub('#', t)
    return t


class SetupError(Exception):
    pass


class ListHandler(logging.Handler):
    def __init__(self):
        super().__init__(level=logging.DEBUG)
        self.records = []

    def emit(self, record):
        try:
            self.records.append(f'{record.levelname}:{record.getMessage()}')
        except Exception as e:  # noqa
            self.records.append(f'{record.levelname}:<unformattable {e}>')


def file_state(d):
    res = {}
    for base, _, fs in os.walk(d):
        for f in fs:
            p = os.path.join(base, f)
            rel = os.path.relpath(p, d)
            try:
                raw = open(p, 'rb').read()
            except OSError:
                raw = b''
            if f.endswith('.pickle'):
                res[rel] = 'pickle'
            else:
                res[rel] = hashlib.sha256(Canon().text(raw.decode('latin-1')).encode()).hexdigest()[:12]
    return res


def one_run(case, name):
    d = tempfile.mkdtemp(dir=ROOT, prefix='run-')
    os.chdir(d)
    comp = {}
    try:
        np.random.seed(case['seed'])
        random.seed(case['seed'])
        try:
            if case.get('kind') == 'kw':
                recv, fname, args, kwargs, value, post = setup_kw(case)
                if case.get('fv') is not None:  # an explicitly given falsy value (None, False, 0, '', [], {})
                    value = case['fv']['value']
                kwargs = dict(kwargs)
                if name == 'old':
                    kwargs[case['okw']] = value
                    fname = case.get('via') or fname
                elif case['nkw'] is not None:
                    kwargs[case['nkw']] = value
                name = fname
            else:
                recv, args, kwargs, post = setup(case)
        except LookupError:
            raise
        except Exception as e:  # noqa
            raise SetupError(f'{type(e).__name__}: {e}')
        missing = None
        if hasattr(recv, name) or inspect.ismodule(recv):
            try:
                target = getattr(recv, name)
            except AttributeError:
                missing = name
        else:  # a static alias whose replacement is a function of the class' module
            target = getattr(sys.modules[type(recv).__module__], name, None)
            if target is None:
                missing = name
        if missing:
            z = digest(None)
            return {'result': digest({'missing-attribute': missing}), 'exception': z, 'state': z, 'files': z, 'logs': z,
                    'stdout': z, 'new_files': [], 'warnings_raw': [], 'raised': True}
        before = set(os.listdir('.'))
        np.random.seed(case['seed'] + 1)
        random.seed(case['seed'] + 1)
        h = ListHandler()
        root = logging.getLogger()
        blog = logging.getLogger('biogeme')
        old_levels = (root.level, blog.level)
        root.addHandler(h)
        blog.setLevel(logging.DEBUG)
        out = io.StringIO()
        result = exc = None
        with warnings.catch_warnings(record=True) as wl:
            warnings.simplefilter('always')
            try:
                with contextlib.redirect_stdout(out):
                    result = target(*args, **kwargs)
                    if post is not None:
                        result = post(result, recv)
            except Exception as e:  # noqa
                exc = e
        root.removeHandler(h)
        blog.setLevel(old_levels[1])
        c = Canon()
        comp['result'] = digest(c.go(result))
        comp['exception'] = digest(None if exc is None else [type(exc).__module__ + '.' + type(exc).__qualname__, exc_text(c, exc)])
        if case.get('kind') == 'kw':  # the keyword's own spelling is the one intended difference
            state = {'args': c.go(list(args)), 'value': c.go(value),
                     'kwargs': c.go({k: x for k, x in kwargs.items() if k not in (case['okw'], case['nkw'])})}
        else:
            state = {'args': c.go(list(args)), 'kwargs': c.go(kwargs)}
        if not inspect.ismodule(recv):
            state['receiver'] = c.go(recv)
        comp['state'] = digest(state)
        comp['files'] = digest({k: v for k, v in file_state('.').items()})
        comp['new_files'] = sorted(set(os.listdir('.')) - before)
        ws = [[w.category.__name__, c.text(str(w.message))] for w in wl]
        comp['warnings_raw'] = ws
        comp['logs'] = digest([c.text(r) for r in h.records])
        comp['stdout'] = digest(c.text(out.getvalue()))
        comp['raised'] = exc is not None
        return comp
    finally:
        os.chdir(ROOT)
        shutil.rmtree(d, ignore_errors=True)


COMPONENTS = ['result', 'exception', 'state', 'files', 'logs', 'stdout']


class ChildDied(Exception):
    pass


def forked(fn, *a):
    """Run fn(*a) in a forked child and return its JSON result.  The C++ engine keeps the first
    exception it ever raised and re-raises it on every later evaluation of the process, so every
    single run gets a pristine copy of this (never evaluating) parent.  A child that dies without
    a complete result (the engine's worker threads can take the process down after one of them
    raised) is retried; three deaths in a row are reported as data."""
    last = ''
    for attempt in range(3):
        try:
            return _forked_once(fn, *a)
        except ChildDied as e:
            last = str(e)
    raise ChildDied(last)


def _forked_once(fn, *a):
    import signal
    import traceback
    sys.stdout.flush()
    r, w = os.pipe()
    pid = os.fork()
    if pid == 0:
        try:
            os.close(r)
            signal.alarm(600)
            try:
                res = {'ok': fn(*a)}
            except LookupError as e:
                res = {'lookup': str(e)}
            except SetupError as e:
                res = {'setup': str(e)[:300]}
            except BaseException as e:  # noqa
                res = {'crash': f'{type(e).__name__}: {e}'[:300], 'tb': traceback.format_exc()[-600:]}
            try:
                data = json.dumps(res, default=str)
            except BaseException as e:  # noqa
                data = json.dumps({'crash': f'unserialisable result: {type(e).__name__}: {e}'[:300]})
            with os.fdopen(w, 'w') as f:
                f.write(data)
        finally:
            os._exit(0)
    os.close(w)
    with os.fdopen(r) as f:
        data = f.read()
    _, status = os.waitpid(pid, 0)
    try:
        res = json.loads(data)
    except ValueError:
        raise ChildDied(f'child ended with wait status {status} after {len(data)} bytes of output')
    if 'lookup' in res:
        raise LookupError(res['lookup'])
    if 'setup' in res:
        raise SetupError(res['setup'])
    if 'crash' in res:
        raise RuntimeError(res['crash'] + ' | ' + res.get('tb', ''))
    return res['ok']


def triple(case):
    """one round: old, new, new -> (diffs not explained by run-to-run variation, unstable paths, old run)"""
    kw = case.get('kind') == 'kw'
    o = forked(one_run, case, 'old' if kw else case['old'])
    na = forked(one_run, case, 'new' if kw else case['new'])
    expected_w = ['DeprecationWarning', f"{case['old']} is deprecated; use {case['new']} instead."] if not kw else None
    raw = {k: all_diffs(o[k]['tree'], na[k]['tree']) if o[k]['h'] != na[k]['h'] else [] for k in COMPONENTS}
    ow0 = [w for w in o['warnings_raw']]
    suspicious = any(raw.values()) or len(ow0) != len(na['warnings_raw']) + 1
    # the control run (replacement called a second time) is only needed when something differs
    nb = forked(one_run, case, 'new' if kw else case['new']) if suspicious else na
    diffs, unstable = [], []
    for k in COMPONENTS:
        un = [k + p for p, _, _ in all_diffs(na[k]['tree'], nb[k]['tree'])] if na[k]['h'] != nb[k]['h'] else []
        unstable += un
        for p, va, vb in raw[k]:
            if not any(related(k + p, u) for u in un):
                diffs.append({'component': k, 'at': k + p, 'old': json.dumps(va, default=str)[:200],
                              'new': json.dumps(vb, default=str)[:200]})
    ow = list(o['warnings_raw'])
    if kw:
        # "Parameter 'old' is deprecated; use 'new=<value>' instead."  /  "... is deprecated and is ignored. ..."
        pat = (f"Parameter '{case['okw']}' is deprecated; use '{case['nkw']}=" if case['nkw'] is not None
               else f"Parameter '{case['okw']}' is deprecated and is ignored.")
        hits = [w for w in ow if w[0] == 'DeprecationWarning' and w[1].startswith(pat)]
        n_alias = len(hits)
        if hits:
            ow.remove(hits[0])
        if case.get('via'):
            wa = ['DeprecationWarning', f"{case['via']} is deprecated; use {case['func']} instead."]
            if wa in ow:
                ow.remove(wa)
            else:
                n_alias = -1
    else:
        n_alias = sum(1 for w in ow if w == expected_w)
        if n_alias >= 1:
            ow.remove(expected_w)
    if na['warnings_raw'] != nb['warnings_raw']:
        unstable.append('warnings')
    elif ow != na['warnings_raw']:
        diffs.append({'component': 'warnings', 'at': 'warnings', 'old': json.dumps(ow)[:300],
                      'new': json.dumps(na['warnings_raw'])[:300]})
    return diffs, unstable, o, n_alias


def _build_results():
    mk_results()
    return True


if any(c['cls'].endswith(':bioResults') or c.get('old') in ('AIC_BIC_dimension', 'compileEstimationResults') for c in payload['cases']):
    try:
        forked(_build_results)
    except Exception as e:  # noqa  (reported per case as setup-failed)
        pass

results = []
for case in payload['cases']:
    r = {'case': case}
    try:
        if case.get('kind') != 'kw' and case.get('new') is None:
            results.append({'case': case, 'status': 'no-replacement'})
            continue
        try:
            diffs, unstable, o, n_alias = triple(case)
        except LookupError as e:
            results.append({'case': case, 'status': 'no-recipe', 'why': str(e)})
            continue
        except SetupError as e:
            results.append({'case': case, 'status': 'setup-failed', 'why': str(e)[:300]})
            continue
        except ChildDied as e:
            results.append({'case': case, 'status': 'process-died', 'why': str(e)[:300]})
            continue
        rounds = 1
        while diffs and rounds < 3:  # keep only what is reproducible (thread races, clocks)
            try:
                d2, u2, _, n2 = triple(case)
            except ChildDied:
                diffs = []
                break
            # a genuine difference is deterministic: same place, same two values, every time
            keep = {(d['at'], d['old'], d['new']) for d in d2}
            diffs = [d for d in diffs if (d['at'], d['old'], d['new']) in keep]
            unstable += u2
            rounds += 1
        r['status'] = 'ran'
        r['rounds'] = rounds
        r['raised'] = o['raised']
        r['alias_warnings'] = n_alias
        r['deprecation_seen'] = [w for w in o['warnings_raw'] if w[0] == 'DeprecationWarning'][:4]
        r['diffs'] = diffs[:6]
        r['unstable'] = sorted(set(unstable))[:8]
        r['result_preview'] = o['result']['p'][:120] if not o['raised'] else o['exception']['p'][:160]
        r['new_files'] = o['new_files']
    except BaseException as e:  # noqa
        import traceback
        r['status'] = 'harness-error'
        r['why'] = f'{type(e).__name__}: {e}'[:300]
        r['tb'] = traceback.format_exc()[-600:]
        os.chdir(ROOT)
    results.append(r)

print('@@' + json.dumps({'results': results}))
